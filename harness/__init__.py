"""Harness binding the TLA+ specification family in /verif/spec to yamlpath in /repo."""
