"""Abstract documents (spec/YData.tla vocabulary) <-> real ruamel.yaml object graphs.

concretise(doc)  node table -> YAML text (block or flow style, quoted strings)
load(text)       -> data as yamlpath's own loader produces it
abstract(data)   -> node table (pre-order ids); positions(data) -> per-id (obj, parent, ref)
locate(...)      -> node id designated by a NodeCoords-like (node, parent, parentref)
"""
import io
import datetime
from collections import OrderedDict

from ruamel.yaml.comments import CommentedMap, CommentedSeq, CommentedSet, TaggedScalar
from ruamel.yaml.scalarfloat import ScalarFloat
from ruamel.yaml.scalarbool import ScalarBoolean
from ruamel.yaml.scalarint import ScalarInt
from ruamel.yaml.scalarstring import ScalarString

from yamlpath.common import Parsers
from yamlpath.wrappers import ConsolePrinter


class _Args:
    debug = False
    verbose = False
    quiet = True


LOG = ConsolePrinter(_Args())


def node(k, t="", v="", par=0):
    return {"k": k, "t": t, "v": v, "kids": [], "keys": [], "par": par, "anchor": "", "alias": 0}


# --------------------------------------------------------------------------- building tables from nested literals
def table(nested):
    """Nested python literal -> node table.

    dict -> map (keys: str or int), list -> seq, set/frozenset -> set, scalars by type;
    ("&A", x) anchors x with name A; ("*A",) is an alias of the node anchored A;
    ("f", "1.50") a float with that source text; ("s", "text") a string.
    """
    doc = []
    anchors = {}

    def add(x, par):
        anchor = ""
        if isinstance(x, tuple) and len(x) == 2 and isinstance(x[0], str) and x[0].startswith("&"):
            anchor = x[0][1:]
            x = x[1]
        if isinstance(x, tuple) and len(x) == 1 and x[0].startswith("*"):
            tgt = anchors[x[0][1:]]
            n = dict(doc[tgt - 1])
            n.update({"par": par, "alias": tgt, "kids": [], "keys": []})
            doc.append(n)
            return len(doc)
        if isinstance(x, dict):
            n = node("map", par=par)
        elif isinstance(x, list):
            n = node("seq", par=par)
        elif isinstance(x, (set, frozenset)):
            n = node("set", par=par)
        elif x is None:
            n = node("s", "null", "", par)
        elif isinstance(x, bool):
            n = node("s", "bool", "true" if x else "false", par)
        elif isinstance(x, int):
            n = node("s", "int", str(x), par)
        elif isinstance(x, float):
            n = node("s", "float", repr(x), par)
        elif isinstance(x, tuple) and x[0] == "f":
            n = node("s", "float", x[1], par)
        elif isinstance(x, tuple) and x[0] == "b":
            n = node("s", "bool", x[1], par)
        elif isinstance(x, tuple) and x[0] == "s":
            n = node("s", "str", x[1], par)
        else:
            n = node("s", "str", str(x), par)
        n["anchor"] = anchor
        doc.append(n)
        me = len(doc)
        if anchor:
            anchors[anchor] = me
        if isinstance(x, dict):
            for key, val in x.items():
                n["keys"].append({"t": "int" if isinstance(key, int) else "str", "v": str(key)})
                n["kids"].append(add(val, me))
        elif isinstance(x, list):
            for val in x:
                n["kids"].append(add(val, me))
        elif isinstance(x, (set, frozenset)):
            for val in sorted(x, key=str):
                n["kids"].append(add(val, me))
        return me

    add(nested, 0)
    return doc


def tree_of(doc, i=1):
    """Node table -> nested tree of dicts {k, t, v, keys, kids: [trees]} (anchors dropped); inverse of table_of."""
    n = doc[i - 1]
    return {"k": n["k"], "t": n["t"], "v": n["v"], "keys": [dict(k) for k in n["keys"]],
            "kids": [tree_of(doc, c) for c in n["kids"]]}


def table_of(tree):
    """Nested tree (see tree_of) -> pre-order node table."""
    doc = []

    def add(t, par):
        n = node(t["k"], t["t"], t["v"], par)
        n["keys"] = [dict(k) for k in t["keys"]]
        doc.append(n)
        me = len(doc)
        for c in t["kids"]:
            n["kids"].append(add(c, me))
        return me
    add(tree, 0)
    return doc


# --------------------------------------------------------------------------- YAML text
def _qstr(s):
    out = s.replace("\\", "\\\\").replace('"', '\\"').replace("\n", "\\n").replace("\t", "\\t")
    return '"%s"' % out


PLAIN_OK = set("abcdefghijklmnopqrstuvwxyzABCDEFGHIJKLMNOPQRSTUVWXYZ_")


def _scalar_text(n, plain):
    if n["alias"]:
        return "*" + n["anchor"]
    t, v = n["t"], n["v"]
    if t == "null":
        txt = "null"
    elif t in ("bool", "int", "float"):
        txt = v
    else:
        if plain and v and all(c in PLAIN_OK for c in v) and v.lower() not in (
                "true", "false", "null", "yes", "no", "on", "off", "y", "n", "none"):
            txt = v
        else:
            txt = _qstr(v)
    if n["anchor"]:
        txt = "&%s %s" % (n["anchor"], txt)
    return txt


def _key_text(kr, plain):
    if kr["t"] == "int":
        return kr["v"]
    v = kr["v"]
    if plain and v and all(c in PLAIN_OK for c in v) and v.lower() not in (
            "true", "false", "null", "yes", "no", "on", "off", "y", "n", "none"):
        return v
    return _qstr(v)


def concretise(doc, style="block", plain=False):
    """Node table -> YAML text."""
    def ktxt(n, j):
        """Text of the j-th key of map node n: `*NAME ` when the key is an Alias of the Anchor NAME (kanch), else its spelling."""
        ka = n.get("kanch") or []
        if j < len(ka) and ka[j]:
            return "*%s " % ka[j]
        return _key_text(n["keys"][j], plain)

    def flow(i):
        n = doc[i - 1]
        pre = ("&%s " % n["anchor"]) if n["anchor"] and n["k"] != "s" else ""
        if n["k"] == "map":
            return pre + "{" + ", ".join("%s: %s" % (ktxt(n, j), flow(c)) for j, c in enumerate(n["kids"])) + "}"
        if n["k"] == "seq":
            return pre + "[" + ", ".join(flow(c) for c in n["kids"]) + "]"
        if n["k"] == "set":
            return pre + "!!set {" + ", ".join("? " + flow(c) for c in n["kids"]) + "}"
        return _scalar_text(n, plain)

    def block(i, ind, lines, lead):
        """Emit node i. `lead` is the text already on the current line (e.g. 'key:' or '-')."""
        n = doc[i - 1]
        pad = "  " * ind
        pre = (" &%s" % n["anchor"]) if n["anchor"] and n["k"] != "s" else ""
        if n["k"] == "s":
            lines.append("%s%s %s" % (pad, lead, _scalar_text(n, plain)) if lead else pad + _scalar_text(n, plain))
        elif not n["kids"]:
            empty = {"map": "{}", "seq": "[]", "set": "!!set {}"}[n["k"]]
            lines.append(("%s%s%s %s" % (pad, lead, pre, empty)) if lead else pad + (pre.strip() + " " if pre else "") + empty)
        else:
            tag = " !!set" if n["k"] == "set" else ""
            if lead:
                lines.append("%s%s%s%s" % (pad, lead, pre, tag))
                ind2 = ind + 1
            else:
                if pre or tag:
                    lines.append(pad + (pre + tag).strip())
                ind2 = ind
            pad2 = "  " * ind2
            if n["k"] == "map":
                for j, c in enumerate(n["kids"]):
                    block(c, ind2, lines, ktxt(n, j) + ":")
            elif n["k"] == "seq":
                for c in n["kids"]:
                    block(c, ind2, lines, "-")
            else:
                for c in n["kids"]:
                    lines.append("%s? %s" % (pad2, _scalar_text(doc[c - 1], plain)))

    if style == "flow":
        return flow(1) + "\n"
    lines = ["---"]
    block(1, 0, lines, "")
    return "\n".join(lines) + "\n"


def load(text):
    """Load YAML text with yamlpath's own loader (what a user gets)."""
    yaml = Parsers.get_yaml_editor()
    data, ok = Parsers.get_yaml_data(yaml, LOG, text, literal=True)
    if not ok:
        raise ValueError("loader rejected:\n" + text)
    return data


def dump(data):
    yaml = Parsers.get_yaml_editor()
    buf = io.StringIO()
    yaml.dump(data, buf)
    return buf.getvalue()


def realise(doc, style="block", plain=False):
    return load(concretise(doc, style, plain))


# --------------------------------------------------------------------------- abstraction of real objects
def scalar_tv(x):
    """(t, v) of a real scalar object."""
    if isinstance(x, TaggedScalar):
        x = x.value
    if x is None:
        return "null", ""
    if isinstance(x, bool) or isinstance(x, ScalarBoolean):
        return "bool", "true" if x else "false"
    if isinstance(x, int):
        return "int", str(int(x))
    if isinstance(x, float):
        return "float", repr(float(x))
    if isinstance(x, (datetime.date, datetime.datetime)):
        return "date", str(x)
    return "str", str(x)


def anchor_of(x):
    a = getattr(x, "anchor", None)
    if a is not None and getattr(a, "value", None):
        return a.value
    return ""


def abstract(data, with_positions=False):
    """Real object graph -> node table (pre-order).  Shared (aliased) scalar objects become alias nodes."""
    doc = []
    pos = []          # per id: (obj, parent_obj, ref)
    seen_anchor = {}

    def add(x, par, parent_obj, ref):
        if isinstance(x, (dict, OrderedDict, CommentedMap)):
            n = node("map", par=par)
        elif isinstance(x, (list, CommentedSeq)):
            n = node("seq", par=par)
        elif isinstance(x, (set, CommentedSet)):
            n = node("set", par=par)
        else:
            t, v = scalar_tv(x)
            n = node("s", t, v, par)
        a = anchor_of(x)
        n["anchor"] = a
        doc.append(n)
        pos.append((x, parent_obj, ref))
        me = len(doc)
        if a:
            if a in seen_anchor and doc[seen_anchor[a] - 1]["k"] == "s" and n["k"] == "s":
                n["alias"] = seen_anchor[a]
            else:
                seen_anchor.setdefault(a, me)
        if n["k"] == "map":
            kanch = []
            for key, val in x.items():
                kt, kv = scalar_tv(key)
                n["keys"].append({"t": kt, "v": kv})
                kanch.append(anchor_of(key))
                n["kids"].append(add(val, me, x, key))
            if any(kanch):
                n["kanch"] = kanch      # keys that are Aliases (or definitions) of an Anchor: only present when there are any
        elif n["k"] == "seq":
            for idx, val in enumerate(x):
                n["kids"].append(add(val, me, x, idx))
        elif n["k"] == "set":
            for val in x:
                n["kids"].append(add(val, me, x, val))
        return me

    add(data, 0, None, None)
    return (doc, pos) if with_positions else doc


def plain_data(doc, i=1):
    """Data projection of a node table (anchors and aliases erased) as nested python values."""
    n = doc[i - 1]
    if n["k"] == "map":
        return ("map", [((k["t"], k["v"]), plain_data(doc, c)) for k, c in zip(n["keys"], n["kids"])])
    if n["k"] == "seq":
        return ("seq", [plain_data(doc, c) for c in n["kids"]])
    if n["k"] == "set":
        return ("set", sorted(plain_data(doc, c) for c in n["kids"]))
    if n["t"] == "float":
        return ("s", "float", repr(float(n["v"])))
    if n["t"] == "bool":
        return ("s", "bool", n["v"].lower())
    return ("s", n["t"], n["v"])


def same_table(a, b, anchors=True):
    """Structural equality of two node tables (value text compared canonically)."""
    if len(a) != len(b):
        return False
    for x, y in zip(a, b):
        for f in ("k", "kids", "par"):
            if x[f] != y[f]:
                return False
        if x["keys"] != y["keys"]:
            return False
        if anchors and "kanch" in x and "kanch" in y and list(x["kanch"]) != list(y["kanch"]):
            return False        # aliased keys are compared only between tables that both record them (C07 keeps its own side structure)
        if x["k"] == "s":
            tx = (x["t"], repr(float(x["v"])) if x["t"] == "float" else x["v"].lower() if x["t"] == "bool" else x["v"])
            ty = (y["t"], repr(float(y["v"])) if y["t"] == "float" else y["v"].lower() if y["t"] == "bool" else y["v"])
            if tx != ty:
                return False
        if anchors and (x["anchor"] != y["anchor"] or bool(x["alias"]) != bool(y["alias"])):
            return False
    return True


class Locator:
    """Maps (node, parent, parentref) coordinates of the real graph to node ids."""

    def __init__(self, data):
        self.data = data
        self.doc, self.pos = abstract(data, with_positions=True)
        self.by_parent = {}
        for i, (obj, parent, ref) in enumerate(self.pos, 1):
            if parent is not None:
                self.by_parent.setdefault(id(parent), []).append(i)

    def locate(self, nodeobj, parent, ref):
        """Id of the position (parent, ref) designates; 0 when there is none.

        Negative when the position exists but holds a different object than nodeobj.
        """
        if parent is None:
            return 1 if nodeobj is self.data else 0
        kids = self.by_parent.get(id(parent), ())
        if not kids:
            return 0
        pk = self.doc[self.doc[kids[0] - 1]["par"] - 1]["k"]
        if pk == "seq" and isinstance(ref, int) and not isinstance(ref, bool) and ref < 0:
            ref = len(kids) + ref
        for i in kids:
            obj, _, r = self.pos[i - 1]
            if pk == "set":
                if type(r) is type(ref) and (r is ref or r == ref):
                    return i if (obj is nodeobj or (type(obj) is type(nodeobj) and obj == nodeobj)) else -i
            elif type(r) is type(ref) and r == ref:
                return i if obj is nodeobj else -i
        return 0

    def find_identity(self, nodeobj):
        return [i for i, (obj, _, _) in enumerate(self.pos, 1) if obj is nodeobj]

    def holds(self, i, nodeobj):
        """Does position i hold this very object?"""
        return 1 <= i <= len(self.pos) and self.pos[i - 1][0] is nodeobj
