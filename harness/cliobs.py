"""C16 observation layer: the six console entry points run for real.

run_inproc(tool, argv, stdin_text, cwd)   the real main() in this process: patched sys.argv / sys.stdin (and the
                                          `stdin` name imported by yamlpath.common.parsers), captured stdout and
                                          stderr, SystemExit caught.  While it runs, recording wrappers sit in the
                                          command module's own namespace (no source change) and log the phases of
                                          spec/YCli.tla:
    args      processcli() returned / left through SystemExit (argparse usage error)
    validate  validateargs() returned / left through SystemExit
    load      every loader call the tool makes (Parsers.get_yaml_data, Parsers.get_yaml_multidoc_data,
              yaml_merge.get_doc_mergers, yaml_diff.get_docs): via = "file", "dash" (the source is "-" and "-" is
              among the arguments) or "implicit" (the source is "-" although no argument names it: main() decided to
              read the waiting STDIN document); ok = it loaded
    args      also carries what the user wrote for the policy options (cli, cfg; added by the caller, who wrote them)
    work      (yaml-merge, yaml-diff: with the policy the tool's own MergerConfig / DifferConfig resolves)
    work      every library call whose answer the tool delivers (EYAMLProcessor.get_eyaml_values / get_nodes /
              set_value / delete_gathered_nodes, Merger.merge_with, Differ.compare_to, the result list yaml-paths hands
              to its printer, get_search_term) with the outcome class it had
  and ConsolePrinter.critical calls (which failure branch fired).
run_subproc(tool, argv, stdin_text, cwd)  the same command line as a real process
                                          (/venv/bin/python -m yamlpath.commands.<tool>, PYTHONPATH = the tree);
                                          stdin is a pty when no document is delivered (a user at a terminal, as the
                                          in-process Tty), a pipe otherwise.
The `output` and `exit` events are appended by the caller from what reached stdout / the file system and the
exit status (finish()).

Everything else here is the projection of C16: parsing printed lines, JSON views of node tables, reading a
result document back as data.
"""
import importlib
import io
import json
import os
import subprocess
import sys

from harness import absdoc, core

MODNAME = {"get": "yaml_get", "set": "yaml_set", "merge": "yaml_merge", "diff": "yaml_diff",
           "validate": "yaml_validate", "paths": "yaml_paths"}
PROG = {t: "yaml-" + t for t in MODNAME}


def module(tool):
    return importlib.import_module("yamlpath.commands." + MODNAME[tool])


class Tty(io.StringIO):
    def isatty(self):
        return True


# ------------------------------------------------------------------------------------------- recording wrappers
def _exc_kind(ex):
    from yamlpath.exceptions import YAMLPathException
    name = type(ex).__name__
    if name == "UnmatchedYAMLPathException":
        return "unmatched"
    if name == "NoDocumentYAMLPathException" or "delete the entire document" in str(getattr(ex, "user_message", "")):
        return "nodoc"
    if isinstance(ex, YAMLPathException):
        return "yperr"
    if name == "EYAMLCommandException":
        return "eyamlerr"
    if name == "MergeException":
        return "mergeerr"
    return "crash"


def install(mod, tool, ev, argv):
    """Put the recording wrappers into the command module's namespace; returns the undo function."""
    saved = []
    missing = object()

    def setn(name, val):
        saved.append((name, mod.__dict__.get(name, missing)))
        setattr(mod, name, val)

    def work(k, res="", n=0, policy=None):
        e = {"ph": "work", "k": k, "res": res, "n": n}
        if policy is not None:
            e["policy"] = policy
        ev.append(e)

    def name_of(x):
        return x.name.lower()

    # ---- args / validate
    real_cli, real_val = mod.processcli, mod.validateargs

    def w_processcli():
        try:
            r = real_cli()
        except SystemExit:
            ev.append({"ph": "args", "ok": False})
            raise
        ev.append({"ph": "args", "ok": True})
        return r

    def w_validateargs(args, log):
        try:
            r = real_val(args, log)
        except SystemExit:
            ev.append({"ph": "validate", "ok": False})
            raise
        ev.append({"ph": "validate", "ok": True})
        return r

    setn("processcli", w_processcli)
    setn("validateargs", w_validateargs)

    # ---- which failure branch fired
    RealPrinter = mod.ConsolePrinter

    class Printer(RealPrinter):
        def critical(self, message, exit_code=1):
            msg = str(message)
            if tool == "set" and "does not match the check value" in msg:
                work("check", "mismatch")
            if tool == "diff" and "document-index" in msg:
                work("needindex")
            RealPrinter.critical(self, message, exit_code)

    setn("ConsolePrinter", Printer)

    # ---- loading
    RealParsers = mod.Parsers

    named = any(str(a).strip() == "-" for a in argv)

    def via(source):
        # "-" among the arguments: the user named STDIN; otherwise main() decided by itself to read the waiting document
        if str(source).strip() != "-":
            return "file"
        return "dash" if named else "implicit"

    class ParsersProxy(RealParsers):
        @staticmethod
        def get_yaml_data(parser, logger, source, **kw):
            data, ok = RealParsers.get_yaml_data(parser, logger, source, **kw)
            if not kw.get("literal"):
                ev.append({"ph": "load", "via": via(source), "ok": bool(ok)})
            return data, ok

        @staticmethod
        def get_yaml_multidoc_data(parser, logger, source, **kw):
            ok = True
            try:
                for doc, loaded in RealParsers.get_yaml_multidoc_data(parser, logger, source, **kw):
                    if not loaded:
                        ok = False
                    yield doc, loaded
            finally:
                ev.append({"ph": "load", "via": via(source), "ok": ok})

    if tool in ("get", "set", "validate", "paths"):
        setn("Parsers", ParsersProxy)
    if tool == "merge":
        real_gdm = mod.get_doc_mergers

        def w_get_doc_mergers(log, yaml_editor, config, yaml_file):
            mergers, ok = real_gdm(log, yaml_editor, config, yaml_file)
            ev.append({"ph": "load", "via": via(yaml_file), "ok": bool(ok)})
            return mergers, ok
        setn("get_doc_mergers", w_get_doc_mergers)
    if tool == "diff":
        real_gd = mod.get_docs

        def w_get_docs(log, yaml_editor, yaml_file):
            docs, ok = real_gd(log, yaml_editor, yaml_file)
            ev.append({"ph": "load", "via": via(yaml_file), "ok": bool(ok)})
            return docs, ok
        setn("get_docs", w_get_docs)

    # ---- the library calls
    if tool in ("get", "set"):
        Real = mod.EYAMLProcessor
        has_check = any(a == "-c" or a.startswith("--check") for a in argv)

        class Proc(Real):
            _depth = 0

            def get_eyaml_values(self, yaml_path, **kw):
                if tool != "get":
                    yield from Real.get_eyaml_values(self, yaml_path, **kw)
                    return
                n = 0
                try:
                    for x in Real.get_eyaml_values(self, yaml_path, **kw):
                        n += 1
                        yield x
                except Exception as ex:      # noqa: BLE001 - classify, then let main() see it
                    work(_exc_kind(ex), "", 0)
                    raise
                work("matched" if n else "empty", "", n)

            def get_nodes(self, yaml_path, **kw):
                if tool != "set" or Proc._depth:
                    yield from Real.get_nodes(self, yaml_path, **kw)
                    return
                Proc._depth += 1
                n = 0
                try:
                    try:
                        for x in Real.get_nodes(self, yaml_path, **kw):
                            n += 1
                            yield x
                    except Exception as ex:      # noqa: BLE001
                        work("gather", _exc_kind(ex), n)
                        raise
                    work("gather", "ok", n)
                finally:
                    Proc._depth -= 1

            def _apply(self, real, *a, **kw):
                if tool != "set" or Proc._depth:
                    return real(self, *a, **kw)
                if has_check:
                    work("check", "ok")
                Proc._depth += 1
                try:
                    r = real(self, *a, **kw)
                except Exception as ex:      # noqa: BLE001
                    work("apply", _exc_kind(ex))
                    raise
                finally:
                    Proc._depth -= 1
                work("apply", "ok")
                return r

            def set_value(self, *a, **kw):
                return self._apply(Real.set_value, *a, **kw)

            def delete_gathered_nodes(self, *a, **kw):
                return self._apply(Real.delete_gathered_nodes, *a, **kw)

        setn("EYAMLProcessor", Proc)
    if tool == "merge":
        RealMerger = mod.Merger

        class MergerProxy(RealMerger):
            def _policy(self):
                # the policy this Merger's own configuration (argparse namespace + --config file) resolves for a node no
                # [rules] entry names
                from yamlpath.wrappers import NodeCoords
                nc, cfg = NodeCoords(None, None, None), self.config
                return {"hashes": name_of(cfg.hash_merge_mode(nc)), "arrays": name_of(cfg.array_merge_mode(nc)),
                        "aoh": name_of(cfg.aoh_merge_mode(nc)), "sets": name_of(cfg.set_merge_mode(nc)),
                        "anchors": name_of(cfg.anchor_merge_mode())}

            def merge_with(self, rhs):
                pol = self._policy()
                try:
                    r = RealMerger.merge_with(self, rhs)
                except Exception as ex:      # noqa: BLE001
                    work("merge", _exc_kind(ex), 0, pol)
                    raise
                work("merge", "ok", 0, pol)
                return r
        setn("Merger", MergerProxy)
    if tool == "diff":
        RealDiffer = mod.Differ
        quiet = any(a in ("-q", "--quiet") for a in argv)
        same = any(a in ("-s", "--same") for a in argv)
        onlysame = any(a in ("-o", "--onlysame") for a in argv)

        class DifferProxy(RealDiffer):
            def compare_to(self, document):
                from yamlpath.wrappers import NodeCoords
                nc = NodeCoords(None, None, None)
                pol = {"arrays": name_of(self.config.array_diff_mode(nc)), "aoh": name_of(self.config.aoh_diff_mode(nc))}
                r = RealDiffer.compare_to(self, document)
                acts = [str(e.action) for e in self.get_report()]
                ndiff = sum(1 for a in acts if a != "s")
                shown = len(acts) if same else (len(acts) - ndiff if onlysame else ndiff)
                work("differs" if ndiff else "same", "", 0 if quiet else shown, pol)
                return r
        setn("Differ", DifferProxy)
    if tool == "paths":
        real_pr, real_gst = mod.print_results, mod.get_search_term

        def w_print_results(args, processor, yaml_file, yaml_paths, document_index):
            # the (de-duplicated, excepted) results of the searches over one document, as handed to the printer
            work("results", "", len(yaml_paths))
            return real_pr(args, processor, yaml_file, yaml_paths, document_index)

        def w_get_search_term(logger, expression, *a, **kw):
            r = real_gst(logger, expression, *a, **kw)
            if r is None:
                work("badexpr")
            return r
        setn("print_results", w_print_results)
        setn("get_search_term", w_get_search_term)

    def undo():
        for name, old in reversed(saved):
            if old is missing:
                delattr(mod, name)
            else:
                setattr(mod, name, old)
    return undo


# ------------------------------------------------------------------------------------------------ running a tool
def run_inproc(tool, argv, stdin_text, cwd, record=True):
    """argv without the program name.  Returns dict(status, out, err, events); status int or 'crash:<Type>'."""
    import yamlpath.common.parsers as parsers_mod
    mod = module(tool)
    ev = []
    undo = install(mod, tool, ev, argv) if record else (lambda: None)
    old = (sys.argv, sys.stdin, sys.stdout, sys.stderr, parsers_mod.stdin, os.getcwd())
    out, err = io.StringIO(), io.StringIO()
    sys.argv = [PROG[tool]] + list(argv)
    sys.stdin = Tty("") if stdin_text is None else io.StringIO(stdin_text)
    parsers_mod.stdin = sys.stdin
    sys.stdout, sys.stderr = out, err
    os.chdir(cwd)
    try:
        try:
            mod.main()
            status = 0
        except SystemExit as ex:
            status = ex.code if ex.code is not None else 0
            if not isinstance(status, int):
                status = 1
        except BaseException as ex:      # noqa: BLE001 - an uncaught exception: the interpreter would print a traceback, exit 1
            import traceback
            tb = traceback.extract_tb(ex.__traceback__)
            where = next((f for f in reversed(tb) if "/yamlpath/" in f.filename), tb[-1])
            status = "crash:%s@%s:%s" % (type(ex).__name__, where.filename.split("/yamlpath/")[-1], where.name)
            err.write("%s: %s\n" % (type(ex).__name__, ex))
    finally:
        sys.argv, sys.stdin, sys.stdout, sys.stderr, parsers_mod.stdin = old[:5]
        os.chdir(old[5])
        undo()
    return {"status": status, "out": out.getvalue(), "err": err.getvalue(), "events": ev}


def run_subproc(tool, argv, stdin_text, cwd, timeout=120):
    """The same command line as a real process.  Without a delivered text, stdin is a terminal (a pty), as for a
    user at the console and as in run_inproc; otherwise the text arrives on a pipe."""
    import pty
    env = dict(os.environ)
    env["PYTHONPATH"] = core.REPO
    cmd = ["/venv/bin/python", "-W", "ignore", "-m", "yamlpath.commands." + MODNAME[tool]] + list(argv)
    if stdin_text is None:
        master, slave = pty.openpty()
        try:
            p = subprocess.run(cmd, cwd=cwd, env=env, stdin=slave, stdout=subprocess.PIPE, stderr=subprocess.PIPE,
                               text=True, timeout=timeout)
        finally:
            os.close(master)
            os.close(slave)
    else:
        p = subprocess.run(cmd, cwd=cwd, env=env, input=stdin_text, stdout=subprocess.PIPE, stderr=subprocess.PIPE,
                           text=True, timeout=timeout)
    return {"status": p.returncode, "out": p.stdout, "err": p.stderr, "events": None}


def exit_code(status):
    """Exit status at the process boundary (an uncaught exception ends the interpreter with 1)."""
    return status if isinstance(status, int) else 1


def finish(tool, res, lines, doc, expected=None):
    """Complete the event list of a run with what was put out and the exit status.

    For a run without wrappers (a real process) the phases are the ones the outcome class `expected`
    (a list of events) names - only the output and the exit status are observations then.
    """
    ev = list(res["events"]) if res["events"] is not None else list(expected or [])
    ev.append({"ph": "output", "lines": lines, "doc": doc})
    ev.append({"ph": "exit", "code": exit_code(res["status"])})
    return ev


# ----------------------------------------------------------------------------------------------- projections
def jsonable(doc):
    """Can the document be written as JSON text without loss (no sets, anchors, non-string keys)?"""
    return not any(n["k"] == "set" or n["anchor"] or n["alias"] or any(k["t"] != "str" for k in n["keys"]) for n in doc)


def null_root(doc):
    return doc[0]["k"] == "s" and doc[0]["t"] == "null"


def json_text(doc):
    """JSON text of a jsonable document (the flow concretisation with quoted strings is JSON)."""
    return absdoc.concretise(doc, "flow", False)


def jview(doc, i=1):
    """The JSON reading of a node: hashes as ordered (key text, value) pairs, Sets as hashes of nulls."""
    n = doc[i - 1]
    if n["k"] == "map":
        return ("o", tuple((k["v"], jview(doc, c)) for k, c in zip(n["keys"], n["kids"])))
    if n["k"] == "seq":
        return ("a", tuple(jview(doc, c) for c in n["kids"]))
    if n["k"] == "set":
        return ("o", tuple((doc[c - 1]["v"], None) for c in n["kids"]))
    t, v = n["t"], n["v"]
    if t == "null":
        return None
    if t == "bool":
        return v.lower() == "true"
    if t == "int":
        return int(v)
    if t == "float":
        return float(v)
    return v


def jparse(text):
    """JSON text -> the same view (None when it is not JSON)."""
    def conv(x):
        if isinstance(x, list):
            return ("a", tuple(conv(y) for y in x))
        if isinstance(x, _Pairs):
            return ("o", tuple((k, conv(v)) for k, v in x.pairs))
        return x

    class _Pairs:
        def __init__(self, pairs):
            self.pairs = pairs
    try:
        return True, conv(json.loads(text, object_pairs_hook=_Pairs))
    except ValueError:
        return False, None


def jsort(v):
    """Order-insensitive form of a JSON view (for Set members, whose order is not data)."""
    if isinstance(v, tuple) and v and v[0] == "o":
        return ("o", tuple(sorted(((k, jsort(x)) for k, x in v[1]), key=repr)))
    if isinstance(v, tuple) and v and v[0] == "a":
        return ("a", tuple(jsort(x) for x in v[1]))
    return v


def scalar_line_ok(line, n):
    """Does a printed line show this scalar node?  (null prints as NUL, line breaks are escaped)"""
    t, v = n["t"], n["v"]
    if t == "null":
        return line == "\x00"
    if t == "bool":
        return line.lower() == v.lower()
    if t == "float":
        try:
            return float(line) == float(v)
        except ValueError:
            return False
    return line == v.replace("\n", "\\n")


def stdout_lines(out):
    if out == "":
        return []
    return out[:-1].split("\n") if out.endswith("\n") else out.split("\n")


def load_text(text):
    """A result document read back with yamlpath's own loader -> node table (None when it does not load)."""
    try:
        return absdoc.abstract(absdoc.load(text))
    except Exception:      # noqa: BLE001
        return None


def load_stream(text):
    """A printed multi-document stream -> list of node tables (None when it does not load)."""
    from yamlpath.common import Parsers
    docs = []
    try:
        for data, ok in Parsers.get_yaml_multidoc_data(Parsers.get_yaml_editor(), absdoc.LOG, text, literal=True):
            if not ok:
                return None
            docs.append(absdoc.abstract(data))
    except Exception:      # noqa: BLE001
        return None
    return docs


def same_data(tab, want):
    return tab is not None and absdoc.plain_data(tab) == absdoc.plain_data(want)


def same_json(text, want):
    ok, v = jparse(text)
    return ok and jsort(v) == jsort(jview(want))


def parse_diff_entries(out):
    """Printed yaml-diff report -> [(action symbol, path text, body lines)] (entries are separated by empty lines)."""
    entries = []
    for chunk in out.rstrip("\n").split("\n\n") if out.strip() else []:
        ls = chunk.split("\n")
        head = ls[0].split(" ", 1)
        entries.append((head[0], head[1] if len(head) > 1 else "", tuple(ls[1:])))
    return entries


def entry_view(entry, pathsep, verbose=False):
    """The same view of a library DiffEntry."""
    entry.pathsep = pathsep
    entry.verbose = verbose
    ls = str(entry).split("\n")
    head = ls[0].split(" ", 1)
    return (head[0], head[1] if len(head) > 1 else "", tuple(ls[1:]))
