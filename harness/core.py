"""Shared plumbing: context, TLC runner, evidence writer, known-findings filter.

Exit codes of ./check: 0 = property held on everything explored (known findings
are printed as KNOWN-FINDING lines), 1 = VIOLATION, 2 = machinery failure.
"""
import json
import os
import re
import shutil
import subprocess
import sys
import time
import fnmatch

VERIF = os.path.dirname(os.path.dirname(os.path.abspath(__file__)))
REPO = os.environ.get("VERIF_REPO", "/repo")
SPEC = os.path.join(VERIF, "spec")
TLA_CP = "/opt/veriftools/tla/tla2tools.jar:/opt/veriftools/tla/CommunityModules-deps.jar"
NCPU = os.cpu_count() or 4


class MachineryError(Exception):
    """Something in the checking machinery (not the code under test) failed."""


class Ctx:
    def __init__(self, pid, tier, seed):
        self.pid = pid
        self.tier = tier
        self.seed = seed
        self.out = os.path.join(VERIF, "out", pid)
        shutil.rmtree(self.out, ignore_errors=True)
        os.makedirs(os.path.join(self.out, "violations"), exist_ok=True)
        self.t0 = time.time()
        self.violations = []     # dicts: sig, desc, replay
        self.informational = 0
        self.coverage = {}
        self.assumptions = []
        self.tlc_runs = []

    def path(self, *p):
        return os.path.join(self.out, *p)

    def violation(self, sig, desc, replay):
        """Record one contradiction between the real code and the property."""
        self.violations.append({"sig": sig, "desc": desc, "replay": replay})

    @property
    def quick(self):
        return self.tier == "quick"


def run_tlc(ctx, module, cfg, env=None, workers=None, extra=(), timeout=3600,
            deadlock=False, simulate=None, name=None, heap="8g"):
    """Run TLC on spec/<module>.tla with spec/mc/<cfg>; return parsed stats.

    Raises MachineryError on parse/semantic errors. A violated invariant or
    property is returned in the result (``ok`` False) - the caller decides what
    that means (see DESIGN 2.3 rule 4).
    """
    name = name or cfg.replace(".cfg", "")
    meta = ctx.path("tlcmeta_" + name)
    shutil.rmtree(meta, ignore_errors=True)
    os.makedirs(meta)
    log = ctx.path(name + ".tlc.log")
    cmd = ["java", "-XX:+UseParallelGC", "-Xmx" + heap, "-Djava.io.tmpdir=" + meta, "-cp", TLA_CP, "tlc2.TLC",
           "-workers", str(workers or NCPU), "-metadir", meta, "-noGenerateSpecTE",
           "-config", os.path.join(SPEC, "mc", cfg)]
    if not deadlock:
        cmd += ["-deadlock"]
    if simulate:
        cmd += ["-simulate", simulate]
    cmd += list(extra)
    cmd += [os.path.join(SPEC, module + ".tla")]
    e = dict(os.environ)
    e.update(env or {})
    t0 = time.time()
    try:
        p = subprocess.run(cmd, cwd=SPEC, env=e, stdout=subprocess.PIPE,
                           stderr=subprocess.STDOUT, timeout=timeout, text=True)
        out = p.stdout
        rc = p.returncode
    except subprocess.TimeoutExpired as ex:
        out = (ex.stdout or b"").decode() if isinstance(ex.stdout, bytes) else (ex.stdout or "")
        rc = -9
    finally:
        shutil.rmtree(meta, ignore_errors=True)
    with open(log, "w") as fh:
        fh.write(" ".join(cmd) + "\n" + out)
    res = {"name": name, "module": module, "cfg": cfg, "rc": rc, "wall_s": round(time.time() - t0, 2),
           "log": log, "generated": 0, "distinct": 0, "depth": 0, "ok": rc == 0,
           "violated": None, "cmd": " ".join(cmd[cmd.index("tlc2.TLC"):])}
    m = re.findall(r"(\d+) states generated, (\d+) distinct states found", out)
    if m:
        res["generated"], res["distinct"] = int(m[-1][0]), int(m[-1][1])
    m = re.search(r"depth of the complete state graph search is (\d+)", out)
    if m:
        res["depth"] = int(m.group(1))
    m = re.search(r"Invariant (\S+) is violated", out) or re.search(r"property (\S+) was violated", out) \
        or re.search(r"Action property (\S+) .*violated", out)
    if m:
        res["violated"] = m.group(1)
    if rc == -9:
        raise MachineryError("TLC timed out: %s (log %s)" % (name, log))
    if rc != 0 and not res["violated"]:
        if "Assumption" in out and "is false" in out:
            res["violated"] = "ASSUME"
        elif "Deadlock reached" in out:
            res["violated"] = "Deadlock"
        elif "POSTCONDITION" in out or "Postcondition" in out:
            res["violated"] = "POSTCONDITION"
        else:
            raise MachineryError("TLC failed (rc=%s): %s (log %s)\n%s" % (rc, name, log, out[-3000:]))
    ctx.tlc_runs.append({k: res[k] for k in ("name", "generated", "distinct", "depth", "wall_s", "violated", "cmd")})
    res["stdout"] = out
    return res


def read_csv_json_lines(path):
    """Lines written by CSVWrite("%1$s", <<ToJson(x)>>, file): each line is ToJson output."""
    out = []
    if not os.path.exists(path):
        return out
    with open(path) as fh:
        for line in fh:
            line = line.strip()
            if not line:
                continue
            v = json.loads(line)
            if isinstance(v, str):
                v = json.loads(v)
            out.append(v)
    return out


def load_known():
    p = os.path.join(VERIF, "known_findings.json")
    if not os.path.exists(p):
        return []
    with open(p) as fh:
        return json.load(fh).get("findings", [])


def finish(ctx, level="model_checking"):
    """Apply known findings, print verdict lines, write evidence, return exit code."""
    known = [k for k in load_known() if k.get("property") == ctx.pid and k.get("status") == "known"]
    hit = {}
    unknown = []
    for v in ctx.violations:
        k = next((k for k in known if any(fnmatch.fnmatchcase(v["sig"], pat) for pat in k["signatures"])), None)
        if k is not None:
            if k["id"] not in hit:
                os.makedirs(ctx.path("known"), exist_ok=True)
                with open(ctx.path("known", k["id"] + ".json"), "w") as fh:
                    json.dump({"property": ctx.pid, "sig": v["sig"], "desc": v["desc"], "replay": v["replay"]}, fh, indent=1, default=str)
            hit.setdefault(k["id"], [k, 0])[1] += 1
        else:
            unknown.append(v)
    for kid, (k, n) in sorted(hit.items()):
        print("KNOWN-FINDING: property=%s %s [%s; %d case(s) this run]" % (ctx.pid, k["what"], kid, n))
    shown = {}
    nfile = 0
    for v in unknown:
        # one replay file per distinct signature (first 25 signatures), all counted
        if v["sig"] in shown:
            shown[v["sig"]] += 1
            continue
        shown[v["sig"]] = 1
        if nfile < 25:
            nfile += 1
            rp = ctx.path("violations", "%03d.json" % nfile)
            with open(rp, "w") as fh:
                json.dump({"property": ctx.pid, "sig": v["sig"], "desc": v["desc"], "replay": v["replay"]}, fh, indent=1, default=str)
            print("VIOLATION property=%s replay=%s" % (ctx.pid, rp))
            print("  sig=%s :: %s" % (v["sig"], v["desc"][:300]))
    cov = dict(ctx.coverage)
    cov.setdefault("tlc_runs", ctx.tlc_runs)
    cov.setdefault("states", sum(r["distinct"] for r in ctx.tlc_runs))
    cov.setdefault("transitions", sum(r["generated"] for r in ctx.tlc_runs))
    cov.setdefault("checker_cmd", "; ".join(r["cmd"] for r in ctx.tlc_runs)[:2000])
    cov["known_finding_cases"] = {kid: n for kid, (k, n) in hit.items()}
    cov["informational"] = ctx.informational
    ev = {"property_id": ctx.pid, "tier": ctx.tier, "seed": ctx.seed, "level": level,
          "coverage": cov, "assumptions": ctx.assumptions,
          "wall_s": round(time.time() - ctx.t0, 2), "violations": len(unknown)}
    os.makedirs(os.path.join(VERIF, "evidence"), exist_ok=True)
    # evidence is only ever written for runs against /repo itself; a run against another source
    # root (VERIF_REPO: seeded-change sweeps) leaves its record in the scratch directory
    evpath = (os.path.join(VERIF, "evidence", ctx.pid + ".json") if os.path.realpath(REPO) == "/repo"
              else ctx.path("evidence.other-source-root.json"))
    with open(evpath, "w") as fh:
        json.dump(ev, fh, indent=1, default=str)
    print("%s tier=%s seed=%d: %d evaluations, %d violations (%d distinct signatures), %d known-finding cases, %.1fs" % (
        ctx.pid, ctx.tier, ctx.seed, cov.get("evaluations", 0), len(unknown), len(shown),
        sum(n for _, n in hit.values()), time.time() - ctx.t0))
    return 1 if unknown else 0
