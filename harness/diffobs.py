"""C06 helpers: run the real Differ, record its report in the model's vocabulary, and evaluate the
predicates of the property statement on a report (the same definitions as spec/YDiff.tla, so that a
report can be judged here and by TLC alike).

Documents are node tables (harness/absdoc.py).  A path is a list of steps: a hash key / set member is
its text, a list position its number, -2 stands for a path the code built but that does not parse.
A configuration is {"arrays", "aoh", "rules": [[path, mode], ...], "keys": [[path, key], ...]} - the global
modes and the per-path lines of an INI file ([rules] PATH = mode, [keys] PATH = key); -3 is the wildcard step.
A valued entry is {"a": SAME|CHANGE|ADD|DELETE, "p": steps, "lv": table, "rv": table}; Python's None
is the null value on the side an action speaks about.
"""
import collections
from types import SimpleNamespace

from harness import absdoc

ACT = {"s": "SAME", "c": "CHANGE", "a": "ADD", "d": "DELETE"}
BAD = -2
WILD = -3
ARRAY_MODES = ("position", "value")
AOH_MODES = ("position", "dpos", "value", "key", "deep")


def null_tab():
    return [absdoc.node("s", "null", "", 0)]


# --------------------------------------------------------------------------- compact documents from MC_Diff
def expand(cdoc):
    """[[k, t, v, par, [[keytype, keytext], ...]], ...] (pre-order) -> node table."""
    doc = []
    for k, t, v, par, keys in cdoc:
        n = absdoc.node(k, t, v, par)
        n["keys"] = [{"t": kt, "v": kv} for kt, kv in keys]
        doc.append(n)
    for i, n in enumerate(doc, 1):
        if n["par"]:
            doc[n["par"] - 1]["kids"].append(i)
    return doc


# --------------------------------------------------------------------------- the real differ
def steps_of(path):
    """YAMLPath of a DiffEntry -> steps; [-2] when it does not parse."""
    from yamlpath.enums import PathSegmentTypes
    from yamlpath.exceptions import YAMLPathException
    try:
        segs = list(path.escaped)
    except YAMLPathException:
        return [BAD]
    out = []
    for ty, val in segs:
        if ty is PathSegmentTypes.KEY:
            out.append(str(val))
        elif ty is PathSegmentTypes.INDEX and isinstance(val, int):
            out.append(val)
        else:
            return [BAD]
    return out


def path_text(p):
    """Configuration path as the INI file spells it (forward-slash notation)."""
    text = "".join("/*" if st == WILD else "[%d]" % st if isinstance(st, int) else "/" + st for st in p)
    return text if text.startswith("/") else "/" + text


def ini_text(cfg, defaults):
    """The INI configuration of cfg; `defaults`: the global modes go into [defaults] instead of the command line."""
    out = []
    if defaults:
        out += ["[defaults]", "arrays = %s" % cfg["arrays"], "aoh = %s" % cfg["aoh"]]
    if cfg.get("rules"):
        out += ["[rules]"] + ["%s = %s" % (path_text(p), v) for p, v in cfg["rules"]]
    if cfg.get("keys"):
        out += ["[keys]"] + ["%s = %s" % (path_text(p), v) for p, v in cfg["keys"]]
    return "\n".join(out) + "\n"


def run_differ(ldata, rdata, arrays, aoh, ini=None, scratch=None):
    """Differ(DifferConfig(log, args), log, lhs).compare_to(rhs); get_report() -> valued entries.

    ini: text of the --config file (written to `scratch`).
    Returns (entries, None) or (None, "ExceptionType @ file:line") when the code raises.
    """
    from yamlpath.differ import Differ, DifferConfig
    conf = None
    if ini is not None:
        conf = scratch
        with open(conf, "w") as fh:
            fh.write(ini)
    args = SimpleNamespace(arrays=arrays, aoh=aoh, config=conf, debug=False, verbose=False, quiet=True)
    try:
        differ = Differ(DifferConfig(absdoc.LOG, args), absdoc.LOG, ldata, ignore_eyaml_values=True)
        differ.compare_to(rdata)
        report = list(differ.get_report())
    except Exception as ex:       # noqa: BLE001 - any exception is the observation
        import traceback
        tb = traceback.extract_tb(ex.__traceback__)
        where = next((f for f in reversed(tb) if "/yamlpath/" in f.filename), tb[-1])
        return None, "%s @ %s:%s" % (type(ex).__name__, where.filename.split("/yamlpath/")[-1], where.name)
    out = []
    for e in report:
        rhs = e.rhs if hasattr(e, "rhs") else e._rhs        # DiffEntry exposes lhs only
        out.append({"a": ACT[str(e.action)], "p": steps_of(e.path),
                    "lv": absdoc.abstract(e.lhs), "rv": absdoc.abstract(rhs)})
    return out, None


# --------------------------------------------------------------------------- node-table helpers
def step_of(d, c):
    n = d[c - 1]
    p = d[n["par"] - 1]
    pos = p["kids"].index(c)
    if p["k"] == "map":
        return p["keys"][pos]["v"]
    if p["k"] == "seq":
        return pos
    return n["v"]


def path_of(d, x):
    out = []
    while d[x - 1]["par"]:
        out.append(step_of(d, x))
        x = d[x - 1]["par"]
    return out[::-1]


def child_at(d, i, st):
    n = d[i - 1]
    if n["k"] == "map" and isinstance(st, str):
        for key, c in zip(n["keys"], n["kids"]):
            if key["v"] == st:
                return c
        return 0
    if n["k"] == "seq" and isinstance(st, int) and not isinstance(st, bool) and st >= 0:
        return n["kids"][st] if st < len(n["kids"]) else 0
    if n["k"] == "set" and isinstance(st, str):
        for c in n["kids"]:
            if d[c - 1]["v"] == st:
                return c
    return 0


def resolve(d, p):
    """One position the path designates (the first, where key texts collide); 0 when there is none."""
    i = 1
    for st in p:
        i = child_at(d, i, st)
        if not i:
            return 0
    return i


def children_at(d, i, st):
    """A key step carries the TEXT of a hash key / set member (the code writes str(key)); the keys 0 and "0"
    of one hash give the same step, so a step designates a set of positions."""
    n = d[i - 1]
    if n["k"] == "map" and isinstance(st, str):
        return [c for key, c in zip(n["keys"], n["kids"]) if key["v"] == st]
    if n["k"] == "set" and isinstance(st, str):
        return [c for c in n["kids"] if d[c - 1]["v"] == st]
    c = child_at(d, i, st)
    return [c] if c else []


def resolve_all(d, p):
    cur = [1]
    for st in p:
        cur = [c for i in cur for c in children_at(d, i, st)]
        if not cur:
            break
    return cur


def kid_by_key(d, i, key):
    """The value a hash holds under a key equal (as Python compares) to `key`; 0 when there is none."""
    n = d[i - 1]
    return next((c for k, c in zip(n["keys"], n["kids"]) if scalar_eq(k, key)), 0)


def size_at(d, i):
    return 1 + sum(size_at(d, c) for c in d[i - 1]["kids"])


def sub_tab(d, i):
    off = i - 1
    out = []
    for k in range(size_at(d, i)):
        n = d[off + k]
        m = absdoc.node(n["k"], n["t"], n["v"], 0 if k == 0 else n["par"] - off)
        m["kids"] = [c - off for c in n["kids"]]
        m["keys"] = [dict(x) for x in n["keys"]]
        out.append(m)
    return out


def plain_eq(a, b):
    return len(a) == len(b) and all(x["k"] == y["k"] and x["t"] == y["t"] and x["v"] == y["v"] and x["kids"] == y["kids"]
                                    and x["keys"] == y["keys"] for x, y in zip(a, b))


def leaf_ids(d):
    return [i for i, n in enumerate(d, 1) if n["k"] == "s"]


# --------------------------------------------------------------------------- data equality (YDiff.Eq)
def num_val(s):
    if s["t"] == "bool":
        return 1 if s["v"] in ("true", "True", "TRUE") else 0
    return int(s["v"])


def scalar_eq(a, b):
    if a["t"] in ("bool", "int") and b["t"] in ("bool", "int"):
        return num_val(a) == num_val(b)
    return a["t"] == b["t"] and a["v"] == b["v"]


def seq_kind(d, i):
    ks = d[i - 1]["kids"]
    nm = sum(1 for c in ks if d[c - 1]["k"] == "map")
    return "arr" if nm == 0 else "aoh" if nm == len(ks) else "mixed"


def pair_kind(d1, i, d2, j):
    a, b = seq_kind(d1, i), seq_kind(d2, j)
    if not d1[i - 1]["kids"]:
        return b
    if not d2[j - 1]["kids"]:
        return a
    return a if a == b else "mixed"


ORDERED = {"arr": False, "aoh": False, "mixed": False, "rr": {}}
ANY_ORDER = {"arr": True, "aoh": True, "mixed": True, "rr": {}}
SYNCED = ("value", "key", "deep")


def match_ids(d, p):
    """Positions a configuration path matches, in document order (YDiff.MatchIds)."""
    cur = {1}
    for st in p:
        cur = {c for i in cur for c in (d[i - 1]["kids"] if st == WILD else children_at(d, i, st))}
    return sorted(cur)


def match_sure(d, p):
    """Only a step that suits every node it meets is modelled: a key over hashes (or sets), a position over lists,
    the wildcard over hashes (yamlpath searches a list's records for a key, and gives the whole path up when one
    branch of a wildcard raises)."""
    cur = {1}
    for st in p:
        for i in cur:
            k = d[i - 1]["k"]
            ok = k == "map" if st == WILD else k == "seq" if isinstance(st, int) else k in ("map", "set")
            if not ok:
                return False
        cur = {c for i in cur for c in (d[i - 1]["kids"] if st == WILD else children_at(d, i, st))}
    return True


def registered(d, sect):
    """[(id, value)] a configuration section registers on document d: section order, then match order."""
    return [(i, v) for p, v in sect for i in match_ids(d, p)]


def first_reg(reg):
    out = {}
    for i, v in reg:
        out.setdefault(i, v)
    return out


def mode_order(cfg, d):
    """Which lists are order-insensitive: by kind under the global modes, a list with a rule of its own by that rule
    (rules are registered on the right document d, by position)."""
    return {"arr": cfg["arrays"] == "value", "aoh": cfg["aoh"] in SYNCED, "mixed": False,
            "rr": first_reg(registered(d, cfg.get("rules", ())))}


def unordered(m, kind, j):
    ru = m["rr"].get(j, "")
    if ru == "" or kind == "mixed":
        return m[kind]
    return ru in SYNCED


def eq(m, d1, i, d2, j):
    a, b = d1[i - 1], d2[j - 1]
    if a["k"] != b["k"]:
        return False
    if a["k"] == "s":
        return scalar_eq(a, b)
    if len(a["kids"]) != len(b["kids"]):
        return False
    if a["k"] == "map":
        return all(any(scalar_eq(ka, kb) and eq(m, d1, ca, d2, cb) for kb, cb in zip(b["keys"], b["kids"]))
                   for ka, ca in zip(a["keys"], a["kids"]))
    if a["k"] == "set":
        return all(any(scalar_eq(d1[ca - 1], d2[cb - 1]) for cb in b["kids"]) for ca in a["kids"])
    if unordered(m, pair_kind(d1, i, d2, j), j):
        rest = list(b["kids"])
        for ca in a["kids"]:
            hit = next((y for y, cb in enumerate(rest) if eq(m, d1, ca, d2, cb)), None)
            if hit is None:
                return False
            rest.pop(hit)
        return True
    return all(eq(m, d1, ca, d2, cb) for ca, cb in zip(a["kids"], b["kids"]))


def positional(cfg):
    return (cfg["arrays"] == "position" and cfg["aoh"] in ("position", "dpos")
            and all(v in ("position", "dpos") for _, v in cfg.get("rules", ())))


def _has_seq_below(d, i):
    return any(_has_seq_at(d, c) for c in d[i - 1]["kids"])


def _has_seq_at(d, i):
    return d[i - 1]["k"] == "seq" or any(_has_seq_at(d, c) for c in d[i - 1]["kids"])


def _id_keys_fine(d, i, key):
    """Every record of list i carries the identity key (a key record) with pairwise different scalar values."""
    vals = []
    for c in d[i - 1]["kids"]:
        v = kid_by_key(d, c, key) if d[c - 1]["k"] == "map" else 0
        if not v or d[v - 1]["k"] != "s":
            return False
        vals.append(d[v - 1])
    return all(not scalar_eq(vals[x], vals[y]) for x in range(len(vals)) for y in range(len(vals)) if x != y)


def clear_doc(cfg, d):
    rules, keys = cfg.get("rules", ()), cfg.get("keys", ())
    if not all(match_sure(d, p) for p, _ in list(rules) + list(keys)):
        return False
    rr, kr = registered(d, rules), registered(d, keys)
    for i, n in enumerate(d, 1):
        if n["k"] != "seq":
            continue
        kd = seq_kind(d, i)
        rvals, kvals = {v for x, v in rr if x == i}, {v for x, v in kr if x == i}
        ru = next((v for x, v in rr if x == i), "")
        aohmode = ru or cfg["aoh"]
        arrmode = ru if ru in ("position", "value") else cfg["arrays"]
        synced = aohmode in SYNCED if kd == "aoh" else arrmode == "value"
        if kd == "mixed" or len(rvals) > 1 or len(kvals) > 1:
            return False
        if kd == "arr" and ru not in ("", "position", "value"):
            return False
        if kd == "aoh" and arrmode == "value" and aohmode not in SYNCED:
            return False
        if synced and _has_seq_below(d, i):
            return False
        if kd == "aoh" and aohmode in ("key", "deep"):
            if kvals:
                key = {"t": "str", "v": next(iter(kvals))}
            else:
                first = d[n["kids"][0] - 1]["keys"]
                if not first:
                    return False
                key = first[0]
            if not _id_keys_fine(d, i, key):
                return False
    return True


def expect(cfg, l, r):
    """What the statement demands of NoChange: 'same' | 'diff' | 'info' (no single reading)."""
    if eq(ORDERED, l, 1, r, 1):
        return "same"
    if not eq(ANY_ORDER, l, 1, r, 1):
        return "diff"
    if not (clear_doc(cfg, l) and clear_doc(cfg, r)):
        return "info"
    return "same" if eq(mode_order(cfg, r), l, 1, r, 1) else "diff"


# --------------------------------------------------------------------------- the statement's predicates
LEFT = ("SAME", "CHANGE", "DELETE")
RIGHT = ("SAME", "CHANGE", "ADD")


def holds(d, p, val):
    return any(plain_eq(sub_tab(d, i), val) for i in resolve_all(d, p))


def truthful(e, l, r):
    """None when the entry is true of the documents, else the failing clause."""
    if e["a"] in LEFT and not holds(l, e["p"], e["lv"]):
        return "left value is not what the left document holds at the path"
    if e["a"] in RIGHT and not holds(r, e["p"], e["rv"]):
        return "right value is not what the right document holds at the path"
    same = eq(ORDERED, e["lv"], 1, e["rv"], 1)
    if e["a"] == "SAME" and not same:
        return "SAME values differ"
    if e["a"] == "CHANGE" and same:
        return "CHANGE values are equal"
    return None


def empty_doc(d):
    """YDiff.EmptyDoc: the loader's None at the root (an empty document, or a lone null) holds no data."""
    return len(d) == 1 and d[0]["k"] == "s" and d[0]["t"] == "null"


def uncovered(rep, d):
    """Paths of the leaves of d that no entry path is a prefix of."""
    paths = [e["p"] for e in rep]
    out = []
    for x in ([] if empty_doc(d) else leaf_ids(d)):
        q = path_of(d, x)
        if not any(len(p) <= len(q) and q[:len(p)] == p for p in paths):
            out.append(q)
    return out


def keys_only(p):
    return tuple(st for st in p if isinstance(st, str))


def leaf_sigs(prefix, d):
    return [(prefix + keys_only(path_of(d, x)), d[x - 1]["t"], d[x - 1]["v"]) for x in leaf_ids(d)]


def accounted_side(rep, d, kinds, field):
    """None, or (sig, reported, present, path of an entry that reported it) for the first element not counted once."""
    acc = collections.Counter()
    src = {}
    for e in rep:
        if e["a"] in kinds:
            for sg in leaf_sigs(keys_only(e["p"]), e[field]):
                acc[sg] += 1
                src.setdefault(sg, e["p"])
    have = collections.Counter(leaf_sigs((), d))
    if empty_doc(d) and not acc:
        return None             # an empty document's null may go unmentioned (YDiff.AccountedLeft / AccountedRight)
    for sg in sorted(set(acc) | set(have), key=repr):
        if acc[sg] != have[sg]:
            return sg, acc[sg], have[sg], src.get(sg)
    return None


def no_change(rep):
    return all(e["a"] == "SAME" for e in rep)


def valued(es, l, r):
    """Model entries [a, path, li, ri] -> valued entries."""
    names = {"S": "SAME", "C": "CHANGE", "A": "ADD", "D": "DELETE"}
    return [{"a": names[a], "p": list(p), "lv": sub_tab(l, li) if li else null_tab(), "rv": sub_tab(r, ri) if ri else null_tab()}
            for a, p, li, ri in es]


def verdict(rep, l, r, cfg):
    """The clauses of the statement on one report: dict of None (holds) or a witness."""
    ex = expect(cfg, l, r)
    out = {"truthful": None, "covers": None, "accounted": None, "nochange": None, "expect": ex}
    if positional(cfg):
        for e in rep:
            why = truthful(e, l, r)
            if why:
                out["truthful"] = {"path": e["p"], "why": "%s %s: %s" % (e["a"], e["p"], why)}
                break
        for side, d in (("left", l), ("right", r)):
            un = uncovered(rep, d)
            if un:
                out["covers"] = {"path": un[0], "why": "%s leaf at %s is under no entry" % (side, un[0])}
                break
    for side, d, kinds, field in (("left", l, LEFT, "lv"), ("right", r, RIGHT, "rv")):
        bad = accounted_side(rep, d, kinds, field)
        if bad:
            sg, got, have, src = bad
            cands = [path_of(d, x) for x in leaf_ids(d) if (keys_only(path_of(d, x)), d[x - 1]["t"], d[x - 1]["v"]) == sg]
            if src is not None:
                cands.append(src)
            out["accounted"] = {"path": cands[0] if cands else [], "paths": cands,
                                "why": "%s element %s/%s under keys %s is reported %d time(s) as %s but present %d time(s)" % (
                                    side, sg[1], sg[2] or "-", list(sg[0]), got, "/".join(k.lower() for k in kinds), have)}
            break
    nc = no_change(rep)
    if ex == "same" and not nc:
        e = next(e for e in rep if e["a"] != "SAME")
        out["nochange"] = {"path": e["p"], "why": "the data are equal but the report has %s at %s" % (e["a"], e["p"])}
    elif ex == "diff" and nc:
        out["nochange"] = {"path": first_diff(l, 1, r, 1), "why": "the data differ but the report has no ADD/CHANGE/DELETE entry"}
    return out


def first_diff(l, i, r, j):
    """Path (by position) of the first place the two documents differ; [] when they do not."""
    a, b = l[i - 1], r[j - 1]
    if a["k"] != b["k"] or a["k"] == "s" or len(a["kids"]) != len(b["kids"]):
        return []
    if a["k"] == "seq":
        for x, (ca, cb) in enumerate(zip(a["kids"], b["kids"])):
            if not eq(ORDERED, l, ca, r, cb):
                return [x] + first_diff(l, ca, r, cb)
    if a["k"] == "map":
        for ka, ca in zip(a["keys"], a["kids"]):
            cb = kid_by_key(r, j, ka)
            if cb and not eq(ORDERED, l, ca, r, cb):
                return [ka["v"]] + first_diff(l, ca, r, cb)
    return []


# --------------------------------------------------------------------------- naming the input class of a failure
def _is_void(n):
    return (n["k"] == "s" and n["t"] == "null") or (n["k"] != "s" and not n["kids"])


def _is_null(n):
    return n["k"] == "s" and n["t"] == "null"


def _pair_tags(l, i, r, j, cfg, nxt=None):
    """Which of the five known deviations of differ.py the node pair (l@i, r@j) can trigger.

    nxt: the list position the failure lies under (positional modes), to tell a null member from its neighbours.
    """
    a, b = l[i - 1], r[j - 1]
    tags = set()
    if a["k"] == "seq" and b["k"] == "seq":
        if not b["kids"] and a["kids"]:
            tags.add("empty-rhs-seq")                         # differ.py:549
        if b["kids"]:
            if isinstance(nxt, int) and positional(cfg):
                nulls = any(nxt < len(n["kids"]) and _is_null(d[n["kids"][nxt] - 1]) for d, n in ((l, a), (r, b)))
            else:
                nulls = any(_is_null(d[c - 1]) for d, n in ((l, a), (r, b)) for c in n["kids"])
            if nulls:
                tags.add("null-seq-element")                  # differ.py:398-412, 326-356
            elif r[b["kids"][0] - 1]["k"] == "map":
                if cfg["arrays"] == "position" and cfg["aoh"] == "position":
                    tags.add("aoh-whole-record")              # differ.py:419
                if cfg["aoh"] in ("key", "deep"):
                    first = r[b["kids"][0] - 1]["keys"]
                    if isinstance(nxt, int):
                        recs = [d[n["kids"][nxt] - 1] for d, n in ((l, a), (r, b)) if nxt < len(n["kids"]) and d[n["kids"][nxt] - 1]["k"] == "map"]
                    else:
                        recs = [d[c - 1] for d, n in ((l, a), (r, b)) for c in n["kids"] if d[c - 1]["k"] == "map"]
                    if not first or any(first[0] not in m["keys"] for m in recs):
                        tags.add("record-lacks-identity-key")  # differ.py:795-803
    elif a["k"] != b["k"] and (_is_void(a) or _is_void(b)):
        tags.add("void-in-kind-clash")                        # differ.py:88-117, 129-158
    return tags


def _all_tags(l, i, r, j, cfg):
    tags = _pair_tags(l, i, r, j, cfg)
    a, b = l[i - 1], r[j - 1]
    if a["k"] == b["k"] == "seq":
        for ca, cb in zip(a["kids"], b["kids"]):
            tags |= _all_tags(l, ca, r, cb, cfg)
        if not positional(cfg):                               # synchronised lists pair any two members
            for ca in a["kids"]:
                for cb in b["kids"]:
                    tags |= _all_tags(l, ca, r, cb, cfg)
    elif a["k"] == b["k"] == "map":
        for ka, ca in zip(a["keys"], a["kids"]):
            cb = kid_by_key(r, j, ka)
            if cb:
                tags |= _all_tags(l, ca, r, cb, cfg)
    return tags


PRIORITY = ("null-seq-element", "record-lacks-identity-key", "empty-rhs-seq", "void-in-kind-clash", "aoh-whole-record")


def config_cause(l, r, cfg):
    """Which deviation of the per-path lookups (differconfig.py) the configuration can trigger on this pair."""
    rules, keys = cfg.get("rules", ()), cfg.get("keys", ())
    rr, kr = registered(r, rules), registered(r, keys)
    seqs = [i for i, n in enumerate(r, 1) if n["k"] == "seq"]
    for i, v in rr:
        if v == "dpos" and r[i - 1]["k"] == "seq" and r[i - 1]["kids"] and r[r[i - 1]["kids"][0] - 1]["k"] == "map":
            return "rule-dpos"                                # NameError from array_diff_mode (differ.py:393)
    for i, v in rr:
        if r[i - 1]["k"] == "seq" and r[i - 1]["par"] and r[r[i - 1]["par"] - 1]["k"] == "seq":
            return "zip-parentref"                            # parentref = position + 1 (differ.py:399-421)
    for i, v in rr + kr:
        if r[i - 1]["k"] == "seq" and any(j != i and eq(ORDERED, r, i, r, j) for j in seqs):
            return "config-by-value"                          # == instead of `is` (differconfig.py:94-104, 236-243)
    return None


def cause(l, r, cfg, path):
    """Input class of a failure witnessed at `path`: the outermost deviation possible on the way to it
    (the differ stops descending there), looking first at the pair of nodes the path designates in both
    documents and, in the synchronised modes, then at the pairs a list position of one side may have been
    matched with.  Else any deviation possible anywhere in the pair ("near-")."""
    if cfg.get("rules") or cfg.get("keys"):
        tag = config_cause(l, r, cfg)
        if tag:
            return tag
    path = [st for st in (path or []) if st != BAD]
    pos = positional(cfg) or plain_eq(l, r)       # a document against itself: a position is matched with itself
    aligned, perm = (1, 1), set()
    for n in range(len(path) + 1):
        nxt = path[n] if n < len(path) else None
        if aligned:
            tags = _pair_tags(l, aligned[0], r, aligned[1], cfg, nxt)
            if tags:
                return "+".join(sorted(tags))
        tags = set()
        for i, j in sorted(perm):
            tags |= _pair_tags(l, i, r, j, cfg, None)
        if tags:
            return next(t for t in PRIORITY if t in tags)
        if nxt is None:
            break
        step = set()
        for i, j in perm | ({aligned} if aligned else set()):
            ci, cj = child_at(l, i, nxt), child_at(r, j, nxt)
            if not pos and isinstance(nxt, int) and l[i - 1]["k"] == "seq" and r[j - 1]["k"] == "seq":
                step |= {(ci, c) for c in r[j - 1]["kids"] if ci} | {(c, cj) for c in l[i - 1]["kids"] if cj}
            elif ci and cj:
                step.add((ci, cj))
        if aligned:
            ci, cj = child_at(l, aligned[0], nxt), child_at(r, aligned[1], nxt)
            aligned = (ci, cj) if ci and cj else None
        perm = set(sorted(step - ({aligned} if aligned else set()))[:64])
        if not aligned and not perm:
            break
    tags = _all_tags(l, 1, r, 1, cfg)
    if tags:
        return "near-" + "+".join(sorted(tags))
    return "unclassified"


def report_key(rep):
    """Multiset of (action, path) as a sorted list (for the informational comparison with the model)."""
    return sorted((e["a"], repr(e["p"])) for e in rep)
