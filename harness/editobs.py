"""Replay of MC_Edit histories on one Processor instance (C03 / C04 / C09)."""
import json

from harness import core


def pyvalue(t, v):
    if t == "int":
        return int(v)
    if t == "float":
        return float(v)
    if t == "bool":
        return v.lower() == "true"
    return v


def apply_step(proc, step):
    """Run one edit on the real Processor; returns (outcome, message)."""
    from yamlpath.exceptions import YAMLPathException
    try:
        if step["op"] == "set_must":
            proc.set_value(step["dot"], pyvalue(step["t"], step["v"]), mustexist=True)
        elif step["op"] == "set_opt" and step.get("via") == "get":
            # the optional-match QUERY with a default value creates the missing tail as well (C09)
            for _ in proc.get_nodes(step["dot"], mustexist=False, default_value=pyvalue(step["t"], step["v"])):
                pass
        elif step["op"] == "set_opt":
            proc.set_value(step["dot"], pyvalue(step["t"], step["v"]))
        elif step["op"] == "delete":
            for _ in proc.delete_nodes(step["dot"]):
                pass
        elif step["op"] == "alias":
            proc.alias_nodes(step["dot"], step["adot"], anchor_name=step["name"])
        return "ok", ""
    except YAMLPathException as ex:
        name = type(ex).__name__
        if name == "NoDocumentYAMLPathException":
            return "nodoc", str(ex)[:160]
        if name == "UnmatchedYAMLPathException":
            return "unmatched", str(ex)[:160]
        return "yperr", "%s: %s" % (name, str(ex)[:160])
    except Exception as ex:  # pylint: disable=broad-except
        import traceback
        tb = traceback.extract_tb(ex.__traceback__)
        where = next((f for f in reversed(tb) if "/yamlpath/" in f.filename), tb[-1])
        return "crash", "%s: %s @ %s:%d %s" % (type(ex).__name__, ex, where.filename.split("/yamlpath/")[-1], where.lineno, where.name)


def _canon(doc, i=1):
    """Nested canonical form of a node table: Set members sorted (a Set is unordered), anchors and alias flags kept."""
    n = doc[i - 1]
    tag = (n["anchor"], bool(n["alias"]))
    if n["k"] == "map":
        ka = list(n.get("kanch") or []) + [""] * len(n["keys"])
        return ("map", tag, [((k["t"], k["v"], ka[j]), _canon(doc, c)) for j, (k, c) in enumerate(zip(n["keys"], n["kids"]))])
    if n["k"] == "seq":
        return ("seq", tag, [_canon(doc, c) for c in n["kids"]])
    if n["k"] == "set":
        return ("set", tag, sorted((_canon(doc, c) for c in n["kids"]), key=repr))
    v = n["v"]
    if n["t"] == "float":
        try:
            v = repr(float(v))
        except ValueError:
            pass
    if n["t"] == "bool":
        v = v.lower()
    return ("s", tag, n["t"], v)


def diff_tables(a, b):
    """Short description of the first difference between two node tables ('' when equal up to Set order)."""
    if a and b and _canon(a) == _canon(b):
        return ""
    if len(a) != len(b):
        return "node count %d vs %d" % (len(a), len(b))
    for i, (x, y) in enumerate(zip(a, b), 1):
        for f in ("k", "t", "v", "kids", "keys", "anchor"):
            xv, yv = x[f], y[f]
            if f == "v" and x["t"] == "float":
                try:
                    xv, yv = repr(float(xv)), repr(float(yv))
                except ValueError:
                    pass
            if f == "v" and x["t"] == "bool":
                xv, yv = xv.lower(), yv.lower()
            if xv != yv:
                return "node %d field %s: %r vs %r" % (i, f, xv, yv)
        if bool(x["alias"]) != bool(y["alias"]):
            return "node %d alias %r vs %r" % (i, x["alias"], y["alias"])
        kx, ky = [a for a in (x.get("kanch") or [])], [a for a in (y.get("kanch") or [])]
        if any(kx) or any(ky):
            if (kx + [""] * len(x["keys"]))[:len(x["keys"])] != (ky + [""] * len(y["keys"]))[:len(y["keys"])]:
                return "node %d aliased keys: %r vs %r" % (i, kx, ky)
    return ""


def replay_history(rec, style="block", plain=False, via="set"):
    """Returns (problem_kind, message) or None.  The verdict concerns the LAST step of the history.

    via="get": a last step that creates a missing tail is issued as get_nodes(path, default_value=v) instead of set_value."""
    from yamlpath import Processor
    from harness import absdoc
    text = absdoc.concretise(rec["doc0"], style, plain)
    data = absdoc.load(text)
    if not absdoc.same_table(absdoc.abstract(data), rec["doc0"]):
        raise core.MachineryError("concretisation does not reload to the abstract document: %r" % text)
    proc = Processor(absdoc.LOG, data)
    hist = rec["hist"]
    for k, step in enumerate(hist):
        last = k == len(hist) - 1
        if last and via == "get":
            step = dict(step, via="get")
        out, msg = apply_step(proc, step)
        if out != step["out"]:
            if not last:
                return ("prefix", "step %d (%s %r) gave %s, an earlier record covers it" % (k + 1, step["op"], step["dot"], out))
            return ("outcome" if out != "crash" else "crash",
                    "%s %r = %r on %s: expected %s, got %s %s" % (step["op"], step["dot"], step["v"], text.replace("\n", "|"), step["out"], out, msg))
    got = absdoc.abstract(proc.data)
    d = diff_tables(got, rec["final"])
    if d:
        return ("document", "after %s on %s: %s | got %s" % (
            "; ".join("%s %s%s" % (s["op"], s["dot"], ("=" + s["v"]) if s["op"] in ("set_must", "set_opt") else (" -> *%s %s" % (s["adot"], s["name"])) if s["op"] == "alias" else "") for s in hist),
            text.replace("\n", "|"), d, absdoc.concretise(got, "flow").strip()))
    # the Processor that made the edits answers queries like a fresh one on the same data (no stale state from the history)
    from harness import queryobs
    loc = absdoc.Locator(proc.data)
    for probe in ["**", "*"] + [s["dot"] for s in hist if s["dot"]]:
        a = queryobs.run_query(proc.data, loc, probe, "must", proc=proc)
        b = queryobs.run_query(proc.data, loc, probe, "must")
        if a["out"] != b["out"] or len(a["hits"]) != len(b["hits"]) or any(x.node is not y.node for x, y in zip(a["hits"], b["hits"])):
            return ("stale", "after the history the editing Processor answers %r with %s %s, a fresh Processor on the same data with %s %s" % (
                probe, a["out"], queryobs.describe(loc, a["hits"]), b["out"], queryobs.describe(loc, b["hits"])))
    # the edited document serialises to YAML which reloads (strict loader) to the same data
    try:
        dumped = absdoc.dump(proc.data)
        re = absdoc.abstract(absdoc.load(dumped))
    except Exception as ex:  # pylint: disable=broad-except
        return ("reload", "edited document does not dump/reload: %s: %s" % (type(ex).__name__, str(ex)[:200]))
    if absdoc.plain_data(re) != absdoc.plain_data(rec["final"]):
        return ("reload", "edited document reloads to different data: %s" % dumped.replace("\n", "|"))
    return None


def _work(items):
    out = []
    for rec, variants in items:
        for style, plain in variants:
            r = replay_history(rec, style, plain)
            out.append((rec, style, plain, r))
            last = rec["hist"][-1]
            if last["op"] == "set_opt" and last.get("grew") and last["out"] == "ok":
                r = replay_history(rec, style, plain, via="get")
                if r is not None and r[0] != "prefix":
                    r = (r[0] + "-by-query", "get_nodes(default_value=...) instead of set_value: " + r[1])
                out.append((rec, style, plain, r))
    return out


def run_histories(ctx, ops, pid, cfgs, info_ops=()):
    """Shared driver: run MC_Edit, replay every history whose last step is in `ops`.

    Histories ending in one of `info_ops` (operations outside the listed properties, e.g. alias_nodes) are replayed
    too, but a disagreement there is only counted (coverage["beyond_properties_agreement"])."""
    from harness import querycorpus
    import os
    import hashlib
    n = 0
    nontrivial = set()
    prefix = 0
    nrecs = 0
    sample = None
    beyond = {"agree": 0, "differ": 0, "first_difference": None}

    def handle(batch):
        nonlocal n, prefix
        items = [(rec, querycorpus.variant_of(rec["doc0"], ctx.seed + len(rec["hist"]), ctx.quick)) for rec in batch]
        for rec, style, plain, r in querycorpus.pmap(_work, items, chunk=200):
            if rec["hist"][-1]["op"] in info_ops:
                if r is None:
                    beyond["agree"] += 1
                elif r[0] != "prefix":
                    beyond["differ"] += 1
                    beyond["first_difference"] = beyond["first_difference"] or r[1][:600]
                continue
            n += 1
            nontrivial.add(hashlib.md5((json.dumps(rec["doc0"]) + "|".join(s["op"] + s["dot"] + s["v"] for s in rec["hist"])).encode()).digest())
            if r is None:
                continue
            kind, msg = r
            if kind == "prefix":
                prefix += 1
                continue
            last = rec["hist"][-1]
            segkinds = "+".join(sorted(set(_segkinds(last["dot"]))))
            sig = "%s:%s:%s" % (kind, last["op"], segkinds)
            if kind == "crash":
                sig += ":" + msg.split(" @ ")[-1].split(" ")[-1]
            ctx.violation(sig, msg, {"kind": "history", "rec": rec, "style": style, "plain": plain, "via": "get" if kind.endswith("-by-query") else "set"})

    # memory-bounded: the histories of the thorough configuration do not fit in memory at once (31 GB observed); they are
    # read, filtered and replayed in batches
    for cfg in cfgs:
        f = ctx.path(cfg + ".cases")
        r = core.run_tlc(ctx, "MC_Edit", cfg, env={"CASES_OUT": f}, timeout=7200)
        if r["violated"]:
            raise core.MachineryError("%s violated in %s (see %s)" % (r["violated"], cfg, r["log"]))
        batch = []
        with open(f) as fh:
            for line in fh:
                line = line.strip()
                if not line:
                    continue
                x = json.loads(line)
                if isinstance(x, str):
                    x = json.loads(x)
                if x["hist"][-1]["op"] in ops or x["hist"][-1]["op"] in info_ops:
                    batch.append(x)
                    nrecs += 1
                    if sample is None or nrecs == 1000:
                        sample = x
                    if len(batch) >= 20000:
                        handle(batch)
                        batch = []
        if batch:
            handle(batch)
        os.remove(f)
    ctx.coverage.update({
        "evaluations": n, "distinct_nontrivial": len(nontrivial), "histories_with_failing_prefix": prefix,
        "rule": "every history of MC_Edit (initial documents of the generator + curated ones x edits from the current document's vocabulary, depth <= EditDepth) whose last step is in %s; replayed on one Processor, final document + dump/reload compared; non-trivial = every history (each changes the document or is a refusal); distinct by (initial document, steps)" % sorted(ops),
        "traces_validated_against_impl": n, "exhaustive": True,
        "samples": [sample] if sample else [],
        "trusted_base": ["TLC 1.8", "spec/YEdit.tla as the plain-data model", "harness/absdoc.py abstraction"],
    })
    if info_ops:
        beyond["operations"] = sorted(info_ops)
        beyond["note"] = "single-step histories of operations outside the listed properties (YEdit.AliasStep); informational, never a verdict"
        ctx.coverage["beyond_properties_agreement"] = beyond
    return nrecs


def random_histories(ctx, pid, n_docs, steps):
    """C->S beyond the bound: seeded random histories folded by TLC (Batch_EditHist), replayed on one Processor.

    A violation is attributed to the property of the failing step's operation."""
    import os
    import random
    from harness import randdocs, querycorpus
    rng = random.Random(ctx.seed + 17)
    recs = []
    for i in range(n_docs):
        d = randdocs.rand_doc(rng, max_nodes=14, max_depth=3)
        evs = []
        for _ in range(steps):
            op = rng.choice(["set_must", "set_must", "set_opt", "delete"])
            segs = randdocs.rand_path(rng, d, maxlen=3)
            if op == "set_opt":
                segs = [s for s in segs if s["ty"] in ("KEY", "INDEX")] or [randdocs.seg("KEY", "zz")]
            t, v = rng.choice([("int", "7"), ("str", "zz"), ("float", "2.5"), ("bool", "true")])
            evs.append({"op": op, "segs": segs, "t": t, "v": v})
        recs.append({"id": i, "doc": d, "events": evs})
    exp = {}
    for part in [recs[i:i + 400] for i in range(0, len(recs), 400)]:
        rin, rout = ctx.path("hist_%d.in.json" % part[0]["id"]), ctx.path("hist_%d.out.json" % part[0]["id"])
        with open(rin, "w") as fh:
            json.dump(part, fh)
        core.run_tlc(ctx, "Batch_EditHist", "Batch_EditHist.cfg", env={"RECORDS_IN": rin, "VERDICTS_OUT": rout},
                     workers=1, name="hist_%d" % part[0]["id"], timeout=3600)
        with open(rout) as fh:
            for o in json.load(fh):
                exp[o["id"]] = o["steps"]
        os.remove(rin)
    items = [(r, exp[r["id"]]) for r in recs if exp[r["id"]]]
    total = 0
    for res in querycorpus.pmap(_hist_work, items, chunk=50):
        n, bad = res
        total += n
        if bad:
            op, kind, msg, rp = bad
            owner = {"set_must": "C03", "set_opt": "C09", "delete": "C04"}[op]
            if owner == pid:
                sig = "%s:random-history:%s" % (kind, op)
                if kind == "crash":
                    sig += ":" + msg.split(" @ ")[-1].split(" ")[-1]
                ctx.violation(sig, msg, rp)
    ctx.coverage["random_history_steps_replayed"] = total
    ctx.coverage["random_histories"] = len(items)
    ctx.coverage["evaluations"] = ctx.coverage.get("evaluations", 0) + total
    ctx.coverage["traces_validated_against_impl"] = ctx.coverage.get("traces_validated_against_impl", 0) + len(items)


def _hist_work(items):
    out = []
    for rec, steps in items:
        out.append(_replay_random(rec, steps))
    return out


def _replay_random(rec, steps):
    from yamlpath import Processor
    from harness import absdoc
    text = absdoc.concretise(rec["doc"])
    data = absdoc.load(text)
    proc = Processor(absdoc.LOG, data)
    n = 0
    for k, (ev, st) in enumerate(zip(rec["events"], steps)):
        step = {"op": ev["op"], "dot": st["dot"], "t": ev["t"], "v": ev["v"]}
        oc, msg = apply_step(proc, step)
        n += 1
        rp = {"kind": "random-history", "doc": rec["doc"], "events": rec["events"][:k + 1], "steps": steps[:k + 1]}
        hist = "; ".join("%s %s%s" % (e["op"], s["dot"], ("=" + e["v"]) if e["op"] != "delete" else "")
                         for e, s in zip(rec["events"][:k + 1], steps))
        exp_out = st["out"]
        if oc != exp_out and not (ev["op"] == "delete" and exp_out == "ok" and oc == "ok"):
            return n, (ev["op"], "crash" if oc == "crash" else "outcome",
                       "step %d of [%s] on %s: expected %s, got %s %s" % (k + 1, hist, text.replace("\n", "|"), exp_out, oc, msg), rp)
        d = diff_tables(absdoc.abstract(proc.data), st["doc"])
        if d:
            return n, (ev["op"], "document", "after [%s] on %s: %s" % (hist, text.replace("\n", "|"), d), rp)
    return n, None


def _segkinds(dot):
    out = []
    if "**" in dot:
        out.append("TRAVERSE")
    elif "*" in dot:
        out.append("MATCH_ALL")
    if "[&" in dot or dot.startswith("&"):
        out.append("ANCHOR")
    if ":" in dot:
        out.append("SLICE")
    if "=" in dot:
        out.append("SEARCH")
    import re
    if re.search(r"\[-?\d+\]", dot):
        out.append("INDEX")
    if re.search(r"(^|\.)[A-Za-z0-9\\-]", dot):
        out.append("KEY")
    return out or ["ROOT"]


def replay_file(path, pid):
    with open(path) as fh:
        rp = json.load(fh)["replay"]
    r = replay_history(rp["rec"], rp["style"], rp["plain"], via=rp.get("via", "set"))
    print(r)
    bad = r is not None and r[0] != "prefix"
    print("VIOLATION property=%s replay=%s" % (pid, path) if bad else "no violation")
    return 1 if bad else 0
