"""C18: concrete marker documents, and a recorder for yaml-merge's multi-document drivers.

Nothing in /repo is edited: the recorder wraps ``Merger.merge_with`` and the ``Merger.data``
getter on the class, and the names ``get_doc_mergers``, ``merge_condense_all``, ``merge_across``,
``merge_matrix``, ``write_output_document`` inside the ``yamlpath.commands.yaml_merge`` namespace.

Vocabulary shared with spec/YMultiDoc.tla:
  source document k of kind  full : {d<k>: k, shared: k, lst: [k]}
                             bare : {d<k>: k, shared: k}
                             seq  : [0, k]        sequ : [k]          (root-level Arrays)
                             set  : !!set {0, k}  setu : !!set {k}    (root-level Sets)
                             empty: an empty YAML document (loads as None)
  abstract document  {"nul": bool, "root": "map"|"seq"|"set"|"-", "keys": [ids of d-keys, sorted],
                      "shared": int, "lst": [list under lst / elements / members ascending]}
  event  {"kind", "f", "i", "j", "ids", "hashes", "arrays", "sets", "lm", "rm"}
"""
import contextlib
import io
import json
import re
import sys
from types import SimpleNamespace

from ruamel.yaml import YAML
from ruamel.yaml.comments import CommentedSet

import yamlpath.common.parsers as yp_parsers
from yamlpath.commands import yaml_merge as ym
from yamlpath.common import Parsers
from yamlpath.merger import Merger, MergerConfig
from yamlpath.wrappers import ConsolePrinter, NodeCoords

NUL = {"nul": True, "root": "-", "keys": [], "shared": 0, "lst": []}
ODD = {"nul": False, "root": "odd", "keys": [0], "shared": 0, "lst": []}   # data outside the marker families
SRC_LIST = {"full": lambda k: [k], "bare": lambda k: [], "seq": lambda k: [0, k], "sequ": lambda k: [k],
            "set": lambda k: [0, k], "setu": lambda k: [k]}
DRIVERS = ("merge_condense_all", "merge_across", "merge_matrix")


# ----------------------------------------------------------------------------- concrete documents
def doc_body(k, kind, flow):
    if kind == "empty":
        return None
    if kind in ("seq", "sequ"):
        els = SRC_LIST[kind](k)
        return (json.dumps(els) + "\n") if flow else "".join("- %d\n" % e for e in els)
    if kind in ("set", "setu"):
        return "!!set\n" + "".join("? %d\n" % e for e in SRC_LIST[kind](k))
    if flow:
        d = {"d%d" % k: k, "shared": k}
        if kind == "full":
            d["lst"] = [k]
        return json.dumps(d) + "\n"
    s = "d%d: %d\nshared: %d\n" % (k, k, k)
    if kind == "full":
        s += "lst:\n  - %d\n" % k
    return s


def stream_text(ids, kinds, style, rng):
    """YAML text of one stream. style: block | flow | mixed. Empty documents are spelt as a bare
    document marker, ``--- null`` or ``--- ~`` (all load as None)."""
    out = []
    for n, k in enumerate(ids):
        kind = kinds[k - 1]
        flow = style == "flow" or (style == "mixed" and rng.random() < 0.5)
        body = doc_body(k, kind, flow)
        if body is None:
            sp = rng.choice(("---\n", "---\n", "--- null\n", "--- ~\n"))
            out.append(sp)
        elif n == 0 and len(ids) == 1 and rng.random() < 0.5:
            out.append(body)                      # a single document needs no marker
        elif body.startswith("!!set") and rng.random() < 0.5:
            out.append("--- " + body)
        else:
            out.append("---\n" + body)
    return "".join(out)


_DKEY = re.compile(r"^d([1-9][0-9]*)$")


def absdoc(data):
    """Marker abstraction of parsed YAML/JSON data; ODD when outside the family."""
    if data is None:
        return dict(NUL)
    try:
        if isinstance(data, (set, frozenset, CommentedSet)) or \
                (isinstance(data, dict) and len(data) > 0 and all(v is None for v in data.values())):
            # a Set; yaml-merge's JSON rendering of a Set is a Hash of its members to null
            members = [int(x) for x in data]
            if any(isinstance(x, bool) for x in data) or len(set(members)) != len(members):
                return dict(ODD)
            return {"nul": False, "root": "set", "keys": [], "shared": 0, "lst": sorted(members)}
        if isinstance(data, list):
            if any(isinstance(x, bool) or not isinstance(x, int) for x in data):
                return dict(ODD)
            return {"nul": False, "root": "seq", "keys": [], "shared": 0, "lst": [int(x) for x in data]}
    except Exception:                             # pylint: disable=broad-except
        return dict(ODD)
    if not hasattr(data, "keys"):
        return dict(ODD)
    keys, shared, lst = [], None, []
    try:
        for k in data.keys():
            v = data[k]
            m = _DKEY.match(k) if isinstance(k, str) else None
            if m:
                if isinstance(v, bool) or not isinstance(v, int) or int(v) != int(m.group(1)):
                    return dict(ODD)
                keys.append(int(m.group(1)))
            elif k == "shared":
                if isinstance(v, bool) or not isinstance(v, int):
                    return dict(ODD)
                shared = int(v)
            elif k == "lst":
                if not isinstance(v, list) or any(isinstance(x, bool) or not isinstance(x, int) for x in v):
                    return dict(ODD)
                lst = [int(x) for x in v]
            else:
                return dict(ODD)
    except Exception:                             # pylint: disable=broad-except
        return dict(ODD)
    if shared is None or not keys:
        return dict(ODD)
    return {"nul": False, "root": "map", "keys": sorted(keys), "shared": shared, "lst": lst}


def marker(a):
    """The id of the source document an abstract document is (0: empty, -1: not a single source)."""
    if a["nul"]:
        return 0
    if a["root"] == "map":
        return a["keys"][0] if len(a["keys"]) == 1 else -1
    nz = [x for x in a["lst"] if x != 0]
    return nz[0] if len(nz) == 1 and len(a["lst"]) <= 2 else -1


def parse_stream(text):
    """The output of yaml-merge as a list of parsed documents.  yaml-merge writes either a YAML
    stream or - when the first document is JSON/flow style - one JSON text per line."""
    lines = [ln for ln in text.splitlines() if ln.strip()]
    try:
        return [json.loads(ln) for ln in lines]
    except ValueError:
        return list(YAML(typ="safe", pure=True).load_all(text))


# ----------------------------------------------------------------------------- recorder
class LoggingList(list):
    """main()'s ``mergers`` list: appends are events (merge_across moves RHS Mergers into it)."""
    rec = None

    def append(self, item):
        if self.rec is not None:
            self.rec.on_append(self, item)
        list.append(self, item)

    def extend(self, items):
        for it in items:
            self.append(it)

    def __iadd__(self, items):
        self.extend(items)
        return self

    def insert(self, pos, item):
        if self.rec is not None:
            self.rec.on_append(self, item)
        list.insert(self, pos, item)


class Recorder:
    def __init__(self):
        self.events = []
        self.nload = 0
        self.driver = None
        self.cur_lhs = None
        self.cur_rhs = None
        self.last_reader = None
        self.keep = []            # strong references (ids stay unique)
        self.out_data = None
        self.stray = 0

    def ev(self, kind, f=0, i=0, j=0, ids=(), config=None, lm=None, rm=None):
        hashes = arrays = sets = "-"
        if config is not None:
            try:
                hashes = config.hash_merge_mode(NodeCoords(None, None, None)).name.lower()
                arrays = config.array_merge_mode(NodeCoords(None, None, None)).name.lower()
                sets = config.set_merge_mode(NodeCoords(None, None, None)).name.lower()
            except Exception:                     # pylint: disable=broad-except
                hashes = arrays = sets = "?"
        self.events.append({"kind": kind, "f": f, "i": i, "j": j, "ids": list(ids), "hashes": hashes,
                            "arrays": arrays, "sets": sets, "lm": lm or dict(NUL), "rm": rm or dict(NUL)})

    # --- get_doc_mergers
    def on_load(self, mergers, loaded, first):
        self.nload += 1
        ids = []
        for m in mergers:
            ids.append(marker(absdoc(m._data)))    # pylint: disable=protected-access
        self.keep.extend(mergers)
        self.ev("Load" if loaded else "LoadFailed", f=self.nload, ids=ids)
        if first:
            ll = LoggingList(mergers)
            ll.rec = self
            return ll
        return mergers

    # --- lhs_docs.append(rhs_docs[i])
    def on_append(self, lst, item):
        pos = _index_of(self.cur_rhs, item)
        self.ev("AcrossAppend" if self.driver == "merge_across" and lst is self.cur_lhs else "StrayAppend",
                i=pos, j=len(lst) + 1)

    # --- Merger.merge_with
    def on_merge(self, merger, rhs):
        lm = absdoc(merger._data)                 # pylint: disable=protected-access
        rm = absdoc(rhs)
        lpos = _index_of(self.cur_lhs, merger)
        src = self._source_of(merger, rhs)
        rpos_r = _index_of(self.cur_rhs, src)
        rpos_l = _index_of(self.cur_lhs, src)
        kind, i, j = "Stray", lpos, rpos_r
        if self.driver == "merge_condense_all":
            if lpos == 1 and rpos_r:
                kind, i, j = "CondenseRhs", 0, rpos_r
            elif lpos == 1 and rpos_l:
                kind, i, j = "CondenseLhs", rpos_l, 0
        elif self.driver == "merge_across" and lpos and rpos_r:
            kind = "Across"
        elif self.driver == "merge_matrix" and lpos and rpos_r:
            kind = "Matrix"
        if kind == "Stray":
            self.stray += 1
        self.ev(kind, i=i, j=j, config=merger.config, lm=lm, rm=rm)

    def _source_of(self, merger, rhs):
        """Which Merger's document is being merged in: by object identity, else the Merger whose
        ``data`` was read last (``x.merge_with(y.data)`` evaluates ``y.data`` last), else by marker."""
        pool = []
        for m in list(self.cur_rhs or []) + list(self.cur_lhs or []):
            if m is not merger and not any(m is x for x in pool):
                pool.append(m)
        same = [m for m in pool if m._data is rhs]            # pylint: disable=protected-access
        if len(same) == 1:
            return same[0]
        if self.last_reader is not None and self.last_reader is not merger and \
                (not same or any(self.last_reader is m for m in same)):
            return self.last_reader
        if same:
            return same[0]
        a = marker(absdoc(rhs))
        if a > 0:
            for m in pool:
                if marker(absdoc(m._data)) == a:              # pylint: disable=protected-access
                    return m
        return None


def _index_of(lst, item):
    if lst is None or item is None:
        return 0
    for n, m in enumerate(lst):
        if m is item:
            return n + 1
    return 0


class WouldHang(BaseException):
    """Raised by the recorder instead of entering a loop that provably never ends."""


REC = None          # the active recorder (None: wrappers are transparent)
_INSTALLED = False


def install():
    """Install the wrappers once per process (idempotent)."""
    global _INSTALLED                                          # pylint: disable=global-statement
    if _INSTALLED:
        return
    _INSTALLED = True
    orig_merge_with = Merger.merge_with
    prop = Merger.__dict__["data"]

    def merge_with(self, rhs):
        if REC is not None:
            REC.on_merge(self, rhs)
        return orig_merge_with(self, rhs)

    def data_get(self):
        if REC is not None:
            REC.last_reader = self
        return prop.fget(self)

    Merger.merge_with = merge_with
    Merger.data = property(data_get, prop.fset, doc=prop.__doc__)

    # merger.py:302-327: `for idx, ele in enumerate(rhs): ... lhs.append(ele)` under ArrayMergeOpts.ALL
    # never ends when lhs and rhs are the same list object; stop the run instead of hanging in it.
    orig_msl = getattr(Merger, "_merge_simple_lists", None)
    if orig_msl is not None:
        from yamlpath.merger.enums import ArrayMergeOpts

        def _merge_simple_lists(self, lhs, rhs, path, node_coord):
            if REC is not None and lhs is rhs and len(rhs) > 0 \
                    and self.config.array_merge_mode(node_coord) is ArrayMergeOpts.ALL:
                raise WouldHang("a list is being appended to itself at %s" % (path,))
            return orig_msl(self, lhs, rhs, path, node_coord)

        Merger._merge_simple_lists = _merge_simple_lists      # pylint: disable=protected-access

    orig_gdm = ym.get_doc_mergers

    def get_doc_mergers(log, yaml_editor, config, yaml_file):
        mergers, loaded = orig_gdm(log, yaml_editor, config, yaml_file)
        if REC is not None:
            mergers = REC.on_load(mergers, loaded, REC.nload == 0)
        return (mergers, loaded)

    ym.get_doc_mergers = get_doc_mergers

    def wrap_driver(name):
        orig = getattr(ym, name)

        def driver(log, lhs_docs, rhs_docs):
            rec = REC
            if rec is None:
                return orig(log, lhs_docs, rhs_docs)
            rec.driver, rec.cur_lhs, rec.cur_rhs = name, lhs_docs, rhs_docs
            n0 = len(lhs_docs)
            try:
                return orig(log, lhs_docs, rhs_docs)
            finally:
                if not isinstance(lhs_docs, LoggingList):
                    # plain list: appends could not be seen when they happened; log them now
                    for n, m in enumerate(list(lhs_docs)[n0:]):
                        rec.ev("AcrossAppend", i=_index_of(rhs_docs, m), j=n0 + n + 1)
                rec.driver = None
        driver.__name__ = name
        setattr(ym, name, driver)

    for name in DRIVERS:
        wrap_driver(name)

    orig_wod = ym.write_output_document

    def write_output_document(args, log, yaml_editor, docs):
        if REC is not None:
            REC.ev("Output")
            REC.out_data = [absdoc(m._data) for m in docs]     # pylint: disable=protected-access
        return orig_wod(args, log, yaml_editor, docs)

    ym.write_output_document = write_output_document


@contextlib.contextmanager
def recording():
    global REC                                                 # pylint: disable=global-statement
    install()
    rec = Recorder()
    REC = rec
    try:
        yield rec
    finally:
        REC = None


# ----------------------------------------------------------------------------- drivers of the drivers
class _Stdin(io.StringIO):
    def isatty(self):
        return False


class _Tty(io.StringIO):
    def isatty(self):
        return True


def run_cli(argv, stdin_text=None):
    """yaml-merge main() in-process. Returns (exit code, stdout, stderr, recorder)."""
    saved = (sys.argv, sys.stdin, sys.stdout, sys.stderr, yp_parsers.stdin)
    out, err = io.StringIO(), io.StringIO()
    sin = _Stdin(stdin_text) if stdin_text is not None else _Tty("")
    code = 0
    with recording() as rec:
        try:
            sys.argv = ["yaml-merge"] + list(argv)
            sys.stdin = sin
            yp_parsers.stdin = sin
            sys.stdout, sys.stderr = out, err
            try:
                ym.main()
            except SystemExit as ex:
                code = ex.code if isinstance(ex.code, int) else (0 if ex.code is None else 1)
        finally:
            sys.argv, sys.stdin, sys.stdout, sys.stderr, yp_parsers.stdin = saved
    return code, out.getvalue(), err.getvalue(), rec


def run_lib(mode, hashes, arrays, paths, sets=None):
    """The library-level route: get_doc_mergers for the first file, merge_docs for every other one
    (exactly the calls main() makes for two or more files). Returns (state, recorder, mergers)."""
    ns = SimpleNamespace(multi_doc_mode=mode, quiet=True, verbose=False, debug=False)
    if hashes:
        ns.hashes = hashes
    if arrays:
        ns.arrays = arrays
    if sets:
        ns.sets = sets
    log = ConsolePrinter(ns)
    err = io.StringIO()
    saved = sys.stderr
    state = 0
    with recording() as rec:
        try:
            sys.stderr = err
            editor = Parsers.get_yaml_editor()
            config = MergerConfig(log, ns)
            mergers, loaded = ym.get_doc_mergers(log, editor, config, paths[0])
            if not loaded:
                state = 4
            for p in paths[1:]:
                if state:
                    break
                state = ym.merge_docs(log, editor, config, mergers, p)
            if state == 0:
                rec.ev("Output")
                rec.out_data = [absdoc(m._data) for m in mergers]   # pylint: disable=protected-access
        finally:
            sys.stderr = saved
    return state, rec, err.getvalue()
