"""Running the real Merger on abstract documents under a policy configuration."""
from types import SimpleNamespace


_CACHE = {}


def _fresh(doc, style, plain):
    """A private copy of the loaded document (parsed once per process, deep-copied per use)."""
    import copy
    import json
    from harness import absdoc
    key = (json.dumps(doc, sort_keys=True), style, plain)
    if key not in _CACHE:
        if len(_CACHE) > 20000:
            _CACHE.clear()
        _CACHE[key] = absdoc.load(absdoc.concretise(doc, style, plain))
    return copy.deepcopy(_CACHE[key])


def run_merge(ldoc, rdoc, cfgname, style="block", plain=False, mergeat=None, rules=None, keys=None, anchors=None, rplain=None, rdoc2=None):
    """Returns (outcome, table_or_message, merger): outcome in ok | mergeerr | yperr | crash.
    rdoc2: a second right-hand document merged by the SAME Merger after rdoc."""
    from yamlpath.merger import Merger, MergerConfig
    from yamlpath.merger.exceptions import MergeException
    from yamlpath.exceptions import YAMLPathException
    from harness import absdoc
    h, a, o, s = cfgname.split("/")
    ns = {"hashes": h, "arrays": a, "aoh": o, "sets": s}
    if mergeat is not None:
        ns["mergeat"] = mergeat
    if anchors is not None:
        ns["anchors"] = anchors
    args = SimpleNamespace(**ns)
    over = {}
    if rules:
        over["rules"] = rules
    if keys:
        over["keys"] = keys
    ldata = _fresh(ldoc, style, plain)
    rdata = _fresh(rdoc, style, plain if rplain is None else rplain)
    cfg = MergerConfig(absdoc.LOG, args, **over)
    mg = Merger(absdoc.LOG, ldata, cfg)
    try:
        mg.merge_with(rdata)
        if rdoc2 is not None:
            mg.merge_with(_fresh(rdoc2, style, plain if rplain is None else rplain))
    except MergeException as ex:
        return "mergeerr", str(ex)[:160], mg
    except YAMLPathException as ex:
        return "yperr", str(ex)[:160], mg
    except Exception as ex:  # pylint: disable=broad-except
        import traceback
        tb = traceback.extract_tb(ex.__traceback__)
        where = next((f for f in reversed(tb) if "/yamlpath/" in f.filename), tb[-1])
        return "crash", "%s: %s @ %s:%d %s" % (type(ex).__name__, ex, where.filename.split("/yamlpath/")[-1], where.lineno, where.name), mg
    return "ok", absdoc.abstract(mg.data), mg


def batch_expectations(ctx, recs, name="rnd"):
    """C->S: TLC (Batch_Merge) evaluates MergeDocs for the records [{id, l, r, h, a, o, s, am}]; returns {id: [ok, info, out]}."""
    import json
    import os
    from harness import core
    exp = {}
    for part in [recs[i:i + 600] for i in range(0, len(recs), 600)]:
        rin, rout = ctx.path("%s_%d.in.json" % (name, part[0]["id"])), ctx.path("%s_%d.out.json" % (name, part[0]["id"]))
        with open(rin, "w") as fh:
            json.dump(part, fh)
        core.run_tlc(ctx, "Batch_Merge", "Batch_Merge.cfg", env={"RECORDS_IN": rin, "VERDICTS_OUT": rout}, workers=1,
                     name="%s_%d" % (name, part[0]["id"]), timeout=3600)
        with open(rout) as fh:
            for o in json.load(fh):
                exp[o["id"]] = o
        os.remove(rin)
        os.remove(rout)
    return exp
