"""Observation of the real YAMLPath class in the vocabulary of spec/YPathParser.tla."""
from yamlpath import YAMLPath
from yamlpath.enums import PathSeparators, PathSegmentTypes
from yamlpath.exceptions import YAMLPathException
from yamlpath.path import SearchTerms, SearchKeywordTerms, CollectorTerms

SEPS = {"auto": PathSeparators.AUTO, "dot": PathSeparators.DOT, "fslash": PathSeparators.FSLASH}


def seg(ty, v="", inv=False, op="", attr="", term="", kw="", cop=""):
    return {"ty": ty, "v": v, "inv": inv, "op": op, "attr": attr, "term": term, "kw": kw, "cop": cop}


def project_segment(s):
    ty, at = s
    if ty == PathSegmentTypes.KEY:
        return seg("KEY", str(at))
    if ty == PathSegmentTypes.INDEX:
        if isinstance(at, int) and not isinstance(at, bool):
            return seg("INDEX", str(at))
        return seg("SLICE", str(at))
    if ty == PathSegmentTypes.ANCHOR:
        return seg("ANCHOR", str(at))
    if ty == PathSegmentTypes.SEARCH:
        if isinstance(at, SearchTerms):
            return seg("SEARCH", inv=bool(at.inverted), op=str(at.method), attr=str(at.attribute), term=str(at.term))
        return seg("RAW_SEARCH", str(at))
    if ty == PathSegmentTypes.KEYWORD_SEARCH:
        if isinstance(at, SearchKeywordTerms):
            return seg("KEYWORD", v=str(at._parameters), inv=bool(at.inverted), kw=str(at.keyword))
        return seg("RAW_KEYWORD", str(at))
    if ty == PathSegmentTypes.COLLECTOR:
        if isinstance(at, CollectorTerms):
            return seg("COLLECTOR", v=str(at.expression), cop=str(at.operation))
        return seg("RAW_COLLECTOR", str(at))
    if ty == PathSegmentTypes.MATCH_ALL:
        return seg("MATCH_ALL")
    if ty == PathSegmentTypes.TRAVERSE:
        return seg("TRAVERSE")
    return seg("UNKNOWN_" + str(ty))


def outcome(fn):
    """Run fn; classify as ('o', value) / ('e', msg) for the YAML Path error family / ('c', exc) otherwise."""
    try:
        return "o", fn()
    except YAMLPathException as ex:
        return "e", str(ex)
    except RecursionError as ex:  # noqa
        return "c", "RecursionError"
    except Exception as ex:  # pylint: disable=broad-except
        return "c", "%s: %s" % (type(ex).__name__, ex)


def forced(text, sepname):
    """A YAMLPath on which the separator is forced the way Processor.get_nodes does it."""
    p = YAMLPath(text)
    if sepname != "auto":
        p.separator = SEPS[sepname]
    return p


def observe(text):
    """Outcome classes and projected segments of the four parses the model predicts, plus str()."""
    res = {}
    p = YAMLPath(text)
    c_ae, v = outcome(lambda: [project_segment(s) for s in p.escaped])
    res["ae"] = v if c_ae == "o" else []
    c_au, v2 = outcome(lambda: [project_segment(s) for s in p.unescaped])
    res["au"] = v2 if c_au == "o" else []
    c_s, v3 = outcome(lambda: str(p))
    res["s"] = v3 if c_s == "o" else ""
    codes = [c_ae, c_au]
    detail = [v if c_ae != "o" else "", v2 if c_au != "o" else "", v3 if c_s != "o" else ""]
    for sepname, key in (("dot", "de"), ("fslash", "fe")):
        # forcing the separator parses the unescaped form under the inferred separator first
        q = YAMLPath(text)
        c_set, vs = outcome(lambda: setattr(q, "separator", SEPS[sepname]))
        c_e, ve = outcome(lambda: [project_segment(s) for s in q.escaped])
        res[key] = ve if c_e == "o" else []
        res[key + "_set"] = c_set
        codes.append(c_e)
        detail.append(ve if c_e != "o" else "")
        c_u, vu = outcome(lambda: q.unescaped)
        c_q, vq = outcome(lambda: str(q))
        for c, d in ((c_set, vs), (c_u, vu), (c_q, vq)):
            if c == "c":
                res.setdefault("other_crash", []).append(str(d))
    res["code"] = "".join(codes)
    res["str_code"] = c_s
    res["detail"] = [str(d)[:200] for d in detail if d]
    return res


# ---------------------------------------------------------------------------
# per-character internal state of YAMLPath._parse_path (no source change):
# sampled with sys.settrace at the loop head line, i.e. after each iteration.
import inspect
import sys

# The per-character binding reads the parser's local variables by name.  That is a binding to the CURRENT shape of
# _parse_path: after a refactoring that renames them (behaviour unchanged) the internal states are simply unavailable -
# INTERNALS_AVAILABLE is False, trace_escaped_parse returns [] and the check falls back to outcomes, segments and strings
# (never an alarm, never a machinery failure).
_LOCALS = ("segment_id", "segment_type", "demarc_stack", "escape_next", "search_inverted", "search_method", "search_attr",
           "search_keyword", "seeking_regex_delim", "capturing_regex", "collector_level", "collector_operator",
           "seeking_collector_operator", "next_char_must_be", "seeking_anchor_mark", "path_segments")
try:
    _PP_CODE = YAMLPath._parse_path.__code__
    _src, _first = inspect.getsourcelines(YAMLPath._parse_path)
    _LOOP_LINE = next((_first + i for i, l in enumerate(_src)
                       if l.strip().startswith("for ") and "enumerate(yaml_path)" in l), None)
    INTERNALS_AVAILABLE = _LOOP_LINE is not None and all(n in _PP_CODE.co_varnames for n in _LOCALS)
except (AttributeError, OSError, TypeError):
    _PP_CODE, _LOOP_LINE, INTERNALS_AVAILABLE = None, None, False
_TYNAME = {None: "", PathSegmentTypes.KEY: "KEY", PathSegmentTypes.INDEX: "INDEX", PathSegmentTypes.ANCHOR: "ANCHOR",
           PathSegmentTypes.SEARCH: "SEARCH", PathSegmentTypes.KEYWORD_SEARCH: "KEYWORD",
           PathSegmentTypes.COLLECTOR: "COLLECTOR"}


def _snap(loc):
    kw = loc.get("search_keyword")
    meth = loc.get("search_method")
    return {"id": loc["segment_id"], "ty": _TYNAME.get(loc["segment_type"], str(loc["segment_type"])),
            "stack": list(loc["demarc_stack"]), "esc": bool(loc["escape_next"]), "inv": bool(loc["search_inverted"]),
            "meth": "" if meth is None else str(meth), "attr": loc["search_attr"],
            "kw": "" if kw is None else str(kw), "seekRe": bool(loc["seeking_regex_delim"]),
            "capRe": bool(loc["capturing_regex"]), "lvl": int(loc["collector_level"]),
            "cop": str(loc["collector_operator"]), "seekCop": bool(loc["seeking_collector_operator"]),
            "must": loc["next_char_must_be"] or "", "seekAnchor": bool(loc["seeking_anchor_mark"]),
            "nsegs": len(loc["path_segments"])}


def trace_escaped_parse(text):
    """States after each consumed character of the escaped parse under the inferred separator.

    The last entry is {"id": "<raised>"...} when the parse raised while consuming that character.
    """
    steps = []
    seen_head = [0]
    if not INTERNALS_AVAILABLE:
        return steps

    def local(frame, event, arg):
        if event == "line" and frame.f_lineno == _LOOP_LINE:
            seen_head[0] += 1
            if seen_head[0] > 1:
                steps.append(_snap(frame.f_locals))
        elif event == "exception" and seen_head[0] >= 1:
            if not steps or steps[-1].get("id") != "<raised>":
                s = _snap(frame.f_locals)
                s["id"] = "<raised>"
                steps.append(s)
        return local

    def tracer(frame, event, arg):
        if event == "call" and frame.f_code is _PP_CODE:
            return local
        return None

    p = YAMLPath(text)
    sys.settrace(tracer)
    try:
        try:
            p.escaped  # pylint: disable=pointless-statement
        except Exception:  # pylint: disable=broad-except
            pass
    finally:
        sys.settrace(None)
    return steps
