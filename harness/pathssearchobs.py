"""Observation of the yaml-paths search (property C07).

options(n)        the 48 option combinations of spec/MC_PathsSearch.tla (OptOf) as yaml-paths command-line flags
namespace(n, sep) the flags parsed by the tool's own argument parser (processcli)
kwargs_like_main  the keyword arguments main() derives from the parsed flags (yaml_paths.py:885-902)
run_search        search_for_paths(...) called the way process_yaml_file calls it; yields the printed paths and the
                  recorded Searches.search_anchor classifications (the threaded seen_anchors state made observable)
Resolver          printed path -> the places of the real document it designates (Processor.get_nodes, cached)
run_main          the whole tool in-process on a file (CLI sample)
"""
import contextlib
import io
import os
import sys

from harness import absdoc, queryobs

MODES = ("v", "kv", "k")            # -i (default) / -k / -K
ALIAS = ("A", "Y", "y", "l")        # --anchorsonly / --allowkeyaliases (default) / --allowvaluealiases / --allowaliases
NOPTS = 48


def options(n):
    """Decode option combination n exactly as OptOf(n) of the specification does."""
    return {"n": n, "mode": MODES[n % 3], "am": ALIAS[(n // 3) % 4], "refs": (n // 12) % 2 == 1, "expand": (n // 24) % 2 == 1}


def shape(n):
    o = options(n)
    return "%s-%s%s%s" % (o["mode"], o["am"], "-a" if o["refs"] else "", "-m" if o["expand"] else "")


def flags(n, sep):
    o = options(n)
    out = ["--nostdin", "--nofile", "--pathsep=%s" % ("fslash" if sep == "/" else "dot")]
    out += {"v": [], "kv": ["--keynames"], "k": ["--onlykeynames"]}[o["mode"]]
    out += {"A": ["--anchorsonly"], "Y": [], "y": ["--allowvaluealiases"], "l": ["--allowaliases"]}[o["am"]]
    if o["refs"]:
        out.append("--refnames")
    if o["expand"]:
        out.append("--expand")
    return out


_NS = {}


def namespace(n, sep):
    """argparse Namespace produced by the tool's own parser for option combination n."""
    key = (n, sep)
    if key not in _NS:
        from yamlpath.commands import yaml_paths as yp
        old = sys.argv
        sys.argv = ["yaml-paths", "--search", "=x"] + flags(n, sep) + ["-"]
        try:
            _NS[key] = yp.processcli()
        finally:
            sys.argv = old
    return _NS[key]


def kwargs_like_main(args):
    """main(), yaml_paths.py:885-902, verbatim in effect."""
    from yamlpath.enums import IncludeAliases
    search_values = True
    search_keys = False
    include_key_aliases = False
    include_value_aliases = False
    if args.onlykeynames:
        search_values = False
        search_keys = True
    elif args.keynames:
        search_keys = True
    if args.include_aliases is IncludeAliases.INCLUDE_ALL_ALIASES:
        include_key_aliases = True
        include_value_aliases = True
    elif args.include_aliases is IncludeAliases.INCLUDE_KEY_ALIASES:
        include_key_aliases = True
    elif args.include_aliases is IncludeAliases.INCLUDE_VALUE_ALIASES:
        include_value_aliases = True
    return {"search_values": search_values, "search_keys": search_keys, "search_anchors": args.refnames,
            "include_key_aliases": include_key_aliases, "include_value_aliases": include_value_aliases,
            "decrypt_eyaml": args.decrypt, "expand_children": args.expand}


# --------------------------------------------------------------------------- recording Searches.search_anchor
class _SearchesProxy:
    """Stands in for the name `Searches` inside yamlpath.commands.yaml_paths; records search_anchor verdicts."""

    def __init__(self, real):
        self._real = real
        self.log = []

    def __getattr__(self, name):
        return getattr(self._real, name)

    def search_anchor(self, node, terms, seen_anchors, **kwargs):
        res = self._real.search_anchor(node, terms, seen_anchors, **kwargs)
        if res.name != "NO_ANCHOR":
            self.log.append([str(node.anchor.value), res.name])
        return res


_PROXY = None


def _proxy():
    global _PROXY
    from yamlpath.commands import yaml_paths as yp
    if _PROXY is None or yp.Searches is not _PROXY:
        real = yp.Searches._real if isinstance(yp.Searches, _SearchesProxy) else yp.Searches
        _PROXY = _SearchesProxy(real)
        yp.Searches = _PROXY
    return _PROXY


def parse_expr(expr):
    """(inverted, operator, term) an expression spells (spec: Expr)."""
    inv = expr.startswith("!")
    rest = expr[1:] if inv else expr
    for op in ("=~", "<=", ">=", "=", "^", "$", "%", "<", ">"):
        if rest.startswith(op):
            term = rest[len(op):]
            if op == "=~" and len(term) >= 2 and term[0] == term[-1]:
                term = term[1:-1]
            return inv, op, term
    raise ValueError(expr)


def terms_of(expr):
    """The real get_search_term; returns (terms object or None, (inverted, operator, term) it holds)."""
    from yamlpath.commands import yaml_paths as yp
    terms = yp.get_search_term(absdoc.LOG, expr)
    if terms is None:
        return None, None
    return terms, (bool(terms.inverted), str(terms.method), str(terms.term))


def run_search(data, expr, n, sep, terms=None):
    """Returns dict(out='ok'|'badexpr'|'crash:<Exc>', paths=[printed path...], log=[[anchor, verdict]...], msg)."""
    from yamlpath.commands import yaml_paths as yp
    from yamlpath.common import Anchors
    from yamlpath.eyaml import EYAMLProcessor
    args = namespace(n, sep)
    kw = kwargs_like_main(args)
    if terms is None:
        terms, _ = terms_of(expr)
        if terms is None:
            return {"out": "badexpr", "paths": [], "log": []}
    prox = _proxy()
    prox.log = []
    processor = EYAMLProcessor(absdoc.LOG, None, binary=args.eyaml, publickey=args.publickey, privatekey=args.privatekey)
    processor.data = data
    all_anchors = {}
    paths = []
    try:
        Anchors.scan_for_anchors(data, all_anchors)
        for res in yp.search_for_paths(absdoc.LOG, processor, data, terms, args.pathsep, all_anchors=all_anchors, **kw):
            paths.append(str(res))
        return {"out": "ok", "paths": paths, "log": prox.log, "kw": kw}
    except RecursionError:
        return {"out": "crash:RecursionError", "paths": paths, "log": prox.log, "msg": "RecursionError", "kw": kw}
    except Exception as ex:  # pylint: disable=broad-except
        import traceback
        tb = traceback.extract_tb(ex.__traceback__)
        where = next((f for f in reversed(tb) if "/yamlpath/" in f.filename), tb[-1])
        return {"out": "crash:" + type(ex).__name__, "paths": paths, "log": prox.log, "kw": kw,
                "msg": "%s: %s @ %s:%d %s" % (type(ex).__name__, ex, where.filename.split("/yamlpath/")[-1], where.lineno, where.name)}


# --------------------------------------------------------------------------- printed path -> places
def _key_eq(a, b):
    try:
        return type(a) is type(b) and a == b or (isinstance(a, str) and isinstance(b, str) and str(a) == str(b)) \
            or (not isinstance(a, bool) and not isinstance(b, bool) and isinstance(a, (int, float)) and isinstance(b, (int, float)) and a == b)
    except Exception:  # pylint: disable=broad-except
        return False


def place_of(loc, hit):
    """Id of the place (parent, parentref) of a hit designates; 0 = none, negative = holds another object."""
    node, parent, ref = hit.node, hit.parent, hit.ref
    if parent is None:
        return 1 if node is loc.data else 0
    kids = loc.by_parent.get(id(parent), ())
    if not kids:
        return 0
    pk = loc.doc[loc.doc[kids[0] - 1]["par"] - 1]["k"]
    if pk == "seq":
        if not isinstance(ref, int) or isinstance(ref, bool):
            return 0
        if ref < 0:
            ref += len(kids)
        if not 0 <= ref < len(kids):
            return 0
        i = kids[ref]
        return i if loc.pos[i - 1][0] is node else -i
    if pk == "map":
        for i in kids:
            if _key_eq(loc.pos[i - 1][2], ref):
                return i if loc.pos[i - 1][0] is node else -i
        for i in kids:      # a key given by its text (int key named "0")
            if str(loc.pos[i - 1][2]) == str(ref):
                return i if loc.pos[i - 1][0] is node else -i
        return 0
    for i in kids:          # set: the member itself
        m = loc.pos[i - 1][0]
        if m is node or (_key_eq(m, node)) or str(m) == str(ref):
            return i
    return 0


class Resolver:
    """Re-resolution of printed paths on one loaded document (cached: it does not depend on the search options)."""

    def __init__(self, data):
        self.data = data
        self.loc = absdoc.Locator(data)
        self.cache = {}

    def resolve(self, text):
        """dict(out, ids=[place ids in document order], hits=[Hit], same=all hits are one object)."""
        if text not in self.cache:
            r = queryobs.run_query(self.data, self.loc, text, "must")
            hits = r["hits"]
            ids = [place_of(self.loc, h) for h in hits]
            same = all(h.node is hits[0].node for h in hits) if hits else True
            self.cache[text] = {"out": r["out"], "ids": ids, "hits": hits, "same": same, "virt": r["virt"], "msg": r.get("msg", "")}
        return self.cache[text]


# --------------------------------------------------------------------------- the tool in-process
def run_main(argv, stdin_text=""):
    """yaml_paths.main() with argv; returns (exit code, stdout lines, stderr text)."""
    from yamlpath.commands import yaml_paths as yp
    _proxy()
    out, err = io.StringIO(), io.StringIO()
    old = sys.argv
    sys.argv = ["yaml-paths"] + list(argv)
    code = 0
    try:
        with contextlib.redirect_stdout(out), contextlib.redirect_stderr(err):
            try:
                yp.main()
            except SystemExit as ex:
                code = ex.code if isinstance(ex.code, int) else (0 if ex.code is None else 1)
    finally:
        sys.argv = old
    text = out.getvalue()
    return code, (text.split("\n")[:-1] if text else []), err.getvalue()
