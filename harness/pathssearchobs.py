"""Observation of the yaml-paths search (property C07).

options(n)        the 48 option combinations of spec/MC_PathsSearch.tla (OptOf) as yaml-paths command-line flags
namespace(n, sep) the flags parsed by the tool's own argument parser (processcli)
kwargs_like_main  the keyword arguments main() derives from the parsed flags (yaml_paths.py:885-902)
run_search        search_for_paths(...) called the way process_yaml_file calls it; yields the printed paths and the
                  recorded Searches.search_anchor classifications (the threaded seen_anchors state made observable)
Resolver          printed path -> the places of the real document it designates (Processor.get_nodes, cached)
run_main          the whole tool in-process on a file (CLI sample)
"""
import contextlib
import re
import io
import os
import sys

from harness import absdoc, queryobs

MODES = ("v", "kv", "k")            # -i (default) / -k / -K
ALIAS = ("A", "Y", "y", "l")        # --anchorsonly / --allowkeyaliases (default) / --allowvaluealiases / --allowaliases
NOPTS = 48


def options(n):
    """Decode option combination n exactly as OptOf(n) of the specification does."""
    return {"n": n, "mode": MODES[n % 3], "am": ALIAS[(n // 3) % 4], "refs": (n // 12) % 2 == 1, "expand": (n // 24) % 2 == 1}


def shape(n):
    o = options(n)
    return "%s-%s%s%s" % (o["mode"], o["am"], "-a" if o["refs"] else "", "-m" if o["expand"] else "")


def flags(n, sep):
    o = options(n)
    out = ["--nostdin", "--nofile", "--pathsep=%s" % ("fslash" if sep == "/" else "dot")]
    out += {"v": [], "kv": ["--keynames"], "k": ["--onlykeynames"]}[o["mode"]]
    out += {"A": ["--anchorsonly"], "Y": [], "y": ["--allowvaluealiases"], "l": ["--allowaliases"]}[o["am"]]
    if o["refs"]:
        out.append("--refnames")
    if o["expand"]:
        out.append("--expand")
    return out


_NS = {}


def namespace(n, sep):
    """argparse Namespace produced by the tool's own parser for option combination n."""
    key = (n, sep)
    if key not in _NS:
        from yamlpath.commands import yaml_paths as yp
        old = sys.argv
        sys.argv = ["yaml-paths", "--search", "=x"] + flags(n, sep) + ["-"]
        try:
            _NS[key] = yp.processcli()
        finally:
            sys.argv = old
    return _NS[key]


def kwargs_like_main(args):
    """main(), yaml_paths.py:885-902, verbatim in effect."""
    from yamlpath.enums import IncludeAliases
    search_values = True
    search_keys = False
    include_key_aliases = False
    include_value_aliases = False
    if args.onlykeynames:
        search_values = False
        search_keys = True
    elif args.keynames:
        search_keys = True
    if args.include_aliases is IncludeAliases.INCLUDE_ALL_ALIASES:
        include_key_aliases = True
        include_value_aliases = True
    elif args.include_aliases is IncludeAliases.INCLUDE_KEY_ALIASES:
        include_key_aliases = True
    elif args.include_aliases is IncludeAliases.INCLUDE_VALUE_ALIASES:
        include_value_aliases = True
    return {"search_values": search_values, "search_keys": search_keys, "search_anchors": args.refnames,
            "include_key_aliases": include_key_aliases, "include_value_aliases": include_value_aliases,
            "decrypt_eyaml": args.decrypt, "expand_children": args.expand}


# --------------------------------------------------------------------------- recording Searches.search_anchor
class _SearchesProxy:
    """Stands in for the name `Searches` inside yamlpath.commands.yaml_paths; records search_anchor verdicts."""

    def __init__(self, real):
        self._real = real
        self.log = []

    def __getattr__(self, name):
        return getattr(self._real, name)

    def search_anchor(self, node, terms, seen_anchors, **kwargs):
        res = self._real.search_anchor(node, terms, seen_anchors, **kwargs)
        if res.name != "NO_ANCHOR":
            self.log.append([str(node.anchor.value), res.name])
        return res


_PROXY = None


def _proxy():
    global _PROXY
    from yamlpath.commands import yaml_paths as yp
    if _PROXY is None or yp.Searches is not _PROXY:
        real = yp.Searches._real if isinstance(yp.Searches, _SearchesProxy) else yp.Searches
        _PROXY = _SearchesProxy(real)
        yp.Searches = _PROXY
    return _PROXY


def parse_expr(expr):
    """(inverted, operator, term) an expression spells (spec: Expr)."""
    inv = expr.startswith("!")
    rest = expr[1:] if inv else expr
    for op in ("=~", "<=", ">=", "=", "^", "$", "%", "<", ">"):
        if rest.startswith(op):
            term = rest[len(op):]
            if op == "=~" and len(term) >= 2 and term[0] == term[-1]:
                term = term[1:-1]
            elif op != "=~":
                term = re.sub(r"\\(.)", r"\1", term)      # a backslash escape spells the character after it
            return inv, op, term
    raise ValueError(expr)


def terms_of(expr):
    """The real get_search_term; returns (terms object or None, (inverted, operator, term) it holds)."""
    from yamlpath.commands import yaml_paths as yp
    terms = yp.get_search_term(absdoc.LOG, expr)
    if terms is None:
        return None, None
    return terms, (bool(terms.inverted), str(terms.method), str(terms.term))


def run_search(data, expr, n, sep, terms=None):
    """Returns dict(out='ok'|'badexpr'|'crash:<Exc>', paths=[printed path...], log=[[anchor, verdict]...], msg)."""
    from yamlpath.commands import yaml_paths as yp
    from yamlpath.common import Anchors
    from yamlpath.eyaml import EYAMLProcessor
    args = namespace(n, sep)
    kw = kwargs_like_main(args)
    if terms is None:
        terms, _ = terms_of(expr)
        if terms is None:
            return {"out": "badexpr", "paths": [], "log": []}
    prox = _proxy()
    prox.log = []
    processor = EYAMLProcessor(absdoc.LOG, None, binary=args.eyaml, publickey=args.publickey, privatekey=args.privatekey)
    processor.data = data
    all_anchors = {}
    paths = []
    try:
        Anchors.scan_for_anchors(data, all_anchors)
        for res in yp.search_for_paths(absdoc.LOG, processor, data, terms, args.pathsep, all_anchors=all_anchors, **kw):
            paths.append(str(res))
        return {"out": "ok", "paths": paths, "log": prox.log, "kw": kw}
    except RecursionError:
        return {"out": "crash:RecursionError", "paths": paths, "log": prox.log, "msg": "RecursionError", "kw": kw}
    except Exception as ex:  # pylint: disable=broad-except
        import traceback
        tb = traceback.extract_tb(ex.__traceback__)
        where = next((f for f in reversed(tb) if "/yamlpath/" in f.filename), tb[-1])
        return {"out": "crash:" + type(ex).__name__, "paths": paths, "log": prox.log, "kw": kw,
                "msg": "%s: %s @ %s:%d %s" % (type(ex).__name__, ex, where.filename.split("/yamlpath/")[-1], where.lineno, where.name)}


# --------------------------------------------------------------------------- printed path -> places
def _key_eq(a, b):
    try:
        return type(a) is type(b) and a == b or (isinstance(a, str) and isinstance(b, str) and str(a) == str(b)) \
            or (not isinstance(a, bool) and not isinstance(b, bool) and isinstance(a, (int, float)) and isinstance(b, (int, float)) and a == b)
    except Exception:  # pylint: disable=broad-except
        return False


def place_of(loc, hit):
    """Id of the place (parent, parentref) of a hit designates; 0 = none, negative = holds another object."""
    node, parent, ref = hit.node, hit.parent, hit.ref
    if parent is None:
        return 1 if node is loc.data else 0
    kids = loc.by_parent.get(id(parent), ())
    if not kids:
        return 0
    pk = loc.doc[loc.doc[kids[0] - 1]["par"] - 1]["k"]
    if pk == "seq":
        if not isinstance(ref, int) or isinstance(ref, bool):
            return 0
        if ref < 0:
            ref += len(kids)
        if not 0 <= ref < len(kids):
            return 0
        i = kids[ref]
        return i if loc.pos[i - 1][0] is node else -i
    if pk == "map":
        for i in kids:
            if _key_eq(loc.pos[i - 1][2], ref):
                return i if loc.pos[i - 1][0] is node else -i
        for i in kids:      # a key given by its text (int key named "0")
            if str(loc.pos[i - 1][2]) == str(ref):
                return i if loc.pos[i - 1][0] is node else -i
        return 0
    for i in kids:          # set: the member itself
        m = loc.pos[i - 1][0]
        if m is node or (_key_eq(m, node)) or str(m) == str(ref):
            return i
    return 0


class Resolver:
    """Re-resolution of printed paths on one loaded document (cached: it does not depend on the search options)."""

    def __init__(self, data, sx=None):
        self.data = data
        self.loc = absdoc.Locator(data)
        self.cache = {}
        self.sx = sx if has_side(sx) else None
        self.ymk = ymk_ids(self.loc, sx) if self.sx else {}

    def resolve(self, text):
        """dict(out, ids=[place ids in document order], hits=[Hit], same=all hits are one object)."""
        if text not in self.cache:
            r = queryobs.run_query(self.data, self.loc, text, "must")
            hits = r["hits"]
            ids = [self.ymk.get((id(h.parent), id(h.node))) or place_of(self.loc, h) for h in hits]
            same = all(h.node is hits[0].node for h in hits) if hits else True
            self.cache[text] = {"out": r["out"], "ids": ids, "hits": hits, "same": same, "virt": r["virt"], "msg": r.get("msg", "")}
        return self.cache[text]


# --------------------------------------------------------------------------- documents with a side structure
# (spec/YPathsSearch.tla: kanchor / kalias / merges / merged next to the YData node table; absdoc's table is unchanged)
def no_side(doc):
    return {"kanchor": [""] * len(doc), "kalias": [], "merges": [[] for _ in doc], "merged": []}


def has_side(sx):
    return bool(sx) and (any(sx["kanchor"]) or any(sx["merges"]) or bool(sx["merged"]))


def concretise_side(doc, sx, style="block", plain=False, merge_first=True):
    """Node table + side structure -> YAML text: `&k key:` / `*k :` for anchored / aliased keys, `<<: *m` for a merge
    (merged-in pairs are not written: the loader produces them)."""
    merged = set(sx["merged"])
    kalias = set(sx["kalias"])

    def key_text(n, j):
        c = n["kids"][j]
        a = sx["kanchor"][c - 1]
        if a and c in kalias:
            return "*%s " % a
        txt = absdoc._key_text(n["keys"][j], plain)
        return ("&%s %s" % (a, txt)) if a else txt

    def pairs(i):
        n = doc[i - 1]
        own = [("k", j) for j in range(len(n["kids"])) if n["kids"][j] not in merged]
        refs = [("m", t) for t in sx["merges"][i - 1]]
        return refs + own if merge_first else own + refs

    def mref(ts):
        return "*%s" % doc[ts - 1]["anchor"]

    def flow(i):
        n = doc[i - 1]
        pre = ("&%s " % n["anchor"]) if n["anchor"] and n["k"] != "s" else ""
        if n["k"] == "map":
            return pre + "{" + ", ".join(("<<: %s" % mref(x)) if w == "m" else "%s: %s" % (key_text(n, x), flow(n["kids"][x]))
                                         for w, x in pairs(i)) + "}"
        if n["k"] == "seq":
            return pre + "[" + ", ".join(flow(c) for c in n["kids"]) + "]"
        if n["k"] == "set":
            return pre + "!!set {" + ", ".join("? " + flow(c) for c in n["kids"]) + "}"
        return absdoc._scalar_text(n, plain)

    def block(i, ind, lines, lead):
        n = doc[i - 1]
        pad = "  " * ind
        pre = (" &%s" % n["anchor"]) if n["anchor"] and n["k"] != "s" else ""
        ps = pairs(i) if n["k"] == "map" else None
        if n["k"] == "s":
            lines.append("%s%s %s" % (pad, lead, absdoc._scalar_text(n, plain)) if lead else pad + absdoc._scalar_text(n, plain))
        elif (not ps) if n["k"] == "map" else (not n["kids"]):
            empty = {"map": "{}", "seq": "[]", "set": "!!set {}"}[n["k"]]
            lines.append(("%s%s%s %s" % (pad, lead, pre, empty)) if lead else pad + (pre.strip() + " " if pre else "") + empty)
        else:
            tag = " !!set" if n["k"] == "set" else ""
            if lead:
                lines.append("%s%s%s%s" % (pad, lead, pre, tag))
                ind2 = ind + 1
            else:
                if pre or tag:
                    lines.append(pad + (pre + tag).strip())
                ind2 = ind
            pad2 = "  " * ind2
            if n["k"] == "map":
                for w, x in ps:
                    if w == "m":
                        lines.append("%s<<: %s" % (pad2, mref(x)))
                    else:
                        block(n["kids"][x], ind2, lines, key_text(n, x) + ":")
            elif n["k"] == "seq":
                for c in n["kids"]:
                    block(c, ind2, lines, "-")
            else:
                for c in n["kids"]:
                    lines.append("%s? %s" % (pad2, absdoc._scalar_text(doc[c - 1], plain)))

    if style == "flow":
        return flow(1) + "\n"
    lines = ["---"]
    block(1, 0, lines, "")
    return "\n".join(lines) + "\n"


def shape_problems(data, doc, sx):
    """Does the loaded object graph have the shape the model says?  The node table (merged-in pairs included, after
    the own pairs), which keys carry which anchor, which keys are aliases (the very same key object as an earlier key),
    what each hash merges (the very objects at those positions), which pairs are merged-in."""
    out = []
    real, pos = absdoc.abstract(data, with_positions=True)
    if not absdoc.same_table(real, doc):
        return ["node table differs"]
    kanchor, kalias, merged = [""] * len(doc), [], []
    merges = [[] for _ in doc]
    seen_keys = {}
    obj_at = {i: pos[i - 1][0] for i in range(1, len(doc) + 1)}
    for i, n in enumerate(doc, 1):
        if n["k"] != "map":
            continue
        m = obj_at[i]
        own = [k for k, _ in m.non_merged_items()] if hasattr(m, "non_merged_items") else list(m.keys())
        for j, (k, c) in enumerate(zip(m.keys(), n["kids"])):
            a = absdoc.anchor_of(k)
            kanchor[c - 1] = a
            if a:
                seen_keys.setdefault(id(k), []).append(c)
            if not any(k is o for o in own):
                merged.append(c)
        for _, ref in (getattr(m, "merge", None) or []):
            t = [x for x in range(1, i) if obj_at[x] is ref]
            merges[i - 1].append(t[0] if t else 0)
    for cs in seen_keys.values():       # one key object at several places: the first in document order defines it
        kalias.extend(sorted(cs)[1:])
    if kanchor != list(sx["kanchor"]):
        out.append("key anchors %s, model %s" % (kanchor, sx["kanchor"]))
    if sorted(kalias) != sorted(sx["kalias"]):
        out.append("aliased keys %s, model %s" % (sorted(kalias), sx["kalias"]))
    if merges != [list(x) for x in sx["merges"]]:
        out.append("merges %s, model %s" % (merges, sx["merges"]))
    if sorted(merged) != sorted(sx["merged"]):
        out.append("merged-in pairs %s, model %s" % (sorted(merged), sx["merged"]))
    return out


def merge_unfilled(data):
    """ruamel.yaml copies the pairs of a merged hash when the merging hash is constructed; a hash anchored inside a
    nested list is filled only later, so the merging hash stays without those pairs (a property of the loader, seen
    for [[&m {..}], {<<: *m}]).  Such a text does not load to the document the model describes: it is skipped."""
    def walk(x):
        if isinstance(x, dict):
            for _, ref in (getattr(x, "merge", None) or []):
                if any(k not in x for k in ref):
                    return True
            return any(walk(v) for v in x.values())
        if isinstance(x, list):
            return any(walk(v) for v in x)
        return False
    return walk(data)


def ymk_ids(loc, sx):
    """(id of the merging hash object, id of the merged hash object) -> the model's position id of that `<<` reference."""
    out = {}
    k = len(loc.doc)
    for u, refs in enumerate(sx["merges"], 1):
        for t in refs:
            k += 1
            out[(id(loc.pos[u - 1][0]), id(loc.pos[t - 1][0]))] = k
    return out


# --------------------------------------------------------------------------- the tool in-process
def run_main(argv, stdin_text=""):
    """yaml_paths.main() with argv; returns (exit code, stdout lines, stderr text)."""
    from yamlpath.commands import yaml_paths as yp
    _proxy()
    import yamlpath.common.parsers as parsers_mod
    out, err = io.StringIO(), io.StringIO()
    old = sys.argv
    old_in, old_pin = sys.stdin, parsers_mod.stdin
    sys.argv = ["yaml-paths"] + list(argv)
    if stdin_text:
        # the loader reads the name `stdin` it imported; main() asks sys.stdin whether it is a terminal
        sys.stdin = parsers_mod.stdin = io.StringIO(stdin_text)
    code = 0
    try:
        with contextlib.redirect_stdout(out), contextlib.redirect_stderr(err):
            try:
                yp.main()
            except SystemExit as ex:
                code = ex.code if isinstance(ex.code, int) else (0 if ex.code is None else 1)
    finally:
        sys.argv = old
        sys.stdin, parsers_mod.stdin = old_in, old_pin
    text = out.getvalue()
    return code, (text.split("\n")[:-1] if text else []), err.getvalue()
