"""C01 - query results equal the documented segment semantics.

S->C: TLC (MC_Query) enumerates every document of the generator up to the node
bound, derives the path vocabulary of each, evaluates the declarative selection
Sel (spec/YQuery.tla) for every path, checks the design theorems on it, and
emits the expected positions.  Each case is replayed into the real Processor:
required-match query in dot and slash notation, exists(), and the optional-match
query when the path exists.  Projection: the very node objects at the expected
positions, in order; the existence boolean; unmatched / YAML-Path-error outcome.
Cases that touch a rule the documentation leaves open are tagged informational
by the model and never give a verdict.
"""
import json
import os
import random

from harness import core, querycorpus

LEVEL = "model_checking"


def judge_doc(doc, cases, variants):
    from harness import absdoc, queryobs
    out = []   # (kind, sig, desc, replay) or ("stat", ...)
    stats = {"cases": 0, "verdict": 0, "info": 0, "info_mismatch": 0, "nontrivial": 0}
    for style, plain in variants:
        text = absdoc.concretise(doc, style, plain)
        state = {"data": None, "loc": None}

        def fresh():
            state["data"] = absdoc.load(text)
            state["loc"] = absdoc.Locator(state["data"])
            # ONE Processor answers every query on this document (a query is a function of document and path in the
            # specification: nothing an earlier query did may show); C02 / C15 use a fresh Processor per query
            from yamlpath import Processor
            state["proc"] = Processor(absdoc.LOG, state["data"])
            if not absdoc.same_table(state["loc"].doc, doc):
                raise core.MachineryError("concretisation does not reload to the abstract document: %r" % text)

        fresh()
        for c in cases:
            stats["cases"] += 1
            tag_info = c["info"]
            stats["info" if tag_info else "verdict"] += 1
            if c["n"] > 0:
                stats["nontrivial"] += 1
            exp_out = "yperr" if c["err"] else ("ok" if c["n"] > 0 else "unmatched")
            problems = []
            for mode, ptxt in (("must", c["dot"]), ("must", c["sl"]), ("exists", c["dot"]), ("opt", c["dot"])):
                if mode == "opt" and (exp_out != "ok" or c["dead"]):
                    continue      # optional-match is only comparable when no branch would need creating
                data, loc = state["data"], state["loc"]
                r = queryobs.run_query(data, loc, ptxt, mode, proc=state["proc"])
                label = "%s:%s" % (mode, "sl" if ptxt is c["sl"] and c["sl"] != c["dot"] else "dot")
                if r["out"].startswith("crash"):
                    problems.append(("crash", label, r["msg"]))
                elif mode == "exists":
                    if r["out"] != "ok":
                        if exp_out != "yperr":
                            problems.append(("exists", label, "exists() raised %s" % r.get("msg", "")))
                    elif exp_out == "yperr":
                        problems.append(("exists", label, "exists()=%s, expected a YAML Path error" % r["exists"]))
                    elif r["exists"] != (exp_out == "ok"):
                        problems.append(("exists", label, "exists()=%s, expected %s" % (r["exists"], exp_out == "ok")))
                elif mode == "opt":
                    if r["out"] != "ok" or not queryobs.same_nodes(loc, r["hits"], c["ids"]) or r["n"] != c["n"]:
                        problems.append(("optional", label, "optional-match gave %s %s (n=%d), required-match semantics give %s (n=%d)" % (
                            r["out"], queryobs.describe(loc, r["hits"]), r["n"], c["ids"], c["n"])))
                else:
                    if r["out"] == "ok" and r["n"] == 0:
                        r["out"] = "unmatched"      # a null document answers nothing without raising
                    if r["out"] != exp_out:
                        problems.append(("outcome", label, "expected %s, got %s %s" % (exp_out, r["out"], r.get("msg", ""))))
                    elif r["out"] == "ok" and (not queryobs.same_nodes(loc, r["hits"], c["ids"]) or r["n"] != c["n"]):
                        problems.append(("nodes", label, "expected positions %s (n=%d), got %s (n=%d)" % (
                            c["ids"], c["n"], queryobs.describe(loc, r["hits"]), r["n"])))
                if mode == "opt" or r["out"].startswith("crash") or r["out"] == "yperr":
                    # an optional-match query may legitimately create; after it (or after any abnormal end) the
                    # document is compared and re-loaded when it changed, so one case cannot pollute the next
                    if not absdoc.same_table(absdoc.abstract(state["data"]), doc):
                        fresh()
            if problems:
                if tag_info:
                    stats["info_mismatch"] += 1
                else:
                    kind = problems[0][0]
                    where = problems[0][2].split(" @ ")[-1] if kind == "crash" else ""
                    sig = "%s:%s:%s%s" % (kind, c["ty"] or "ROOT", doc[0]["k"], (":" + where) if where else "")
                    out.append((sig, "doc %s path %r: %s" % (text.replace("\n", "|"), c["dot"], "; ".join("%s %s" % (p[1], p[2]) for p in problems)),
                                {"kind": "query", "doc": doc, "style": style, "plain": plain, "case": c}))
        # reads must not have changed the document (C09 decides that; here it protects the comparison)
        if not absdoc.same_table(absdoc.abstract(state["data"]), doc):
            stats["polluted"] = stats.get("polluted", 0) + 1
    return out, stats


def _work(items):
    res = []
    for doc, cases, variants in items:
        res.append(judge_doc(doc, cases, variants))
    return res


def run(ctx):
    cfgs = ["MC_Query_q1.cfg", "MC_Query_q2.cfg", "MC_Query_num.cfg"] if ctx.quick else ["MC_Query_t1.cfg", "MC_Query_t2.cfg", "MC_Query_num.cfg"]
    corpus = querycorpus.tlc_corpus(ctx, "MC_Query", cfgs)
    # C->S beyond the bound: seeded random documents (<= 25 nodes, depth <= 4) and paths of 1-4 segments;
    # TLC (Batch_Query) evaluates Sel and writes the texts; the cases join the same replay
    import random
    from harness import randdocs
    rng = random.Random(ctx.seed)
    n_docs = 400 if ctx.quick else 4000
    recs = []
    for i in range(n_docs):
        d = randdocs.rand_doc(rng)
        for j in range(12):
            recs.append({"id": len(recs), "doc": d, "segs": randdocs.rand_path(rng, d)})
    rnd = {}
    for part in [recs[i:i + 1200] for i in range(0, len(recs), 1200)]:
        rin, rout = ctx.path("rand_%d.in.json" % part[0]["id"]), ctx.path("rand_%d.out.json" % part[0]["id"])
        with open(rin, "w") as fh:
            json.dump(part, fh)
        core.run_tlc(ctx, "Batch_Query", "Batch_Query.cfg", env={"RECORDS_IN": rin, "VERDICTS_OUT": rout}, workers=1,
                     name="rand_%d" % part[0]["id"], timeout=3600)
        with open(rout) as fh:
            for o in json.load(fh):
                d = recs[o["id"]]["doc"]
                rnd.setdefault(id(d), [d, []])[1].append(o["c"])
        os.remove(rin)
    corpus += [(d, cs) for d, cs in rnd.values()]
    ctx.coverage["random_cases_beyond_bound"] = len(recs)
    items = [(d, cs, querycorpus.variant_of(d, ctx.seed, ctx.quick)) for d, cs in corpus]
    tot = {"cases": 0, "verdict": 0, "info": 0, "info_mismatch": 0, "nontrivial": 0, "polluted": 0}
    for out, stats in querycorpus.pmap(_work, items, chunk=8):
        for k in tot:
            tot[k] += stats.get(k, 0)
        for sig, desc, rp in out:
            ctx.violation(sig, desc, rp)
    ctx.informational = tot["info"]
    ctx.coverage.update({
        "evaluations": tot["cases"], "distinct_nontrivial": tot["nontrivial"],
        "documents": len(corpus),
        "rule": "every document of the generator (MC_Query cfgs) x its path vocabulary; each case = required query in both notations + exists + optional query when the path exists; non-trivial = the path selects at least one node",
        "traces_validated_against_impl": tot["cases"], "verdict_cases": tot["verdict"],
        "informational_cases": tot["info"], "model_drift": tot["info_mismatch"], "exhaustive": True, "documents_changed_by_reads": tot["polluted"],
        "samples": [{"doc": corpus[len(corpus) // 2][0], "case": corpus[len(corpus) // 2][1][0]}] if corpus else [],
        "trusted_base": ["TLC 1.8", "spec/YQuery.tla Sel as the reading of README/CHANGES", "harness/absdoc.py concretise/abstract"],
    })
    ctx.assumptions += ["documents are concretised as YAML text and loaded by yamlpath's own loader",
                        "node identity is object identity at the expected position"]


def replay(path):
    with open(path) as fh:
        rp = json.load(fh)["replay"]
    out, _ = judge_doc(rp["doc"], [rp["case"]], [(rp["style"], rp["plain"])])
    for sig, desc, _ in out:
        print(sig, "::", desc)
    print("VIOLATION property=C01 replay=%s" % path if out else "no violation")
    return 1 if out else 0
