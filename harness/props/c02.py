"""C02 - every result locates its node: coordinates and reported path re-resolve.

Corpus: the (document, path) cases TLC emits from MC_Query (general documents incl.
an anchored scalar with aliases; one- and two-segment paths; keyword segments)
plus a configuration whose map keys are drawn from the escapable punctuation.
The specification supplies, per case, which positions the query designates; the
harness evaluates the four relations of C02 on every real, non-virtual result:
  R1  parent[parentref] is the node (set member: the parent set contains it)
  R2  the ancestry chain walks from the document root to (parent, parentref)
  R3  str(result.path), in dot and in slash notation, evaluated on the same
      document returns exactly that node (once per alias place when the path
      names it by its anchor)
  R4  evaluating the same query again yields equal coordinates (nothing shared
      was mutated)
"""
import json

from harness import core, querycorpus

LEVEL = "model_checking"


def _walk_ancestry(root, ancestry):
    """Does the chain start at the root and step child by child? returns (ok, last_container, last_ref)."""
    if not ancestry:
        return True, None, None
    cur = root
    for k, (anc, ref) in enumerate(ancestry):
        if anc is not cur:
            return False, None, None
        if k + 1 < len(ancestry):
            try:
                if isinstance(anc, (set,)) or type(anc).__name__ == "CommentedSet":
                    return False, None, None
                cur = anc[ref]
            except Exception:  # pylint: disable=broad-except
                return False, None, None
    return True, ancestry[-1][0], ancestry[-1][1]


def check_hit(data, loc, h, query_text):
    """Relations R1-R3 for one hit; returns list of (relation, message)."""
    from yamlpath import YAMLPath
    from yamlpath.enums import PathSeparators
    from harness import queryobs
    bad = []
    nc = h.nc
    node, parent, ref = h.node, h.parent, h.ref
    is_root = parent is None
    # R1
    if is_root:
        if node is not data:
            bad.append(("R1", "no parent but the node is not the document root"))
    else:
        try:
            if type(parent).__name__ == "CommentedSet" or isinstance(parent, set):
                ok = any(m is node or (type(m) is type(node) and m == node) for m in parent)
            else:
                ok = parent[ref] is node
        except Exception as ex:  # pylint: disable=broad-except
            ok = False
        if not ok:
            bad.append(("R1", "parent[%r] is not the returned node" % (ref,)))
    # R2
    anc = list(nc.ancestry or [])
    ok, last_c, last_r = _walk_ancestry(data, anc)
    if is_root:
        if anc:
            bad.append(("R2", "root result with a non-empty ancestry"))
    elif not ok:
        bad.append(("R2", "ancestry does not walk from the document root"))
    elif last_c is not parent or not (last_r is ref or last_r == ref):
        bad.append(("R2", "ancestry ends at %r, not at the result's parent/parentref %r" % (last_r, ref)))
    # R3
    here = loc.find_identity(node)
    for sepname, sep in (("dot", PathSeparators.DOT), ("slash", PathSeparators.FSLASH)):
        try:
            p = YAMLPath(nc.path)
            p.separator = sep
            text = str(p)
        except Exception as ex:  # pylint: disable=broad-except
            bad.append(("R3", "reported path cannot be stringified: %s" % ex))
            continue
        if sepname == "dot" and text.startswith("/"):
            continue    # not expressible in dot notation (see C08)
        r = queryobs.run_query(data, loc, text, "must")
        got = [x for x in r["hits"]]
        by_anchor = "&" in text
        if r["out"] != "ok" or not got:
            bad.append(("R3", "reported path %r (%s) gives %s" % (text, sepname, r["out"])))
        elif not all(g.node is node for g in got):
            bad.append(("R3", "reported path %r (%s) resolves to other nodes too: %s" % (text, sepname, queryobs.describe(loc, got))))
        elif len(got) != 1 and not (by_anchor and len(got) == len(here)):
            bad.append(("R3", "reported path %r (%s) resolves %d times" % (text, sepname, len(got))))
    return bad


def judge_doc(doc, cases, variants):
    from harness import absdoc, queryobs
    out = []
    stats = {"cases": 0, "results": 0, "nontrivial": 0}
    for style, plain in variants:
        text = absdoc.concretise(doc, style, plain)
        data = absdoc.load(text)
        loc = absdoc.Locator(data)
        if not absdoc.same_table(loc.doc, doc):
            raise core.MachineryError("concretisation does not reload to the abstract document: %r" % text)
        for c in cases:
            if c["err"] or c["n"] == 0 or c.get("names") or "COLLECTOR" in c["ty"]:
                continue        # collector results are virtual: outside C02's statement ("designate no single node")
            stats["cases"] += 1
            # the query itself in dot or in slash notation (the reported path must not depend on how the query was spelled);
            # which one: by case index, so both notations meet every segment kind and document family
            qtext = c["sl"] if (stats["cases"] + len(doc)) % 2 else c["dot"]
            r = queryobs.run_query(data, loc, qtext, "must")
            if r["out"] != "ok":
                continue            # C01 / C15 decide outcomes
            r2 = queryobs.run_query(data, loc, qtext, "must")
            problems = []
            for k, h in enumerate(r["hits"]):
                if h.member or isinstance(h.node, type(None)) and False:
                    continue        # members of virtual results designate no single coordinate set
                stats["results"] += 1
                for rel, msg in check_hit(data, loc, h, qtext):
                    problems.append((rel, msg))
                # R4: second evaluation gives equal coordinates
                if r2["out"] == "ok" and k < len(r2["hits"]):
                    h2 = r2["hits"][k]
                    try:
                        p1, p2 = str(h.nc.path), str(h2.nc.path)
                    except Exception as ex:  # pylint: disable=broad-except
                        p1, p2 = "<unprintable: %s>" % type(ex).__name__, ""    # R3 reports it
                    if p2 and (h2.parent is not h.parent or p2 != p1 or len(h2.nc.ancestry or []) != len(h.nc.ancestry or [])):
                        problems.append(("R4", "second evaluation reports path %r / ancestry length %d, first %r / %d" % (
                            p2, len(h2.nc.ancestry or []), p1, len(h.nc.ancestry or []))))
            if r["hits"]:
                stats["nontrivial"] += 1
            if problems:
                rels = sorted({p[0] for p in problems})
                last = c["ty"].split("+")[-1]
                for rel in rels:
                    msg = next(p[1] for p in problems if p[0] == rel)
                    sig = "%s:%s:%s" % (rel, c["ty"], _parent_kind(doc, c))
                    out.append((sig, "doc %s query %r: %s" % (text.replace("\n", "|"), qtext, msg),
                                {"kind": "query", "doc": doc, "style": style, "plain": plain, "case": c}))
            if not absdoc.same_table(absdoc.abstract(data), doc):
                data = absdoc.load(text)
                loc = absdoc.Locator(data)
    return out, stats


def _parent_kind(doc, c):
    ks = sorted({doc[doc[i - 1]["par"] - 1]["k"] if doc[i - 1]["par"] else "root" for i in c["ids"] if 0 < i <= len(doc)})
    return "+".join(ks) or "none"


def _work(items):
    return [judge_doc(d, cs, v) for d, cs, v in items]


def run(ctx):
    cfgs = ["MC_Query_q1.cfg", "MC_Query_q2.cfg", "MC_Query_punct.cfg"] if ctx.quick else \
           ["MC_Query_t1.cfg", "MC_Query_t2.cfg", "MC_Query_punct_t.cfg", "MC_Query_c15t.cfg"]
    corpus = querycorpus.tlc_corpus(ctx, "MC_Query", cfgs)
    corpus += querycorpus.tlc_corpus(ctx, "MC_Keywords", ["MC_Keywords_q.cfg"] if ctx.quick else ["MC_Keywords_t.cfg"])
    items = [(d, cs, querycorpus.variant_of(d, ctx.seed, ctx.quick)) for d, cs in corpus]
    tot = {"cases": 0, "results": 0, "nontrivial": 0}
    for out, stats in querycorpus.pmap(_work, items, chunk=8):
        for k in tot:
            tot[k] += stats[k]
        for sig, desc, rp in out:
            ctx.violation(sig, desc, rp)
    ctx.coverage.update({
        "evaluations": tot["results"], "distinct_nontrivial": tot["nontrivial"], "documents": len(corpus), "queries": tot["cases"],
        "rule": "every non-virtual result of every matching query of the MC_Query / MC_Keywords corpora (incl. punctuation keys); each result = relations R1-R4; non-trivial = queries with at least one real result",
        "traces_validated_against_impl": tot["results"], "exhaustive": True,
        "samples": [{"doc": corpus[len(corpus) // 2][0], "case": corpus[len(corpus) // 2][1][1]}] if corpus else [],
        "trusted_base": ["TLC 1.8", "object identity in the loaded ruamel graph"],
    })


def replay(path):
    with open(path) as fh:
        rp = json.load(fh)["replay"]
    out, _ = judge_doc(rp["doc"], [rp["case"]], [(rp["style"], rp["plain"])])
    for sig, desc, _ in out:
        print(sig, "::", desc)
    print("VIOLATION property=C02 replay=%s" % path if out else "no violation")
    return 1 if out else 0
