"""C03 - edit histories replayed against the plain-data model (see harness/editobs.py and spec/YEdit.tla, spec/MC_Edit.tla)."""
from harness import editobs

LEVEL = "model_checking"
OPS = {"c03": {"set_must", "set_opt_existing"}, "c04": {"delete"}}["c03"]


def run(ctx):
    ops = {"set_must"} if "c03" == "c03" else {"delete"}
    # MC_Edit_alias: one alias_nodes step (beyond the listed properties: counted only), then a set on the document it left -
    # aliases made at run time must follow a set exactly like aliases that were loaded
    editobs.run_histories(ctx, ops, "C03", ["MC_Edit_q.cfg", "MC_Edit_alias.cfg"] if ctx.quick else ["MC_Edit_t.cfg", "MC_Edit_alias.cfg"],
                          info_ops={"alias"})
    editobs.random_histories(ctx, "C03", 600 if ctx.quick else 6000, 8)


def replay(path):
    return editobs.replay_file(path, "C03")
