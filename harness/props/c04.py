"""C04 - edit histories replayed against the plain-data model (see harness/editobs.py and spec/YEdit.tla, spec/MC_Edit.tla)."""
from harness import editobs

LEVEL = "model_checking"
OPS = {"c03": {"set_must", "set_opt_existing"}, "c04": {"delete"}}["c04"]


def _matched(items):
    """Positions the real query designates for each (doc, path) - incl. repeats and nested matches."""
    from harness import absdoc, queryobs
    out = []
    for doc, dot in items:
        data = absdoc.load(absdoc.concretise(doc))
        loc = absdoc.Locator(data)
        r = queryobs.run_query(data, loc, dot, "must")
        if r["out"] != "ok" or not r["hits"]:
            continue
        ids = []
        ok = True
        for h in r["hits"]:
            i = loc.locate(h.node, h.parent, h.ref)
            if i <= 0:
                ok = False
                break
            ids.append(i)
        if ok:
            out.append((doc, dot, ids))
    return out


def _delete(items):
    from harness import absdoc
    from yamlpath import Processor
    out = []
    for doc, dot, ids, exp in items:
        data = absdoc.load(absdoc.concretise(doc))
        proc = Processor(absdoc.LOG, data)
        oc, msg = editobs.apply_step(proc, {"op": "delete", "dot": dot})
        got = absdoc.abstract(proc.data)
        if exp["root"]:
            bad = None if (oc == "nodoc" and not editobs.diff_tables(got, doc)) else \
                "root is among the matches: expected a refusal and an unchanged document, got %s %s" % (oc, msg)
        elif oc != "ok":
            bad = "delete gave %s %s" % (oc, msg)
        else:
            d = editobs.diff_tables(got, exp["doc"])
            bad = ("%s | got %s" % (d, absdoc.concretise(got, "flow").strip())) if d else None
        if bad:
            out.append((doc, dot, ids, oc, bad))
    return out


def run(ctx):
    import json
    import os
    from harness import core, querycorpus
    # MC_Edit_alias: a delete on the document one alias_nodes step left (aliases made at run time)
    editobs.run_histories(ctx, {"delete"}, "C04", ["MC_Edit_q.cfg", "MC_Edit_alias.cfg"] if ctx.quick else ["MC_Edit_t.cfg", "MC_Edit_alias.cfg"])
    editobs.random_histories(ctx, "C04", 600 if ctx.quick else 6000, 8)
    # second layer: whatever a path matches on the real code (informational rules, repeats, nesting),
    # deleting must remove exactly those positions - DeleteNodes of the specification on the observed match set
    step = 7 if ctx.quick else 3
    pairs = []
    for corpus in querycorpus.stream_corpus(ctx, "MC_Query", ["MC_Query_q2.cfg"] if ctx.quick else ["MC_Query_t1.cfg", "MC_Query_t2.cfg"]):
        pairs += [(d, c["dot"]) for d, cs in corpus for k, c in enumerate(cs) if not c["err"] and (k + len(d)) % step == 0]
        del corpus
    # collectors: the matches are the members of the virtual result - among them, for the parent() families, the document root
    # (a refusal must leave the document whole however deep the root sits in the wrapped results)
    cstep = 5 if ctx.quick else 2
    n0 = len(pairs)
    seen_docs = set()
    for ccorpus in querycorpus.stream_corpus(ctx, "MC_Query", ["MC_Query_c15q.cfg"] if ctx.quick else ["MC_Query_c15t.cfg"]):
      pairs += [(d, c["dot"]) for d, cs in ccorpus for k, c in enumerate(cs)
                if "COLLECTOR" in c["ty"] and not c["err"] and ")-(" not in c["dot"] and (k + len(d)) % cstep == 0]
      for d, _ in ccorpus:
        dk = json.dumps(d, sort_keys=True)
        if dk in seen_docs:
            continue
        seen_docs.add(dk)
        root = d[0]
        if root["k"] == "map" and root["keys"]:
            ks = [k["v"] for k in root["keys"] if k["t"] == "str"]
            if ks:
                a, b = ks[0], ks[-1]
                pairs += [(d, "(%s[parent()])+(%s)" % (a, b)), (d, "((%s)+(%s[parent()]))+(%s)" % (b, a, b)), (d, "(%s)+(%s[parent()])" % (b, a))]
        elif root["k"] == "seq" and len(root["kids"]) >= 2:
            pairs += [(d, "([0][parent()])+([1])"), (d, "(([1])+([0][parent()]))+([1])"),
                      # positions named from both ends in one collector: deletions must not depend on how an index was spelled
                      (d, "([0])+([-1])"), (d, "([-1])+([0])"), (d, "([-2])+([1])+([0])")]
        # slices met beneath ** / * also by Arrays they do not reach into (an empty slice of an empty Array)
        if any(n["k"] == "seq" and not n["kids"] for n in d):
            pairs += [(d, "**[-2:5]"), (d, "**[0:1]"), (d, "*[-1:-1]"), (d, "**[-1:-1]")]
        # the same for a list held under a key
        for i, n in enumerate(d):
            if n["k"] == "seq" and n["par"] == 1 and root["k"] == "map" and len(n["kids"]) >= 2:
                key = root["keys"][root["kids"].index(i + 1)]
                if key["t"] == "str" and key["v"].isalnum():
                    pairs += [(d, "(%s[0])+(%s[-1])" % (key["v"], key["v"])), (d, "(%s[-1])+(%s[0])" % (key["v"], key["v"]))]
    n_coll = len(pairs) - n0
    matched = querycorpus.pmap(_matched, pairs, chunk=500)
    recs = [{"id": i, "doc": d, "ids": ids} for i, (d, dot, ids) in enumerate(matched)]
    exp = {}
    for part in [recs[i:i + 4000] for i in range(0, len(recs), 4000)]:
        rin, rout = ctx.path("del_%d.in.json" % part[0]["id"]), ctx.path("del_%d.out.json" % part[0]["id"])
        with open(rin, "w") as fh:
            json.dump(part, fh)
        core.run_tlc(ctx, "Batch_Edit", "Batch_Edit.cfg", env={"RECORDS_IN": rin, "VERDICTS_OUT": rout}, workers=1,
                     name="del_%d" % part[0]["id"], timeout=3600)
        with open(rout) as fh:
            for o in json.load(fh):
                exp[o["id"]] = o
        os.remove(rin)
    items = [(d, dot, ids, exp[i]) for i, (d, dot, ids) in enumerate(matched)]
    n_rep = sum(1 for _, _, ids in matched if len(set(ids)) < len(ids))
    for doc, dot, ids, oc, bad in querycorpus.pmap(_delete, items, chunk=500):
        from harness import absdoc
        kind = "crash" if oc == "crash" else "document"
        sig = "%s:delete-observed-matches:%s" % (kind, "repeated" if len(set(ids)) < len(ids) else "distinct")
        if oc == "crash":
            sig += ":" + bad.split(" @ ")[-1].split(" ")[-1]
        ctx.violation(sig, "delete %r on %s (matches %s): %s" % (dot, absdoc.concretise(doc, "flow").strip(), ids, bad),
                      {"kind": "observed", "doc": doc, "dot": dot})
    ctx.coverage["observed_match_deletes"] = len(items)
    ctx.coverage["observed_collector_paths_offered"] = n_coll
    ctx.coverage["observed_deletes_with_root_among_matches"] = sum(1 for it in items if it[3]["root"])
    ctx.coverage["observed_match_deletes_with_repeated_matches"] = n_rep
    ctx.coverage["evaluations"] += len(items)
    ctx.coverage["traces_validated_against_impl"] += len(items)


def replay(path):
    import json
    with open(path) as fh:
        rp = json.load(fh)["replay"]
    if rp.get("kind") != "observed":
        return editobs.replay_file(path, "C04")
    from harness import core
    ctx = core.Ctx("C04replay", "quick", 0)
    m = _matched([(rp["doc"], rp["dot"])])
    print("matches:", m)
    print("VIOLATION property=C04 replay=%s (re-run ./check C04 for the model's expectation)" % path)
    return 1
