"""C05 - merging two documents yields the policy-defined result for every option mix.

S->C: TLC (MC_Merge) enumerates pairs of documents (maps, lists, Arrays-of-Hashes,
sets, scalars, empty containers, type clashes at equal keys) with the generator
machine, evaluates the policy-defined result MergeRoot(l, r, cfg) of
spec/YMerge.tla for every configuration, checks the algebraic laws of C05 and
emits the expected document (or merge error) per group of configurations.
Each (pair, configuration) is replayed into Merger.merge_with; projection: the
merged data with key and element order, or the error class (MergeException vs
anything else).
"""
import json
import os

from harness import core, querycorpus

LEVEL = "model_checking"


def judge(rec, variants):
    from harness import absdoc, mergeobs, editobs
    out = []
    n = 0
    g = rec["group"]
    exp = g["res"]
    for style, plain in variants:
        for cfgname in g["cfgs"]:
            n += 1
            base, _, extra = cfgname.partition("#")
            kw = {}
            if extra.startswith("rule:"):
                k, m = extra[5:].split("=")
                kw["rules"] = {"/" + k: m}
            elif extra.startswith("key:"):
                k, m = extra[4:].split("=")
                kw["keys"] = {"/" + k: m}
            oc, got, _ = mergeobs.run_merge(rec["l"], rec["r"], "/".join(base.split("/")[:4]), style, plain, **kw)
            problem = None
            if oc == "crash":
                problem = ("crash", got)
            elif exp["ok"]:
                if oc != "ok":
                    problem = ("outcome", "expected a merged document, got %s %s" % (oc, got))
                else:
                    d = editobs.diff_tables(_strip(got), _strip(exp["out"]))
                    if d:
                        problem = ("document", "%s | got %s" % (d, absdoc.concretise(got, "flow").strip()))
            elif oc == "ok":
                problem = ("outcome", "expected a merge error, got the document %s" % absdoc.concretise(got, "flow").strip())
            if problem:
                if exp["info"]:
                    out.append(("info", problem[0] + (":" + problem[1][:150] if problem[0] == "crash" else ""), None, None))
                else:
                    lk, rk = rec["l"][0]["k"], rec["r"][0]["k"]
                    sig = "%s:%s<-%s:%s" % (problem[0], lk, rk, _dims(rec, cfgname))
                    if problem[0] == "crash":
                        sig += ":" + problem[1].split(" @ ")[-1].split(" ")[-1]
                    out.append((sig, "merge %s <- %s under %s: %s" % (
                        absdoc.concretise(rec["l"], "flow").strip(), absdoc.concretise(rec["r"], "flow").strip(), cfgname, problem[1]),
                        {"kind": "merge", "rec": rec, "cfg": cfgname, "style": style, "plain": plain}, None))
    return n, out


def _strip(tab):
    """Anchors are not part of C05's projection."""
    return [dict(n, anchor="", alias=0) for n in tab]


def _dims(rec, cfgname):
    """Which policy dimensions can matter for this pair (for a stable, informative signature)."""
    kinds = {n["k"] for n in rec["r"]}
    base, _, extra = cfgname.partition("#")
    h, a, o, s = base.split("/")[:4]
    parts = [extra.split(":")[0]] if extra else []
    if "map" in kinds:
        parts.append("hashes=" + h)
    if "seq" in kinds:
        aoh = any(n["k"] == "seq" and n["kids"] and rec["r"][n["kids"][0] - 1]["k"] == "map" for n in rec["r"])
        parts.append(("aoh=" + o) if aoh else ("arrays=" + a))
    if "set" in kinds:
        parts.append("sets=" + s)
    return ",".join(parts) or "scalar"


def _work(items):
    return [judge(rec, v) for rec, v in items]


def _plain(doc):
    """Anchors are not C05's subject: aliases become plain copies."""
    return [dict(n, anchor="", alias=0) for n in doc]


def _derive(rng, doc):
    """A right-hand document related to the left one: a copy with scalars changed, members dropped / added."""
    import copy
    from harness import absdoc, randdocs
    tree = absdoc.tree_of(doc)

    def walk(t):
        if t["k"] == "s":
            if rng.random() < 0.3:
                t["t"], t["v"] = rng.choice([("int", "7"), ("str", "zz"), ("str", "a"), ("null", ""), ("bool", "true")])
            return
        i = 0
        while i < len(t["kids"]):
            r = rng.random()
            if r < 0.15:
                del t["kids"][i]
                if t["k"] == "map":
                    del t["keys"][i]
                continue
            if t["k"] != "set":          # members of a Set stay distinct strings
                walk(t["kids"][i])
            i += 1
        if rng.random() < 0.4:
            new = absdoc.tree_of(_plain(randdocs.rand_doc(rng, max_nodes=5, max_depth=2)))
            if t["k"] == "map":
                k = {"t": "str", "v": rng.choice(randdocs.KEYS)}
                if k not in t["keys"]:
                    pos = rng.randint(0, len(t["kids"]))
                    t["keys"].insert(pos, k)
                    t["kids"].insert(pos, new)
            elif t["k"] == "seq":
                t["kids"].insert(rng.randint(0, len(t["kids"])), new if rng.random() < 0.5 else
                                 {"k": "s", "t": "int", "v": str(rng.randint(0, 3)), "kids": [], "keys": []})
    t = copy.deepcopy(tree)
    walk(t)
    return absdoc.table_of(t)


def random_pairs(ctx, n_pairs, per_pair):
    """C->S beyond the bound: seeded random pairs x random configurations; TLC (Batch_Merge) says what MergeDocs defines."""
    import random
    from harness import randdocs
    rng = random.Random(ctx.seed + 5)
    H, A, O, S = ["deep", "left", "right"], ["all", "left", "right", "unique"], ["all", "deep", "left", "right", "unique"], ["left", "right", "unique"]
    recs = []
    # a few fixed pairs the random draw met only in the thorough tier: a record without the identity key whose keys are not Strings
    from harness import absdoc
    for lraw, rraw in [([{"c": 1.5}], [{"c": 1.5}, {2: {}, "id": 1}]), ([{"id": 1, 3: "a"}], [{"id": 1}, {3: "b", 0: [1]}])]:
        for h in H:
            recs.append({"id": len(recs), "l": absdoc.table(lraw), "r": absdoc.table(rraw), "h": h, "a": "all", "o": "deep", "s": "unique", "am": "stop"})
    for i in range(n_pairs):
        l = _plain(randdocs.rand_doc(rng, max_nodes=14, max_depth=3))
        r = _plain(_derive(rng, l) if rng.random() < 0.6 else randdocs.rand_doc(rng, max_nodes=12, max_depth=3))
        for _ in range(per_pair):
            recs.append({"id": len(recs), "l": l, "r": r, "h": rng.choice(H), "a": rng.choice(A), "o": rng.choice(O), "s": rng.choice(S), "am": "stop"})
    exp = {}
    for part in [recs[i:i + 600] for i in range(0, len(recs), 600)]:
        rin, rout = ctx.path("rnd_%d.in.json" % part[0]["id"]), ctx.path("rnd_%d.out.json" % part[0]["id"])
        with open(rin, "w") as fh:
            json.dump(part, fh)
        core.run_tlc(ctx, "Batch_Merge", "Batch_Merge.cfg", env={"RECORDS_IN": rin, "VERDICTS_OUT": rout}, workers=1,
                     name="rnd_%d" % part[0]["id"], timeout=3600)
        with open(rout) as fh:
            for o in json.load(fh):
                exp[o["id"]] = o
        os.remove(rin)
        os.remove(rout)
    items = []
    for r in recs:
        e = exp[r["id"]]
        rec = {"key": "rnd%d" % r["id"], "l": r["l"], "r": r["r"],
               "group": {"res": {"ok": e["ok"], "info": e["info"], "out": e["out"]}, "cfgs": ["%s/%s/%s/%s" % (r["h"], r["a"], r["o"], r["s"])]}}
        items.append((rec, [("block", False)]))
    total = info = nontrivial = 0
    crashes, crash_ex = {}, {}
    for n, out in querycorpus.pmap(_work, items, chunk=100):
        total += n
        for sig, desc, rp, _ in out:
            if sig == "info":
                info += 1
                if desc and desc.startswith("crash"):
                    crashes[desc.split(" @ ")[-1]] = crashes.get(desc.split(" @ ")[-1], 0) + 1
                    crash_ex.setdefault(desc.split(" @ ")[-1], desc)
            else:
                ctx.violation("random:" + sig, desc, rp)
    for rec, _ in items:
        res = rec["group"]["res"]
        if res["ok"] and res["out"] not in (rec["l"], rec["r"]):
            nontrivial += 1
    return {"random_pairs": n_pairs, "random_merges": total, "random_nontrivial": nontrivial, "random_informational": info,
            "random_merge_errors_expected": sum(1 for rec, _ in items if not rec["group"]["res"]["ok"]),
            "random_informational_crashes": crashes, "random_informational_crash_examples": crash_ex}


def run(ctx):
    cfgs = ["MC_Merge_q.cfg"] if ctx.quick else ["MC_Merge_t.cfg", "MC_Merge_all.cfg"]
    recs = []
    cfgs = [("MC_Merge", c) for c in cfgs] + [("MC_MergeAoH", "MC_MergeAoH_q.cfg" if ctx.quick else "MC_MergeAoH_t.cfg"),
                                                    ("MC_MergeRules", "MC_MergeRules_q.cfg")]
    import hashlib
    total = info = 0
    pairs = set()
    nontrivial = 0
    nrecs = 0
    sample = None

    def handle(batch):
        nonlocal total, info, nontrivial
        items = [(rec, querycorpus.variant_of(rec["l"] + rec["r"], ctx.seed, ctx.quick)) for rec in batch]
        for n, out in querycorpus.pmap(_work, items, chunk=200):
            total += n
            for sig, desc, rp, _ in out:
                if sig == "info":
                    info += 1
                else:
                    ctx.violation(sig, desc, rp)
        for rec in batch:
            pairs.add(hashlib.md5(rec["key"].encode()).digest())
            if rec["group"]["res"]["ok"] and rec["group"]["res"]["out"] not in (rec["l"], rec["r"]):
                nontrivial += len(rec["group"]["cfgs"])

    # memory-bounded: the thorough configurations emit hundreds of MB of cases; they are read and replayed in batches
    for module, cfg in cfgs:
        f = ctx.path(cfg + ".cases")
        r = core.run_tlc(ctx, module, cfg, env={"CASES_OUT": f}, timeout=7200)
        if r["violated"]:
            raise core.MachineryError("%s violated in %s (see %s)" % (r["violated"], cfg, r["log"]))
        batch = []
        with open(f) as fh:
            for line in fh:
                line = line.strip()
                if not line:
                    continue
                x = json.loads(line)
                if isinstance(x, str):
                    x = json.loads(x)
                batch.append(x)
                nrecs += 1
                if sample is None or nrecs == 500:
                    sample = x
                if len(batch) >= 20000:
                    handle(batch)
                    batch = []
        if batch:
            handle(batch)
        os.remove(f)
    rnd = random_pairs(ctx, 500 if ctx.quick else 6000, 3)
    total += rnd["random_merges"]
    nontrivial += rnd["random_nontrivial"]
    info += rnd["random_informational"]
    ctx.coverage.update(rnd)
    ctx.informational = info
    ctx.coverage.update({
        "evaluations": total, "distinct_nontrivial": nontrivial, "pairs": len(pairs), "result_groups": nrecs,
        "model_drift": info,
        "rule": "every pair of generator documents (MC_Merge cfg) x every configuration of the model's configuration set; non-trivial = the policy-defined result differs from both inputs",
        "traces_validated_against_impl": total, "exhaustive": True,
        "samples": [sample] if sample else [],
        "trusted_base": ["TLC 1.8", "spec/YMerge.tla as the reading of the yaml-merge usage text and policy enum docstrings", "harness/absdoc.py"],
    })


def replay(path):
    with open(path) as fh:
        rp = json.load(fh)["replay"]
    rec = dict(rp["rec"])
    rec["group"] = dict(rec["group"], cfgs=[rp["cfg"]])
    n, out = judge(rec, [(rp["style"], rp["plain"])])
    for sig, desc, _, _ in out:
        print(sig, "::", desc)
    bad = any(o[0] != "info" for o in out)
    print("VIOLATION property=C05 replay=%s" % path if bad else "no violation")
    return 1 if bad else 0
