"""C06 - a diff is truthful and complete; it is empty of changes iff the data are equal.

S->C: TLC (MC_Diff) enumerates pairs of documents (l, r): l from the generator machine, r a copy, a copy
changed by edit steps (replace / change of kind / delete / insert / swap), or an unrelated document; for
every array mode x AoH mode that can matter it evaluates the MIRRORED differ (spec/YDiff.tla) and the
clauses of the statement on its report (failing clauses are predicted defects, counted, never a verdict by
themselves), and checks as ordinary invariants that the REPAIRED differ satisfies every clause.  Every
emitted pair is loaded with yamlpath's own loader and given to the real
Differ(DifferConfig(log, args), log, lhs).compare_to(rhs); the SAME clauses are evaluated on the real
get_report() against the real documents (they need no expected report):
  positional modes      every entry is true of the documents; every leaf is under an entry;
  every mode            a non-SAME entry exists exactly when the data differ (sequence order disregarded in
                        the synchronised modes; pairs with more than one reading are informational); each left
                        element is counted once as same/changed/deleted, each right one once as same/changed/added.
The multiset of (action, path) is also compared with the model's report (informational drift).
C->S: seeded random larger pairs; the recorded reports are judged by TLC (Trace_Diff: the predicates of
YDiff on the recorded report, and the mirrored differ's own report for the same pair) and the result is
compared with the evaluation here.  Self-test: corrupted records must be rejected by TLC.
"""
import collections
import json
import os
import random

from harness import core, querycorpus

LEVEL = "model_checking"
CLAUSES = ("truthful", "covers", "accounted", "nochange")
FLAG = {"truthful": "t", "covers": "c", "accounted": "a", "nochange": "n"}


def mode_class(cfg):
    from harness import diffobs
    return "pos" if diffobs.positional(cfg) else "sync"


def judge_report(l, r, cfg, rep, crash, predicted, text):
    """Violations of the statement by one real report: list of (sig, desc, clause)."""
    from harness import diffobs
    out = []
    mc = mode_class(cfg)
    same_docs = diffobs.plain_eq(l, r)
    if crash:
        tags = diffobs.cause(l, r, cfg, None).replace("near-", "")
        if "null-seq-element" in tags and mc == "sync":
            tags = "null-seq-element"              # the only raising branch known: path + "[None]" (differ.py:328-337)
        sig = "%s:crash:%s%s" % (tags, mc, "" if predicted.get("crash") else ":unpredicted")
        out.append((sig, "%s [%s]: compare_to/get_report raised %s" % (text, cfg_text(cfg), crash), "crash"))
        return out, None
    v = diffobs.verdict(rep, l, r, cfg)
    for cl in CLAUSES:
        w = v[cl]
        if w is None:
            continue
        name = "reflexive" if cl == "nochange" and same_docs else cl
        tags = diffobs.cause(l, r, cfg, w["path"])
        for alt in w.get("paths", ()):               # several equal elements: name the class by one that has a local cause
            if not tags.startswith(("near-", "unclassified")):
                break
            tags = diffobs.cause(l, r, cfg, alt)
        sig = "%s:%s:%s%s" % (tags, name, mc, "" if not predicted.get(cl, True) else ":unpredicted")
        out.append((sig, "%s [%s]: %s" % (text, cfg_text(cfg), w["why"]), cl))
    return out, v


_LOADED = {}       # per process: YAML text -> loaded document (the differ only reads; checked after every pair)


def _load(doc, variant):
    from harness import absdoc
    text = absdoc.concretise(doc, variant[0], variant[1])
    data = _LOADED.get(text, _LOADED)
    if data is _LOADED:
        data = absdoc.load(text)
        if not absdoc.same_table(absdoc.abstract(data), doc, anchors=False):
            raise core.MachineryError("concretisation does not reload to the abstract document: %r" % text)
        if len(_LOADED) > 50000:
            _LOADED.clear()
        _LOADED[text] = data
    return data, text


def load_pair(l, r, variant):
    (ldata, ltxt), (rdata, rtxt) = _load(l, variant), _load(r, variant)
    if rdata is ldata:                 # two documents, also when they are equal
        _LOADED.pop(rtxt, None)
        rdata, _ = _load(r, variant)
        _LOADED[ltxt] = ldata
    return ldata, rdata, "%s vs %s" % (ltxt.replace("---\n", "").strip().replace("\n", "|"), rtxt.replace("---\n", "").strip().replace("\n", "|"))


def unchanged(l, r, ldata, rdata, variant):
    """The differ must not have changed what it compared (the loaded documents are reused)."""
    from harness import absdoc
    ok = absdoc.same_table(absdoc.abstract(ldata), l, anchors=False) and absdoc.same_table(absdoc.abstract(rdata), r, anchors=False)
    if not ok:
        _LOADED.clear()
    return ok


def case_cfg(m):
    """Configuration of a ModeCase record of MC_Diff: global modes + per-path rules / keys."""
    return {"arrays": m["ar"], "aoh": m["ao"], "rules": [[list(p), v] for p, v in m.get("ru", ())], "keys": [[list(p), v] for p, v in m.get("ky", ())]}


def cfg_text(cfg):
    from harness import diffobs
    extra = "".join(" [rules] %s = %s" % (diffobs.path_text(p), v) for p, v in cfg.get("rules", ())) + \
            "".join(" [keys] %s = %s" % (diffobs.path_text(p), v) for p, v in cfg.get("keys", ()))
    return "--arrays %s --aoh %s%s" % (cfg["arrays"], cfg["aoh"], extra)


def run_real(ldata, rdata, cfg, salt):
    """The real Differ under cfg.  Global modes: the default is left unsaid; with a configuration file they come
    from the command line or (every other case) from its [defaults] section, the command line then being silent."""
    from harness import diffobs
    if not cfg["rules"] and not cfg["keys"]:
        default = cfg["arrays"] == "position" and cfg["aoh"] == "position"
        return diffobs.run_differ(ldata, rdata, None if default else cfg["arrays"], None if default else cfg["aoh"])
    scratch = os.path.join(core.VERIF, "out", "C06", "ini")
    os.makedirs(scratch, exist_ok=True)
    defaults = salt % 2 == 1
    return diffobs.run_differ(ldata, rdata, None if defaults else cfg["arrays"], None if defaults else cfg["aoh"],
                              ini=diffobs.ini_text(cfg, defaults), scratch=os.path.join(scratch, "%d.ini" % os.getpid()))


def judge_pair(cl, cr, modes, variants):
    """Replay one emitted pair under its modes.  modes: the model's ModeCase records."""
    from harness import diffobs
    l, r = diffobs.expand(cl), diffobs.expand(cr)
    out = []
    st = collections.Counter()
    for variant in variants:
        ldata, rdata, text = load_pair(l, r, variant)
        for m in modes:
            cfg = case_cfg(m)
            rep, crash = run_real(ldata, rdata, cfg, len(cl) + len(cr) + len(cfg["rules"]))
            st["evaluations"] += 1
            # the model's own evaluation, re-done here: the two implementations of the clauses must agree
            mrep = diffobs.valued(m["es"], l, r)
            if not m["crash"]:
                mv = diffobs.verdict(mrep, l, r, cfg)
                mine = tuple(mv[c] is None for c in CLAUSES) + (mv["expect"],)
                theirs = tuple(m[FLAG[c]] for c in CLAUSES) + (m["x"],)
                if mine != theirs:
                    raise core.MachineryError("the clauses evaluated by TLC and by the harness disagree on the model's report for %s %s: %s vs %s" % (
                        text, cfg, theirs, mine))
            if not m["dom"]:
                st["outside_domain"] += 1          # key/deep on a list with a member that is not a hash: no verdict
                continue
            if cfg["rules"] or cfg["keys"]:
                st["per_path_config_evaluations"] += 1
            for c in CLAUSES:
                if not m[FLAG[c]]:
                    st["predicted_" + c] += 1
            if m["crash"]:
                st["predicted_crash"] += 1
            predicted = {c: m[FLAG[c]] for c in CLAUSES}
            predicted["crash"] = m["crash"]
            viol, v = judge_report(l, r, cfg, rep, crash, predicted, text)
            for sig, desc, clause in viol:
                out.append((sig, desc, {"kind": "pair", "l": cl, "r": cr, "arrays": cfg["arrays"], "aoh": cfg["aoh"],
                                        "rules": cfg["rules"], "keys": cfg["keys"],
                                        "style": variant[0], "plain": variant[1], "clause": clause}))
            if rep is not None:
                if rep:
                    st["nontrivial"] += 1
                if v["expect"] == "info":
                    st["informational"] += 1
                if bool(m["crash"]) or diffobs.report_key(rep) != diffobs.report_key(mrep):
                    st["drift"] += 1
                    st.setdefault("drift_sample", None)
                    if st["drift_sample"] is None:
                        st["drift_sample"] = {"pair": text, "cfg": cfg, "real": diffobs.report_key(rep), "model": diffobs.report_key(mrep)}
            elif not m["crash"]:
                st["drift"] += 1
        if not unchanged(l, r, ldata, rdata, variant):
            st["documents_changed_by_differ"] += 1
    return out, st


def _work(items):
    return [judge_pair(*it) for it in items]


def tlc_pairs(ctx, cfgs):
    """Run MC_Diff (the cfgs side by side: one TLC keeps only a few cores busy); merge the lines of a pair;
    keep one copy of each (l, r)."""
    from concurrent.futures import ThreadPoolExecutor
    pairs = collections.OrderedDict()
    with ThreadPoolExecutor(max_workers=4) as ex:
        runs = list(ex.map(lambda cfg: core.run_tlc(ctx, "MC_Diff", cfg, env={"CASES_OUT": ctx.path(cfg + ".cases")}, timeout=7200,
                                                    workers=max(4, core.NCPU // 2)), cfgs))
    for cfg, r in zip(cfgs, runs):
        f = ctx.path(cfg + ".cases")
        if r["violated"] == "MirroredTheorems" and cfg == "MC_Diff_mir.cfg":
            continue                       # the expected counterexample of the mirrored differ
        if r["violated"]:
            raise core.MachineryError("%s violated in %s: a design theorem fails on the REPAIRED differ (see %s)" % (r["violated"], cfg, r["log"]))
        if not os.path.exists(f):
            continue                       # a cfg that checks the theorems only
        for x in core.read_csv_json_lines(f):
            key = (json.dumps(x["l"]), json.dumps(x["r"]))
            ent = pairs.setdefault(key, {"l": x["l"], "r": x["r"], "ms": {}})
            for m in x["ms"]:
                ent["ms"][(m["ar"], m["ao"], json.dumps(m.get("ru")), json.dumps(m.get("ky")))] = m
        os.remove(f)
    return [(p["l"], p["r"], list(p["ms"].values())) for _, p in sorted(pairs.items())]     # pairs of one left document together


def variants_for(cl, cr, seed, quick):
    """Concretisations of a pair: one (seeded) in the quick tier; in the thorough tier two for every other pair."""
    allv = querycorpus.variant_of([{"k": n[0], "v": n[2], "kids": []} for n in cl + cr], seed, False)
    h = (len(cl) * 5 + len(cr) * 3 + sum(len(n[2]) for n in cl + cr) + seed) % len(allv)
    if quick or (len(cl) + 2 * len(cr) + seed) % 2:
        return [allv[h]]
    return [allv[h], allv[(h + len(allv) - 1) % len(allv)]]      # thorough: a second spelling for every other pair


# --------------------------------------------------------------------------- C->S: random larger pairs
def rand_doc(rng, budget=14, depth=0):
    from harness import absdoc  # noqa: F401
    scal = [None, 1, 2, 3, "a", "b", ("s", "1"), ("f", "1.5"), True]
    keys = ["a", "b", "c", "n", "v", "k.x", "my key", 0, "0", 7]

    def gen(depth, budget):
        roll = rng.random()
        if depth == 0 and roll < 0.35 and rng.random() < 0.9:
            roll = 0.35 + rng.random() * 0.65
        if depth >= 5 or budget[0] <= 1 or roll < 0.35:
            budget[0] -= 1
            return rng.choice(scal)
        budget[0] -= 1
        if roll < 0.60:
            ks = rng.sample(keys, rng.randint(0, 3))
            return {k: gen(depth + 1, budget) for k in ks}
        if roll < 0.80:
            return [gen(depth + 1, budget) for _ in range(rng.randint(0, 4))]
        if roll < 0.95:       # a list of records with the identity key n
            n = rng.randint(1, 3)
            ids = rng.sample([1, 2, 3, 4], n)
            return [dict([("n", i)] + [(k, gen(depth + 2, budget)) for k in rng.sample(["v", "a", "b"], rng.randint(0, 2))]) for i in ids]
        return set(rng.sample(["a", "b", "c", 1, ("s", "1")], rng.randint(0, 2)))
    return gen(depth, [budget])


def rand_edit(rng, x, depth=0):
    """One random insert / delete / replace / reorder somewhere in the nested literal x."""
    if isinstance(x, dict) and x and rng.random() < 0.7:
        k = rng.choice(list(x))
        if rng.random() < 0.6:
            y = dict(x)
            y[k] = rand_edit(rng, x[k], depth + 1)
            return y
    if isinstance(x, list) and x and rng.random() < 0.7:
        i = rng.randrange(len(x))
        if rng.random() < 0.6:
            return x[:i] + [rand_edit(rng, x[i], depth + 1)] + x[i + 1:]
    op = rng.choice(["ins", "del", "rep", "reo"])
    if isinstance(x, dict):
        y = dict(x)
        if op == "ins":
            y[rng.choice(["a", "b", "c", "z", 0, "0"])] = rand_doc(rng, 3, 3)
        elif op == "del" and y:
            del y[rng.choice(list(y))]
        elif op == "reo" and len(y) > 1:
            items = list(y.items())
            rng.shuffle(items)
            y = dict(items)
        else:
            return rand_doc(rng, 3, 3)
        return y
    if isinstance(x, list):
        y = list(x)
        if op == "ins":
            y.insert(rng.randint(0, len(y)), rand_doc(rng, 3, 3) if not (y and isinstance(y[0], dict)) else {"n": rng.randint(1, 6), "v": rng.choice([1, "a", None])})
        elif op == "del" and y:
            del y[rng.randrange(len(y))]
        elif op == "reo" and len(y) > 1:
            rng.shuffle(y)
        else:
            return rand_doc(rng, 3, 3)
        return y
    if isinstance(x, (set, frozenset)):
        y = set(x)
        if op == "del" and y:
            y.discard(rng.choice(sorted(y, key=repr)))
        else:
            y.add(rng.choice(["a", "b", "c", "d", 2]))
        return y
    return rng.choice([None, 1, 2, "a", "zz", [], {}, [1], ("s", "1")])


def full_tab(t):
    return [{"k": n["k"], "t": n["t"], "v": n["v"], "kids": n["kids"], "keys": n["keys"], "par": n["par"], "anchor": "", "alias": 0} for n in t]


def rec_steps(p):
    return [{"i": -1, "s": st} if isinstance(st, str) else {"i": st, "s": "" if st >= 0 else "*" if st == -3 else "?"} for st in p]


def rand_configs(rng, l, r, count):
    """Per-path configurations for a random pair: a [rules] line (and perhaps a [keys] line) naming a list of the right
    document by its path, sometimes with one hash key replaced by the wildcard; only modes the list's kind has."""
    import re
    from harness import diffobs
    out = []
    lists = [j for j, n in enumerate(r, 1) if n["k"] == "seq"]
    rng.shuffle(lists)
    for j in lists:
        if len(out) >= count:
            break
        q = diffobs.path_of(r, j)
        if not all(isinstance(st, int) or re.fullmatch("[a-z]+", st) for st in q):
            continue                                  # keep to path texts that need no escaping in the INI file
        keys_at = [k for k, st in enumerate(q) if isinstance(st, str)]
        if keys_at and rng.random() < 0.4:
            k = rng.choice(keys_at)
            q = q[:k] + [diffobs.WILD] + q[k + 1:]
        if not (diffobs.match_sure(r, q) and diffobs.match_sure(l, q)):
            continue
        hit = [x for x in diffobs.match_ids(r, q) if r[x - 1]["k"] == "seq"]
        aoh = all(r[x - 1]["kids"] and r[r[x - 1]["kids"][0] - 1]["k"] == "map" for x in hit)
        arr = all(not (r[x - 1]["kids"] and r[r[x - 1]["kids"][0] - 1]["k"] == "map") for x in hit)
        if not (aoh or arr):
            continue
        mode = rng.choice(diffobs.AOH_MODES if aoh else diffobs.ARRAY_MODES)
        cfg = {"arrays": rng.choice(diffobs.ARRAY_MODES), "aoh": rng.choice(diffobs.AOH_MODES), "rules": [[q, mode]], "keys": []}
        if aoh and rng.random() < 0.5:
            cfg["keys"] = [[q, "n"]]
            if rng.random() < 0.5:
                cfg["rules"] = []
        out.append(cfg)
    return out


def random_records(seed, n, first_id):
    """Run the real differ on n seeded random pairs under every mode; records for Trace_Diff + local judgements."""
    from harness import absdoc, diffobs
    rng = random.Random(seed)
    recs, local = [], []
    npairs = 0
    while npairs < n:
        lit = rand_doc(rng, rng.choice([8, 14, 24, 36]))
        roll = rng.random()
        if roll < 0.15:
            rit = lit
        elif roll < 0.85:
            rit = lit
            for _ in range(rng.randint(1, 3)):
                rit = rand_edit(rng, rit)
        else:
            rit = rand_doc(rng, rng.choice([8, 14, 24]))
        l, r = absdoc.table(lit), absdoc.table(rit)
        if len(l) > 40 or len(r) > 40:
            continue
        variant = rng.choice(querycorpus.variant_of(l + r, 0, False))
        ldata, rdata, text = load_pair(l, r, variant)
        npairs += 1
        cfgs = [{"arrays": ar, "aoh": ao, "rules": [], "keys": []} for ar in diffobs.ARRAY_MODES for ao in diffobs.AOH_MODES]
        for cfg in cfgs + rand_configs(rng, l, r, 3):
            rep, crash = run_real(ldata, rdata, cfg, len(recs)) if cfg["rules"] or cfg["keys"] else diffobs.run_differ(ldata, rdata, cfg["arrays"], cfg["aoh"])
            rid = first_id + len(recs)
            recs.append({"id": rid, "l": full_tab(l), "r": full_tab(r), "arrays": cfg["arrays"], "aoh": cfg["aoh"], "crash": bool(crash),
                         "rules": [{"p": rec_steps(q), "v": v} for q, v in cfg["rules"]], "keys": [{"p": rec_steps(q), "v": v} for q, v in cfg["keys"]],
                         "es": [{"a": e["a"], "p": rec_steps(e["p"]), "lv": full_tab(e["lv"]), "rv": full_tab(e["rv"])} for e in (rep or [])]})
            local.append({"id": rid, "l": l, "r": r, "cfg": cfg, "rep": rep, "crash": crash, "text": text,
                          "style": variant[0], "plain": variant[1], "lit": (repr(lit), repr(rit))})
    return recs, local


def _random_work(items):
    return [random_records(*it) for it in items]


def corrupt(rec, rng):
    """A recorded report that satisfies every clause, with one field changed so that it cannot any more
    (binding self-test); None when the record offers no such field."""
    c = json.loads(json.dumps(rec))
    c["id"] = -rec["id"]
    same = [k for k, e in enumerate(c["es"]) if e["a"] == "SAME"]
    counted = [k for k, e in enumerate(c["es"]) if any(n["k"] == "s" for n in (e["rv"] if e["a"] == "ADD" else e["lv"]))]
    if same and (not counted or rng.random() < 0.5):
        c["es"][rng.choice(same)]["a"] = "CHANGE"             # a CHANGE whose values are equal
        c["why"] = "truthful"
    elif counted:
        del c["es"][rng.choice(counted)]                      # an entry dropped: its elements are no longer counted
        c["why"] = "accounted"
    else:
        return None
    return c


def validate_batch(ctx, recs, name):
    rin, rout = ctx.path(name + ".records.json"), ctx.path(name + ".verdicts.json")
    with open(rin, "w") as fh:
        json.dump(recs, fh)
    core.run_tlc(ctx, "Trace_Diff", "Trace_Diff.cfg", env={"RECORDS_IN": rin, "VERDICTS_OUT": rout}, workers=1, name=name, heap="12g")
    if not os.path.exists(rout):
        raise core.MachineryError("Trace_Diff wrote no verdicts (%s)" % name)
    with open(rout) as fh:
        vs = json.load(fh)
    os.remove(rin)
    os.remove(rout)
    return {v["id"]: v for v in vs}


def random_tier(ctx, npairs, stats):
    from harness import diffobs
    jobs = [(ctx.seed * 100003 + k, 25, 1 + k * 1000) for k in range(max(1, npairs // 25))]
    recs, local = [], []
    for rs, ls in querycorpus.pmap(_random_work, jobs, chunk=1):
        recs.extend(rs)
        local.extend(ls)
    rng = random.Random(ctx.seed + 17)
    # self-test of the binding: corrupted copies of positional-mode records that hold
    good = [r for r, lc in zip(recs, local) if diffobs.positional(lc["cfg"]) and lc["rep"] and not lc["crash"]
            and all(v is None for k, v in diffobs.verdict(lc["rep"], lc["l"], lc["r"], lc["cfg"]).items() if k != "expect")]
    bad = [c for c in (corrupt(r, rng) for r in rng.sample(good, min(40, len(good)))) if c is not None]
    verdicts = {}
    batch = 1000
    allrecs = recs + bad
    from concurrent.futures import ThreadPoolExecutor
    with ThreadPoolExecutor(max_workers=6) as ex:
        for part in ex.map(lambda b: validate_batch(ctx, allrecs[b:b + batch], "trace%03d" % (b // batch)), range(0, len(allrecs), batch)):
            verdicts.update(part)
    rejected = 0
    for c in bad:
        v = verdicts[c["id"]]
        if not v[FLAG[c["why"]]]:
            rejected += 1
    stats["binding_selftest"] = {"corrupted_records": len(bad), "rejected_by_tlc": rejected}
    if bad and rejected != len(bad):
        raise core.MachineryError("binding self-test: TLC accepted %d of %d corrupted reports" % (len(bad) - rejected, len(bad)))
    for lc in local:
        v = verdicts[lc["id"]]
        stats["random_evaluations"] += 1
        if not v["dom"]:
            stats["outside_domain"] += 1
            continue
        predicted = {"truthful": v["mt"], "covers": v["mc"], "accounted": v["ma"], "nochange": v["mn"], "crash": v["mcrash"]}
        viol, pv = judge_report(lc["l"], lc["r"], lc["cfg"], lc["rep"], lc["crash"], predicted, lc["text"])
        if pv is not None:
            mine = tuple(pv[c] is None for c in CLAUSES) + (pv["expect"],)
            theirs = tuple(v[FLAG[c]] for c in CLAUSES) + (v["x"],)
            if mine != theirs:
                raise core.MachineryError("TLC and the harness judge the recorded report differently for %s %s: %s vs %s" % (lc["text"], lc["cfg"], theirs, mine))
            stats["traces_validated"] += 1
            if lc["rep"]:
                stats["random_nontrivial"] += 1
            if pv["expect"] == "info":
                stats["informational"] += 1
        if not v["agree"]:
            stats["random_drift"] += 1
            if "random_drift_sample" not in stats:
                stats["random_drift_sample"] = {"pair": lc["text"], "cfg": cfg_text(lc["cfg"]), "literals": lc["lit"],
                                                "real": None if lc["rep"] is None else [[e["a"], e["p"]] for e in lc["rep"]]}
        for sig, desc, clause in viol:
            ctx.violation(sig, desc, {"kind": "random", "l": lc["l"], "r": lc["r"], "arrays": lc["cfg"]["arrays"], "aoh": lc["cfg"]["aoh"],
                                      "rules": lc["cfg"]["rules"], "keys": lc["cfg"]["keys"],
                                      "style": lc["style"], "plain": lc["plain"], "clause": clause, "literals": lc["lit"]})
    return local


def run(ctx):
    # MC_Diff_mir: the clauses on the differ as pinned before the fix: commits (Repaired = {}) - TLC must find the defect;
    # every other cfg mirrors the code with the five repairs (Repaired = AllFixes)
    # MC_Diff_qc / tc: the per-path configuration family ([rules] / [keys] of an INI file, single and wildcard paths)
    cfgs = ["MC_Diff_q.cfg", "MC_Diff_qc.cfg", "MC_Diff_qr.cfg", "MC_Diff_qi.cfg", "MC_Diff_qf.cfg", "MC_Diff_qcf.cfg", "MC_Diff_mir.cfg"] if ctx.quick else \
           ["MC_Diff_t.cfg", "MC_Diff_tr.cfg", "MC_Diff_tc.cfg", "MC_Diff_t2.cfg", "MC_Diff_q.cfg", "MC_Diff_qt.cfg", "MC_Diff_ti.cfg", "MC_Diff_mir.cfg"]
    import time
    t0 = time.time()
    pairs = tlc_pairs(ctx, cfgs)
    t1 = time.time()
    mir = next(r for r in ctx.tlc_runs if r["name"] == "MC_Diff_mir")
    if mir["violated"] != "MirroredTheorems":
        raise core.MachineryError("MC_Diff_mir is a must-violate cfg (the pinned differ, Repaired = {}): TLC found no counterexample, "
                                  "so the theorems or the mirror have lost their teeth")
    npairs = len(pairs)
    if ctx.quick:
        # quick tier: every third pair (seeded offset) of the big generator space is replayed; pairs of a document
        # with itself and the curated / integer-key spaces are all replayed; the thorough tier replays everything
        keep = ctx.seed % 3
        pairs = [p for k, p in enumerate(pairs) if k % 3 == keep or p[0] == p[1] or len(p[0]) > 4
                 or any(n[0] == "map" and any(kt != "str" or kv in ("0", "n", "v") for kt, kv in n[4]) for n in p[0] + p[1])
                 or any(n[0] == "s" and n[1] == "str" and n[2] == "1" for n in p[0] + p[1])]
    items = [(l, r, ms, variants_for(l, r, ctx.seed, ctx.quick)) for l, r, ms in pairs if ms]
    tot = collections.Counter()
    seen = collections.Counter()
    sample = None
    for out, st in querycorpus.pmap(_work, items, chunk=64):
        ds = st.pop("drift_sample", None)
        if ds and sample is None:
            sample = ds
        tot.update(st)
        for sig, desc, rp in out:
            seen[sig] += 1
            ctx.violation(sig, desc, rp if seen[sig] <= 3 else None)      # every case counted; replay data for the first few
    t2 = time.time()
    rstats = collections.Counter()
    local = random_tier(ctx, 150 if ctx.quick else 2000, rstats)
    selftest = rstats.pop("binding_selftest")
    rsample = rstats.pop("random_drift_sample", None)
    ctx.coverage["phase_s"] = {"tlc_models": round(t1 - t0, 1), "replay": round(t2 - t1, 1), "random_and_trace_validation": round(time.time() - t2, 1)}
    ctx.informational = tot["informational"] + rstats["informational"] + tot["outside_domain"] + rstats["outside_domain"]
    ex = next((lc for lc in local if lc["rep"]), None)
    ctx.coverage.update({
        "evaluations": tot["evaluations"] + rstats["random_evaluations"],
        "distinct_nontrivial": tot["nontrivial"] + rstats["random_nontrivial"],
        "rule": "one evaluation = one (left document, right document, array mode, AoH mode, concretisation) given to the real Differ; "
                "non-trivial = the real report has at least one entry",
        "pairs": len(pairs), "pairs_enumerated_by_tlc": npairs, "exhaustive": not ctx.quick,
        "exhaustive_note": "TLC enumerates and judges every pair in both tiers; the real Differ replays all of them in the thorough tier, "
                           "in the quick tier every third pair of MC_Diff_q plus all identical pairs and all of MC_Diff_qr / MC_Diff_qi",
        "traces_validated_against_impl": tot["evaluations"] + rstats["traces_validated"],
        "model_predicted_failures": {c: tot["predicted_" + c] for c in CLAUSES + ("crash",)},
        "mirrored_theorems_counterexample": mir["violated"] == "MirroredTheorems",
        "repaired_theorems_hold": True, "documents_changed_by_differ": tot["documents_changed_by_differ"],
        "model_drift": tot["drift"], "model_drift_sample": sample, "random_model_drift": rstats["random_drift"], "random_model_drift_sample": rsample,
        "outside_domain": tot["outside_domain"] + rstats["outside_domain"],
        "per_path_config_evaluations": tot["per_path_config_evaluations"] + sum(1 for lc in local if lc["cfg"]["rules"] or lc["cfg"]["keys"]),
        "random_pairs_x_modes": rstats["random_evaluations"], "binding_selftest": selftest,
        "violation_signatures": dict(sorted(collections.Counter(v["sig"] for v in ctx.violations).items())),
        "samples": ([{"pair": ex["text"], "cfg": ex["cfg"], "report": [[e["a"], e["p"]] for e in ex["rep"]]}] if ex else []),
        "trusted_base": ["TLC 1.8", "spec/YDiff.tla predicates as the reading of the statement", "harness/absdoc.py concretise/abstract",
                         "harness/diffobs.py (the clauses re-implemented; cross-checked against TLC on every model report and every recorded report)"],
    })
    ctx.assumptions += ["documents are concretised as YAML text and loaded by yamlpath's own loader",
                        "scalars are equal when Python compares the loaded values equal (1 == true); hashes and sets are unordered",
                        "an element is a scalar leaf together with the hash keys on the way to it (list positions left out); empty containers are not leaves",
                        "pairs equal only up to list order are judged where the statement has one reading (YDiff.Clear), else informational",
                        "key/deep are judged only when every list compared by identity key holds hashes only",
                        "per-path configuration: a [rules] / [keys] path governs the nodes it designates in the right document (as differconfig.py "
                        "registers them) and the list at the same path on the left; a rule names a mode the list's kind has; paths whose key or "
                        "wildcard step meets a list (yamlpath then searches the records) are informational"]


def replay(path):
    from harness import absdoc, diffobs
    with open(path) as fh:
        rp = json.load(fh)["replay"]
    if rp["kind"] == "pair":
        l, r = diffobs.expand(rp["l"]), diffobs.expand(rp["r"])
    else:
        l, r = rp["l"], rp["r"]
    cfg = {"arrays": rp["arrays"], "aoh": rp["aoh"], "rules": rp.get("rules", []), "keys": rp.get("keys", [])}
    ldata, rdata, text = load_pair(l, r, (rp["style"], rp["plain"]))
    rep, crash = run_real(ldata, rdata, cfg, 0)
    print("pair:", text, cfg_text(cfg))
    for e in rep or []:
        print("  ", e["a"], e["p"], absdoc.plain_data(e["lv"]), absdoc.plain_data(e["rv"]))
    viol, _ = judge_report(l, r, cfg, rep, crash, {}, text)
    for sig, desc, _ in viol:
        print(sig.replace(":unpredicted", ""), "::", desc)
    print("VIOLATION property=C06 replay=%s" % path if viol else "no violation")
    return 1 if viol else 0
