"""C07 - yaml-paths search is sound and complete, and every printed path resolves.

S->C.  TLC (MC_PathsSearch) enumerates the documents of the generator machine (hashes, lists, Sets, int and str
keys, an anchored scalar with aliases under keys and in lists, punctuation keys), forms each document's search
vocabulary (9 operators x inversion x the document's own texts and near misses) and the 48 option combinations
({values, keys+values, keys only} x {-A, -Y, -y, -l} x --refnames x --expand), evaluates the mirrored search
(spec/YPathsSearch.tla: search_for_paths / yield_children / search_anchor with seen_anchors threaded) and the
declarative Matching / Expected, checks the design theorems and emits every (document, options, expressions,
expected positions) case.  Each case is replayed into the real search_for_paths(...) with the arguments built the
way the tool builds them (its own argument parser, main()'s derivation), in dot and slash notation; every printed
path is fed back into Processor.get_nodes in the notation it was printed in and mapped to places of the real
document.  Projection: the set of reported places, their multiplicity, the re-resolution of every path.
The mirrored search models the repaired source (fix: commits for a Set inside a list, the Set arm of the expansion,
anchors beneath a parent reported whole); the pinned designs are kept as configurations that TLC must reject
(MC_PathsSearch_pin_*).  Comparisons the documentation leaves open make a case informational.
Anchored / aliased keys and merge keys are modelled by a side structure next to the YData node table (spec/YPathsSearch.tla:
kanchor, kalias, merges, merged); MC_PathsSearch derives such documents from the generator's (family "side"), they are written
as YAML by pathssearchobs.concretise_side, checked on load to have the modelled shape, and replayed like every other family
(the search_anchor trace then includes the key searches).  A few larger curated documents of that kind are still judged by
relations only (soundness by direct inspection of the node a path resolves to, re-resolution, no repeats, the alias options).
"""
import collections
import json
import os
import random
import re

from harness import core, querycorpus

LEVEL = "model_checking"
TERMS = {}          # expression -> (real terms object, what it holds, what the expression spells); per process
MAX_KEEP = 4        # violation records kept per signature and work item (all are counted)


# --------------------------------------------------------------------------- corpus
def load_corpus(path):
    docs = collections.OrderedDict()
    for l in core.read_csv_json_lines(path):
        k = json.dumps([l["doc"], l.get("sx")], sort_keys=True)
        e = docs.setdefault(k, {"doc": l["doc"], "sx": l.get("sx"), "res": [], "cases": []})
        e["res"].extend(l["res"])
        e["cases"].extend(l["cases"])
    return list(docs.values())


def tlc_corpus(ctx, cfg, env=None, name=None):
    f = ctx.path((name or cfg) + ".cases")
    if os.path.exists(f):
        os.remove(f)
    e = {"CASES_OUT": f}
    e.update(env or {})
    r = core.run_tlc(ctx, "MC_PathsSearch", cfg, env=e, timeout=7200, name=name)
    if r["violated"]:
        raise core.MachineryError("%s violated in %s: a design theorem of the search model fails outside the named deviation "
                                  "classes (see %s)" % (r["violated"], cfg, r["log"]))
    out = load_corpus(f)
    os.remove(f)
    return out


# --------------------------------------------------------------------------- judging one search
def node_kind(doc, i, sx=None):
    if sx and i > len(doc):
        return "merge-ref"
    if not 1 <= i <= len(doc):
        return "nowhere"
    if sx and i in sx["merged"]:
        return "merged-pair"
    if sx and i in sx["kalias"]:
        return "aliased-key"
    if sx and sx["kanchor"][i - 1]:
        return "anchored-key"
    n = doc[i - 1]
    if n["t"] == "bool" and n["anchor"]:
        return "anchored-bool"      # ruamel loads an anchored boolean as ScalarBoolean, whose text is "1"/"0"
    if n["alias"]:
        return "alias"
    p = doc[n["par"] - 1] if n["par"] else None
    if p is not None and p["k"] == "set":
        return "member"
    if n["k"] != "s":
        return n["k"]
    return "scalar"


def assign_places(rv, paths):
    """Printed paths (yield order) -> (places in yield order, problems).  The k-th report of a path that names an
    anchored node inside a list stands for the k-th place of that node in the list."""
    problems = []
    count = collections.OrderedDict()
    for p in paths:
        count[p] = count.get(p, 0) + 1
    places = {}
    for text, c in count.items():
        r = rv.resolve(text)
        ids = r["ids"]
        if r["out"] != "ok" or not ids:
            problems.append(("reresolve", "unresolved", "printed path %r evaluates to %s %s" % (text, r["out"], r["msg"])))
            places[text] = []
            continue
        if any(i <= 0 for i in ids):
            problems.append(("reresolve", "coordinates", "printed path %r yields coordinates that hold another node (%s)" % (text, ids)))
        ids = sorted(abs(i) for i in ids if i)
        if not r["same"]:
            problems.append(("reresolve", "several-nodes", "printed path %r resolves to different nodes at %s" % (text, ids)))
        elif len(ids) > 1:
            par = {rv.loc.doc[i - 1]["par"] if i <= len(rv.loc.doc) else -i for i in ids}
            if "&" not in text or len(par) != 1:
                problems.append(("reresolve", "several-places", "printed path %r resolves %d times (%s)" % (text, len(ids), ids)))
        if c > len(ids):
            problems.append(("repeat", "path", "path %r is reported %d times and designates %d place(s)" % (text, c, len(ids))))
        places[text] = ids
    seen = {}
    order = []
    for p in paths:
        k = seen.get(p, 0)
        seen[p] = k + 1
        if k < len(places[p]):
            order.append(places[p][k])
    return order, problems


def judge_search(doc, resmap, rv, case, expr, sep, run, stats):
    """Compare one real search with the case's expectation; returns problems [(kind, what, message)]."""
    if run["out"] != "ok":
        return [("crash", run["out"].split(":", 1)[-1], run.get("msg", run["out"]))]
    order, problems = assign_places(rv, run["paths"])
    exp = list(case["exp"])
    got = sorted(order)
    if len(set(got)) != len(got) and not any(p[0] == "repeat" for p in problems):
        dup = sorted({i for i in got if got.count(i) > 1})
        problems.append(("repeat", node_kind(doc, dup[0], rv.sx), "place(s) %s reported more than once (paths %s)" % (dup, run["paths"])))
    missing = [i for i in exp if i not in got]
    extra = [i for i in sorted(set(got)) if i not in exp]
    if missing:
        problems.append(("complete", node_kind(doc, missing[0], rv.sx), "expected places %s, reported %s (paths %s): missing %s" % (exp, got, run["paths"], missing)))
    if extra:
        problems.append(("sound", node_kind(doc, extra[0], rv.sx), "expected places %s, reported %s (paths %s): not expected %s" % (exp, got, run["paths"], extra)))
    # binding evidence about the mirror (never a verdict): yield order, the search_anchor trace, the printed text
    if order != list(case["mir"]):
        stats["mirror_result_drift"] += 1
        stats["order_drift_in:" + (case["cls"] or "plain")] += 1
    if [list(x) for x in run["log"]] != [list(x) for x in case["log"]]:
        stats["mirror_trace_drift"] += 1
    for p, i in zip(run["paths"], order):
        m = resmap.get(i)
        if m is not None and len(m["pl"]) == 1 and p != (m["sl"] if sep == "/" else m["dot"]):
            stats["mirror_text_drift"] += 1
    return problems


def signature(doc, case, problem):
    from harness import pathssearchobs as pso
    kind, what, _ = problem
    if kind == "crash":
        return "crash:%s:%s" % (what, case["cls"] or "plain")
    if what == "anchored-bool":
        return "%s:anchored-bool" % kind
    if case["cls"]:
        return "%s:%s:%s" % (kind, case["cls"], what)
    return "%s:plain:%s:%s" % (kind, pso.shape(case["o"]), what)


def seps_for(case, expr, quick, seed):
    if not quick:
        return ["."], ["/"]
    h = (sum(ord(c) for c in expr) + case["o"] + seed) % 2
    return (["."], []) if h == 0 else ([], ["/"])


def doc_text(doc, sx, style, plain, seed=0):
    """YAML text of a case document; documents with a side structure (anchored keys, merge keys) by pathssearchobs."""
    from harness import absdoc, pathssearchobs as pso
    if pso.has_side(sx):
        return pso.concretise_side(doc, sx, style, plain, merge_first=(seed + len(doc)) % 2 == 0)
    return absdoc.concretise(doc, style, plain)


def judge_doc(item):
    from harness import absdoc, pathssearchobs as pso
    doc, sx, res, cases, variants, quick, seed = item
    side = pso.has_side(sx)
    viol = []
    kept = collections.Counter()
    stats = collections.Counter()
    nontrivial = set()
    resmap = {r["i"]: r for r in res}
    for style, plain in variants:
        text = doc_text(doc, sx, style, plain, seed)
        data = absdoc.load(text)
        if side and pso.merge_unfilled(data):
            stats["side_documents_loader_leaves_merge_unfilled"] += 1
            continue
        rv = pso.Resolver(data, sx if side else None)
        if not absdoc.same_table(rv.loc.doc, doc):
            raise core.MachineryError("concretisation does not reload to the abstract document: %r" % text)
        if side:
            bad = pso.shape_problems(data, doc, sx)
            if bad:
                raise core.MachineryError("the loaded document does not have the modelled keys/merges (%s): %r" % ("; ".join(bad), text))
            stats["side_documents"] += 1
        # T1 on the real code: every position's printed path as the model prints it resolves to its places
        for r in res:
            for sepname in ("dot", "sl"):
                stats["reresolutions"] += 1
                q = rv.resolve(r[sepname])
                if q["out"] != "ok" or sorted(abs(i) for i in q["ids"]) != list(r["pl"]) or not q["same"]:
                    stats["model_path_unresolved"] += 1     # counted; the verdict is given on the paths the code prints
        for c in cases:
            for expr in list(c["x"]) + list(c.get("spell", [])):
                if expr not in TERMS:
                    TERMS[expr] = pso.terms_of(expr) + (pso.parse_expr(expr),)
                terms, got, want = TERMS[expr]
                stats["expressions"] += 1
                if "\\" in expr:
                    stats["escaped_spellings"] += 1
                if got != want:
                    sig = "terms:%s%s" % (want[1], ":escaped-spelling" if "\\" in expr else "")
                    stats["viol:" + sig] += 1
                    if kept[sig] < MAX_KEEP:
                        kept[sig] += 1
                        viol.append((sig, "expression %r is turned into %s, it spells %s" % (expr, got, want),
                                     {"kind": "case", "doc": doc, "sx": sx, "seed": seed, "style": style, "plain": plain, "case": c, "expr": expr, "sep": "."}))
                    if terms is None:
                        continue        # the tool refuses the expression; otherwise it searches with what it made of it
                a, b = seps_for(c, expr, quick, seed)
                for sep in a + b:
                    run = pso.run_search(data, expr, c["o"], sep, terms)
                    stats["evaluations"] += 1
                    if c["exp"]:
                        stats["nontrivial"] += 1
                        nontrivial.add((c["o"], tuple(c["exp"])))
                    problems = judge_search(doc, resmap, rv, c, expr, sep, run, stats)
                    if c["info"]:
                        stats["info"] += 1
                        if problems:
                            stats["info_mismatch"] += 1
                        continue
                    stats["verdict"] += 1
                    if c["cls"]:
                        stats["devclass_cases"] += 1
                    for pr in problems:
                        sig = signature(doc, c, pr) + (":escaped-spelling" if "\\" in expr else "")
                        stats["viol:" + sig] += 1
                        if kept[sig] < MAX_KEEP:
                            kept[sig] += 1
                            viol.append((sig, "doc %s search %s %s (sep %s): %s" % (text.replace("\n", "|"), expr, pso.shape(c["o"]), sep, pr[2]),
                                         {"kind": "case", "doc": doc, "sx": sx, "seed": seed, "style": style, "plain": plain, "case": c, "expr": expr, "sep": sep}))
        if not absdoc.same_table(absdoc.abstract(data), doc):
            stats["documents_changed"] += 1
    stats["distinct_nontrivial"] = len(nontrivial)
    return viol, stats


def _work(items):
    return [judge_doc(it) for it in items]


# --------------------------------------------------------------------------- curated documents (relations only)
CURATED = [
    ("merge", """---
base: &B
  k: val
  j: wal
more:
  <<: *B
  j: zed
  x: val
""", ["=val", "%al", "=k", "^B", "!=val", "=zed"]),
    ("merge-list", """---
b1: &B1 {k: val}
b2: &B2 {j: wal, k: other}
more:
  <<: [*B1, *B2]
  x: val
plain: [val, {y: val}]
""", ["=val", "$al", "=k", "^B", "=other"]),
    ("merge-nested", """---
base: &B {k: val}
mid: &M
  <<: *B
  m: val
top:
  <<: *M
  t: wal
""", ["=val", "=m", "=M", "%al"]),
    ("key-anchors", """---
anchorKeys:
  &keyOne aliasOne: one
  &keyTwo aliasTwo: two
hash:
  *keyOne :
    subval: one
  *keyTwo :
    subval: two
tail: one
""", ["=one", "=aliasOne", "^alias", "=keyOne", "=subval", "$wo"]),
    ("mixed-aliases", """---
aliases:
  - &name setting
  - &pass secret
defaults:
  *name : base
  pw: *pass
custom: &C
  *name : mine
  pw: *pass
merged:
  <<: *C
  extra: secret
""", ["=secret", "=setting", "=pw", "=pass", "=name", "=mine", "^se"]),
    ("anchored-containers", """---
- &list
  - [deep]
  - other
- *list
- &map {k: deep}
- tail: *map
""", ["=deep", "=list", "=map", "=k", "%ee"]),
]
SCALAR_ROOTS = [("hello\n", "=hello"), ("42\n", "=42")]     # a scalar document: no arm in the search (counted, informational)


def textmatch(expr, text):
    """Independent reading of the text operators (=, ^, $, %) over plain non-numeric text, with inversion."""
    from harness import pathssearchobs as pso
    inv, op, term = pso.parse_expr(expr)
    m = {"=": text == term, "^": text.startswith(term), "$": text.endswith(term), "%": term in text}[op]
    return m != inv


def _is_scalar(x):
    return not isinstance(x, (dict, list, set)) and type(x).__name__ not in ("CommentedSet",)


def _key_object(parent, ref):
    for k in parent.keys():
        if k == ref and type(k) is type(ref) or str(k) == str(ref):
            return k
    return None


def _first_places(data):
    """id(obj) -> (parent id, ref) of the first place (document order, merged keys last) an anchored object is met at;
    also id(key object) -> first (parent id) for anchored keys."""
    from harness import absdoc
    first_val, first_key = {}, {}

    def walk(x, parent, ref):
        if absdoc.anchor_of(x) and id(x) not in first_val:
            first_val[id(x)] = (id(parent), str(ref))
        if isinstance(x, dict):
            own = list(x.non_merged_items()) if hasattr(x, "non_merged_items") else list(x.items())
            for k, v in own:
                if absdoc.anchor_of(k) and id(k) not in first_key:
                    first_key[id(k)] = id(x)
                walk(v, x, k)
        elif isinstance(x, list):
            for i, v in enumerate(x):
                walk(v, x, i)
    walk(data, None, None)
    return first_val, first_key


def judge_curated(name, data, rv, firsts, expr, n, sep):
    """Relations on one search over a curated document; returns problems [(sig, message)]."""
    from harness import absdoc, pathssearchobs as pso
    run = pso.run_search(data, expr, n, sep)
    if run["out"] != "ok":
        return [("crash:%s:curated-%s" % (run["out"].split(":", 1)[-1], name), run.get("msg", ""))], run
    kw = run["kw"]
    first_val, first_key = firsts
    problems = []
    count = collections.Counter(run["paths"])
    for text, c in count.items():
        r = rv.resolve(text)
        hits = r["hits"]
        if r["out"] != "ok" or not hits:
            problems.append(("reresolve:curated-%s:unresolved" % name, "printed path %r evaluates to %s %s" % (text, r["out"], r["msg"])))
            continue
        if not r["same"]:
            problems.append(("reresolve:curated-%s:several-nodes" % name, "printed path %r resolves to %d different nodes" % (text, len(hits))))
        elif len(hits) > 1 and "&" not in text:
            problems.append(("reresolve:curated-%s:several-places" % name, "printed path %r resolves %d times" % (text, len(hits))))
        if c > len(hits):
            problems.append(("repeat:curated-%s" % name, "path %r reported %d times, designates %d place(s)" % (text, c, len(hits))))
        h = hits[0]
        node = h.node
        # the chain of (container, key/index) from the root to the node, as the query reports it
        chain = [(a, k) for a, k in (h.nc.ancestry or [])]
        names = []          # per level: (key name text or None, anchor name of the key, anchor name of the value, is value aliased, is key aliased)
        for cont, ref in chain:
            keyobj = _key_object(cont, ref) if isinstance(cont, dict) else None
            try:
                val = cont[ref] if not isinstance(cont, (set,)) and type(cont).__name__ != "CommentedSet" else ref
            except Exception:  # pylint: disable=broad-except
                val = None
            merged = isinstance(cont, dict) and hasattr(cont, "non_merged_items") and not any(k is keyobj for k, _ in cont.non_merged_items())
            names.append({
                "key": str(ref) if isinstance(cont, dict) else None,
                "kanchor": absdoc.anchor_of(keyobj) if keyobj is not None else "",
                "vanchor": absdoc.anchor_of(val),
                "kalias": keyobj is not None and bool(absdoc.anchor_of(keyobj)) and first_key.get(id(keyobj)) != id(cont),
                "valias": bool(absdoc.anchor_of(val)) and first_val.get(id(val)) != (id(cont), str(ref)),
                "merged": merged,
            })
        last = names[-1] if names else None

        def by_name(lv):
            return (kw["search_keys"] and lv["key"] is not None and textmatch(expr, lv["key"])) or \
                   (kw["search_anchors"] and ((lv["vanchor"] and textmatch(expr, lv["vanchor"])) or (lv["kanchor"] and textmatch(expr, lv["kanchor"]))))
        ok = False
        if last is not None:
            if _is_scalar(node) and node is not None and kw["search_values"] and textmatch(expr, str(node)):
                ok = True
            if by_name(last):
                ok = True
            if kw["expand_children"] and any(by_name(lv) for lv in names[:-1]):
                ok = True
            if text.endswith("]") and "[&" in text and kw["include_value_aliases"]:
                ok = ok or textmatch(expr, text[text.rindex("[&") + 2:-1].replace("\\", ""))      # a merge-key reference named by its anchor
        if not ok:
            problems.append(("sound:curated-%s:%s" % (name, pso.shape(n)), "path %r resolves to %r, which does not satisfy %s under %s" % (text, str(node)[:40], expr, pso.shape(n))))
        # alias options: nothing at or below an aliased key unless key aliases are included; an aliased value, matched by
        # its own value, only when value aliases are included
        if not kw["include_key_aliases"] and any(lv["kalias"] for lv in names):
            problems.append(("alias:aliased-key:%s" % ("traversed" if not names[-1]["kalias"] else "reported"),
                             "path %r lies at or below an aliased key although key aliases are not included (%s)" % (text, pso.shape(n))))
        if last is not None and not kw["include_value_aliases"] and last["valias"] and not last["merged"] and len(hits) == 1 \
                and not by_name(last) and not (kw["expand_children"] and any(by_name(lv) for lv in names[:-1])):
            problems.append(("alias:aliased-value:reported", "path %r designates an aliased repeat of &%s although value aliases are not included (%s)" % (text, last["vanchor"], pso.shape(n))))
    # completeness of the plainest kind: own (not merged, not aliased) matching values in values-only mode without --refnames
    if kw["search_values"] and not kw["search_keys"] and not kw["search_anchors"]:
        reported = set()
        for text in count:
            for h in rv.resolve(text)["hits"]:
                reported.add((id(h.parent), str(h.ref)))

        def own(x, parent, ref, through_alias):
            if isinstance(x, dict):
                for k, v in (x.non_merged_items() if hasattr(x, "non_merged_items") else x.items()):
                    ka = bool(absdoc.anchor_of(k)) and first_key.get(id(k)) != id(x)
                    va = bool(absdoc.anchor_of(v)) and first_val.get(id(v)) != (id(x), str(k))
                    own(v, x, k, through_alias or ka or va)
            elif isinstance(x, list):
                for i, v in enumerate(x):
                    va = bool(absdoc.anchor_of(v)) and first_val.get(id(v)) != (id(x), str(i))
                    own(v, x, i, through_alias or va)
            elif x is not None and not through_alias and parent is not None and textmatch(expr, str(x)) and (id(parent), str(ref)) not in reported:
                problems.append(("complete:curated-%s:own-value" % name, "value %r at key/index %r matches %s and is not reported (%s)" % (str(x), ref, expr, run["paths"])))
        own(data, None, None, False)
    return problems, run


def curated_work(items):
    from harness import absdoc, pathssearchobs as pso
    out = []
    for name, text, exprs in items:
        data = absdoc.load(text)
        rv = pso.Resolver(data)
        firsts = _first_places(data)
        viol, stats = [], collections.Counter()
        kept = collections.Counter()
        for expr in exprs:
            for n in range(pso.NOPTS):
                for sep in (".", "/"):
                    problems, run = judge_curated(name, data, rv, firsts, expr, n, sep)
                    stats["curated_evaluations"] += 1
                    stats["curated_paths"] += len(run["paths"])
                    for sig, msg in problems:
                        stats["viol:" + sig] += 1
                        if kept[sig] < MAX_KEEP:
                            kept[sig] += 1
                            viol.append((sig, "curated %s, search %s %s (sep %s): %s" % (name, expr, pso.shape(n), sep, msg),
                                         {"kind": "curated", "name": name, "text": text, "expr": expr, "o": n, "sep": sep}))
        out.append((viol, stats))
    return out


# --------------------------------------------------------------------------- CLI sample
def cli_sample(ctx, corpus, rng, count):
    """The whole tool on a file for a sample of cases: printed lines = the direct call's paths, de-duplicated."""
    from harness import absdoc, pathssearchobs as pso
    done = mismatch = 0
    d = ctx.path("cli")
    os.makedirs(d, exist_ok=True)
    f = os.path.join(d, "doc.yaml")
    picks = [rng.choice(corpus) for _ in range(count)] if corpus else []
    for e in picks:
        c = rng.choice(e["cases"])
        expr = rng.choice(list(c["x"]) + list(c.get("spell", [])))
        sep = rng.choice([".", "/"])
        text = doc_text(e["doc"], e.get("sx"), "block", False)
        with open(f, "w") as fh:
            fh.write(text)
        data = absdoc.load(text)
        run = pso.run_search(data, expr, c["o"], sep)
        code, lines, err = pso.run_main(["--search", expr] + pso.flags(c["o"], sep) + [f])
        want = list(collections.OrderedDict((p, 1) for p in run["paths"]))
        done += 1
        if run["out"] != "ok" or code != 0 or lines != want:
            mismatch += 1
    return done, mismatch


# --------------------------------------------------------------------------- multi-document streams through the tool
def model_lines(e, c, sep):
    """The lines one document contributes (spec: DocLines without the prefix): the printed text of every position the
    mirrored search yields, in yield order, each text once - all from what TLC emitted (mir, and the texts of T1)."""
    resmap = {r["i"]: r for r in e["res"]}
    out = []
    for i in c["mir"]:
        t = resmap[i]["sl" if sep == "/" else "dot"]
        if t not in out:
            out.append(t)
    return out


def stream_sample(ctx, corpus, rng, count):
    """yaml-paths main() on single documents and streams of 2-3 documents (file, STDIN, two files) with one to three
    --search expressions and --except expressions: per document exactly the report the specification gives (spec:
    StreamReport / DocReport - per document the union of the searches minus the exceptions, each path once; nothing is
    carried from one document to the next)."""
    from harness import absdoc, pathssearchobs as pso
    table = []                                   # per document: {o: {expr: case}}
    index = collections.defaultdict(list)        # (o, expr) -> documents (positions in table)
    for e in corpus:
        per = collections.defaultdict(dict)
        for c in e["cases"]:
            if c["info"] or c["cls"] or any(i > len(e["doc"]) for i in c["mir"]):
                continue
            for expr in list(c["x"]) + list(c.get("spell", [])):
                per[c["o"]][expr] = c
        table.append((e, per))
        for o, m in per.items():
            for expr in m:
                index[(o, expr)].append(len(table) - 1)
    starts = [(k, o) for k, (e, per) in enumerate(table) for o, m in per.items() if any(c["mir"] for c in m.values())]
    d = ctx.path("streams")
    os.makedirs(d, exist_ok=True)
    stats = collections.Counter()
    viol = []

    def lines_of(k, o, expr, sep):
        e, per = table[k]
        return model_lines(e, per[o][expr], sep)

    for n in range(count if starts else 0):
        k, o = starts[rng.randrange(len(starts))]
        e, per = table[k]
        sep = rng.choice([".", "/"])
        avail = sorted(per[o])
        hot = [x for x in avail if per[o][x]["mir"]]
        x1 = rng.choice(hot)
        l1 = set(lines_of(k, o, x1, sep))
        over = [x for x in hot if x != x1 and l1 & set(lines_of(k, o, x, sep))]
        disj = [x for x in avail if x != x1 and not (l1 & set(lines_of(k, o, x, sep)))]
        mode = ("one", "overlapping", "disjoint", "identical", "except", "three+except")[n % 6]
        searches, excepts = [x1], []
        if mode == "overlapping":
            searches = [x1, rng.choice(over or hot)]
        elif mode == "disjoint":
            searches = [x1, rng.choice(disj or avail)]
        elif mode == "identical":
            searches = [x1, x1]
        elif mode == "except":
            searches = [x1] + ([rng.choice(over)] if over and n % 4 < 2 else [])
            excepts = [rng.choice(over or hot)]
        elif mode == "three+except":
            searches = [x1, rng.choice(over or avail), rng.choice(avail)]
            excepts = [rng.choice(avail)] + ([rng.choice(hot)] if n % 4 == 0 else [])
        exprs = searches + excepts
        # other documents that have a case for every expression under the same options
        others = None
        for x in set(exprs):
            ks = set(index[(o, x)])
            others = ks if others is None else others & ks
        others = sorted(others - {k})
        kind = ("single", "same", "shared", "later", "gap")[(n // 6) % 5]
        if kind in ("shared", "later") and not others:
            kind = "same"
        if kind == "single":
            docs = [k]
        elif kind == "same":
            docs = [k, k]
        elif kind == "shared":
            docs = [k, rng.choice(others), k][:rng.choice([2, 3])]
        elif kind == "later":
            cold = [j for j in others if not any(lines_of(j, o, x, sep) for x in searches)]
            docs = [rng.choice(cold or others), k]
        else:
            docs = [k, None, rng.choice(others) if others else k]
        texts = []
        skip = False
        for j in docs:
            if j is None:
                texts.append("---\n")
                continue
            ej = table[j][0]
            t = doc_text(ej["doc"], ej.get("sx"), "block", False)
            if pso.has_side(ej.get("sx")) and pso.merge_unfilled(absdoc.load(t)):
                skip = True
            texts.append(t)
        if skip:
            continue
        stream = "".join(texts)

        def report(j):
            if j is None:
                return []
            pss = [lines_of(j, o, x, sep) for x in searches]
            gone = {p for x in excepts for p in lines_of(j, o, x, sep)}
            out, seen = [], set()
            for x, ps in zip(searches, pss):
                for pth in ps:
                    if pth not in seen:
                        seen.add(pth)
                        if pth not in gone:
                            out.append((("[%s]" % x) if len(searches) > 1 else "", pth))
            return out
        per_doc = [report(j) for j in docs]
        flags = [f for f in pso.flags(o, sep) if f not in ("--nofile", "--nostdin")]
        eargs = [a for x in searches for a in ("--search", x)] + [a for x in excepts for a in ("--except", x)]
        how = ("file", "stdin", "files")[n % 3]
        f1 = os.path.join(d, "s%d.yaml" % (n % 7))
        with open(f1, "w") as fh:
            fh.write(stream)
        if how == "stdin":
            code, lines, err = pso.run_main(eargs + flags + ["-"], stdin_text=stream)
            names = [("STDIN", per_doc)]
        elif how == "files":
            f2 = os.path.join(d, "t%d.yaml" % (n % 7))
            with open(f2, "w") as fh:
                fh.write(texts[-1])
            code, lines, err = pso.run_main(eargs + ["--nostdin"] + flags + [f1, f2])
            names = [(f1, per_doc), (f2, per_doc[-1:])]
        else:
            code, lines, err = pso.run_main(eargs + ["--nostdin"] + flags + [f1])
            names = [(f1, per_doc)]
        want = ["%s/%d%s: %s" % (name, i, deco, pth) for name, pd in names for i, ps in enumerate(pd) for deco, pth in ps]
        stats["streams"] += 1
        stats["stream_documents"] += sum(len(pd) for _, pd in names)
        stats["streams_" + kind] += 1
        stats["streams_by_" + how] += 1
        stats["expressions_" + mode] += 1
        if code == 0 and lines == want:
            continue
        if code == 0 and sorted(lines) == sorted(want):
            stats["stream_order_differs"] += 1        # the statement does not order the report
            continue
        # judge on (document, path): the "[EXPR]" attribution is mirrored from the code, not part of the statement
        strip = lambda l: re.sub(r"^(\S+?/\d+)\[.*?\]: ", r"\1: ", l) if len(searches) > 1 else l
        got_s, want_s = [strip(l) for l in lines], [strip(l) for l in want]
        if code == 0 and sorted(got_s) == sorted(want_s):
            stats["stream_attribution_differs"] += 1
            continue
        missing = [l for l in want_s if l not in got_s]
        extra = [l for l in got_s if l not in want_s]
        dup = [l for l in set(got_s) if got_s.count(l) > want_s.count(l) and l in want_s]
        first_names = {"%s/0:" % name for name, _ in names}
        multi = ":several-expressions" if len(searches) > 1 or excepts else ""
        if code != 0:
            sig = "stream:exit-code"
        elif missing:
            sig = "stream:complete:%s-document%s" % ("first" if all(l.split(" ")[0] in first_names for l in missing) else "later", multi)
        elif extra:
            sig = "stream:sound:%s" % ("excepted-path-printed" if excepts else "unexpected-path") + multi
        elif dup:
            sig = "stream:repeat" + multi
        else:
            sig = "stream:differs" + multi
        viol.append((sig, "stream (%s, %s, %s) %s %s: exit %s, printed %s, expected per document %s%s" % (
            kind, how, repr(stream), " ".join(eargs), " ".join(flags), code, lines, want, (" stderr " + err[:200]) if err else ""),
            {"kind": "stream", "stream": stream, "eargs": eargs, "flags": flags, "how": how, "want": want_s, "several": len(searches) > 1,
             "names": [name for name, _ in names], "last": texts[-1]}))
    return viol, stats


def replay_stream(rp):
    from harness import pathssearchobs as pso
    eargs = rp.get("eargs") or ["--search", rp["expr"]]
    if rp["how"] != "stdin":
        os.makedirs(os.path.dirname(rp["names"][0]), exist_ok=True)
        with open(rp["names"][0], "w") as fh:
            fh.write(rp["stream"])
        if rp["how"] == "files":
            with open(rp["names"][1], "w") as fh:
                fh.write(rp["last"])
        code, lines, _ = pso.run_main(eargs + ["--nostdin"] + rp["flags"] + rp["names"])
    else:
        code, lines, _ = pso.run_main(eargs + rp["flags"] + ["-"], stdin_text=rp["stream"])
    if rp.get("several"):
        lines = [re.sub(r"^(\S+?/\d+)\[.*?\]: ", r"\1: ", l) for l in lines]
    if code == 0 and sorted(lines) == sorted(rp["want"]):
        return []
    return ["stream :: exit %s, printed %s, expected %s" % (code, lines, rp["want"])]


# --------------------------------------------------------------------------- binding self-test
def selftest(corpus):
    """Corrupt one field of recorded/expected data and require the judge to object."""
    from harness import absdoc, pathssearchobs as pso
    tried = caught = 0
    for e in corpus:
        if tried >= 40:
            break
        doc = e["doc"]
        resmap = {r["i"]: r for r in e["res"]}
        for c in e["cases"]:
            if c["info"] or c["cls"] or not c["exp"] or len(doc) < 3:
                continue
            data = absdoc.load(doc_text(doc, e.get("sx"), "block", False))
            rv = pso.Resolver(data, e.get("sx"))
            expr = (list(c["x"]) + list(c.get("spell", [])))[0]
            run = pso.run_search(data, expr, c["o"], ".")
            st = collections.Counter()
            if judge_search(doc, resmap, rv, c, expr, ".", run, st):
                continue            # only cases that pass unmodified can show that a corruption is noticed
            # (a) an expected place is dropped from the expectation, (b) a reported path is dropped from the record,
            # (c) a reported path is recorded twice
            c2 = dict(c, exp=c["exp"][1:])
            r2 = dict(run, paths=run["paths"][:-1])
            r3 = dict(run, paths=run["paths"] + run["paths"][-1:])
            for cc, rr in ((c2, run), (c, r2), (c, r3)):
                tried += 1
                if judge_search(doc, resmap, rv, cc, expr, ".", rr, collections.Counter()):
                    caught += 1
            break
    return tried, caught


# --------------------------------------------------------------------------- run
def run(ctx):
    from harness import pathssearchobs as pso
    if ctx.quick:
        plan = [("MC_PathsSearch_q.cfg", [ctx.seed % 3], False), ("MC_PathsSearch_punct.cfg", [ctx.seed % 2], False),
                ("MC_PathsSearch_qn.cfg", [0], False),
                ("MC_PathsSearch_qs.cfg", [ctx.seed % 3], False), ("MC_PathsSearch_qm.cfg", [(ctx.seed + 1) % 3], False)]
    else:
        # (cfg, shards, replay every search in both notations? otherwise the notation alternates from search to search)
        plan = [("MC_PathsSearch_ts.cfg", [0, 1], False), ("MC_PathsSearch_tm.cfg", [0], False),
                ("MC_PathsSearch_tn.cfg", [0], True), ("MC_PathsSearch_t2a.cfg", [0], True), ("MC_PathsSearch_punct_t.cfg", [0, 1], True),
                ("MC_PathsSearch_t5.cfg", [ctx.seed % 2], True), ("MC_PathsSearch_t.cfg", list(range(8)), False)]
    # the pinned designs (before the fix: commits) must violate the theorems: one per quick run, all in the thorough tier
    pins = ["MC_PathsSearch_pin_akey.cfg", "MC_PathsSearch_pin_set.cfg", "MC_PathsSearch_pin_expand.cfg", "MC_PathsSearch_pin_alias.cfg"]
    pins = [pins[ctx.seed % 4]] if ctx.quick else pins
    for cfg in pins:
        f = ctx.path(cfg + ".cases")
        r = core.run_tlc(ctx, "MC_PathsSearch", cfg, env={"CASES_OUT": f, "SHARD": "0"}, timeout=1800)
        if os.path.exists(f):
            os.remove(f)
        if r["violated"] != "Check":
            raise core.MachineryError("%s: the pinned design was expected to violate invariant Check, TLC reports %r (see %s)" % (cfg, r["violated"], r["log"]))
    tot = collections.Counter()
    keep = []               # a slice of the corpus for the CLI sample and the self-test
    ndocs = ngroups = 0
    for cfg, shards, both in plan:
        for sh in shards:   # shard by shard: the full product does not fit in memory at once
            corpus = tlc_corpus(ctx, cfg, {"SHARD": str(sh)}, name="%s_s%d" % (cfg.replace(".cfg", ""), sh))
            ndocs += len(corpus)
            ngroups += sum(len(e["cases"]) for e in corpus)
            if len(keep) < 6000:
                keep.extend(corpus[:1000])
            items = [(e["doc"], e.get("sx"), e["res"], e["cases"], querycorpus.variant_of(e["doc"], ctx.seed, True), not both, ctx.seed) for e in corpus]
            del corpus
            for viol, stats in querycorpus.pmap(_work, items, chunk=12):
                tot.update(stats)
                for sig, desc, rp in viol:
                    ctx.violation(sig, desc, rp)
            del items
    corpus = keep
    for viol, stats in querycorpus.pmap(curated_work, CURATED, chunk=1):
        tot.update(stats)
        for sig, desc, rp in viol:
            ctx.violation(sig, desc, rp)
    # scalar documents: the search has no arm for them (nothing is printed); counted, not judged
    from harness import absdoc
    scalar_silent = 0
    for text, expr in SCALAR_ROOTS:
        r = pso.run_search(absdoc.load(text), expr, 0, ".")
        scalar_silent += int(r["out"] == "ok" and not r["paths"])
    rng = random.Random(ctx.seed)
    cli_done, cli_bad = cli_sample(ctx, corpus, rng, 150 if ctx.quick else 600)
    if cli_bad:
        ctx.violation("cli:differs-from-direct-call", "%d of %d sampled yaml-paths runs print other paths than search_for_paths yields" % (cli_bad, cli_done),
                      {"kind": "cli"})
    sviol, sstats = stream_sample(ctx, corpus, rng, 180 if ctx.quick else 1500)
    for sig, desc, rp in sviol:
        ctx.violation(sig, desc, rp)
    tried, caught = selftest(corpus)
    if tried == 0 or caught != tried:
        raise core.MachineryError("binding self-test: %d of %d corrupted records were rejected" % (caught, tried))
    ctx.informational = tot["info"]
    sample = next(({"doc": e["doc"], "case": c} for e in corpus[len(corpus) // 2:] for c in e["cases"] if c["exp"] and not c["cls"]), None)
    ctx.coverage.update({
        "evaluations": tot["evaluations"] + tot["curated_evaluations"],
        "distinct_nontrivial": tot["distinct_nontrivial"],
        "rule": "evaluation = one real search_for_paths call (document variant x option combination x expression x notation) with every "
                "printed path re-queried; distinct non-trivial = distinct (document, option combination, non-empty expected place set)",
        "documents": ndocs, "case_groups": ngroups, "expressions_checked": tot["expressions"],
        "escaped_spellings_checked": tot["escaped_spellings"],
        "nontrivial_evaluations": tot["nontrivial"], "verdict_cases": tot["verdict"], "informational_cases": tot["info"],
        "model_drift": tot["info_mismatch"], "deviation_class_cases": tot["devclass_cases"],
        "traces_validated_against_impl": tot["evaluations"],
        "mirror_binding": {"searches_compared": tot["evaluations"], "yield_order_differs": tot["mirror_result_drift"],
                           "yield_order_differs_by_class": {k[15:]: v for k, v in sorted(tot.items()) if k.startswith("order_drift_in:")},
                           "search_anchor_trace_differs": tot["mirror_trace_drift"], "printed_text_differs": tot["mirror_text_drift"],
                           "model_printed_paths_requeried": tot["reresolutions"], "of_which_unresolved_on_code": tot["model_path_unresolved"]},
        "violation_counts": {k[5:]: v for k, v in sorted(tot.items()) if k.startswith("viol:")},
        "curated": {"documents": len(CURATED), "searches": tot["curated_evaluations"], "paths_checked": tot["curated_paths"],
                    "judged_by": "relations only: soundness by direct inspection of the node each path resolves to, re-resolution, no repeats, "
                                 "alias options on keys/values, own-value completeness; merge keys and anchored keys are outside the YData model"},
        "scalar_documents_silent": scalar_silent,
        "cli_sample": {"runs": cli_done, "differing": cli_bad},
        "multi_document_streams": dict(sstats, judged_by="spec StreamLines: per document the lines of its own search (TLC's mirrored results and "
                                                        "printed texts), prefixed <name>/<index>; nothing carried between documents"),
        "binding_selftest": {"corrupted_records": tried, "rejected": caught},
        "pinned_designs_rejected_by_tlc": [c.replace(".cfg", "") for c in pins],
        "documents_changed_by_search": tot["documents_changed"],
        "side_family": {"documents_replayed": tot["side_documents"],
                        "texts_the_loader_fills_differently_skipped": tot["side_documents_loader_leaves_merge_unfilled"],
                        "shape_checked_on_load": "node table incl. merged-in pairs, key anchors, aliased keys (same key object), merge references (same hash object)"},
        "exhaustive": True,
        "samples": [sample] if sample else [],
        "trusted_base": ["TLC 1.8", "spec/YPathsSearch.tla Matching/Expected as the reading of the yaml-paths usage text", "spec/YCompare.tla (bound by C12)",
                         "harness/absdoc.py concretise/abstract", "harness/pathssearchobs.py kwargs_like_main (copy of main()'s derivation; bound by the CLI sample)"],
    })
    ctx.assumptions += ["documents are concretised as YAML text and loaded by yamlpath's own loader",
                        "the k-th report of a path naming an anchored list element stands for the k-th place of that node in the list",
                        "search_for_paths is called as process_yaml_file calls it (fresh seen_anchors, all_anchors from scan_for_anchors)"]


def replay(path):
    from harness import absdoc, pathssearchobs as pso
    with open(path) as fh:
        rp = json.load(fh)["replay"]
    out = []
    if rp.get("kind") == "stream":
        out = replay_stream(rp)
    elif rp.get("kind") == "curated":
        data = absdoc.load(rp["text"])
        problems, _ = judge_curated(rp["name"], data, pso.Resolver(data), _first_places(data), rp["expr"], rp["o"], rp["sep"])
        out = ["%s :: %s" % p for p in problems]
    elif rp.get("kind") == "case":
        doc, c = rp["doc"], rp["case"]
        data = absdoc.load(doc_text(doc, rp.get("sx"), rp["style"], rp["plain"], rp.get("seed", 0)))
        rv = pso.Resolver(data, rp.get("sx"))
        _, got = pso.terms_of(rp["expr"])
        if got != pso.parse_expr(rp["expr"]):
            out.append("terms :: expression %r is turned into %s" % (rp["expr"], got))
        else:
            run = pso.run_search(data, rp["expr"], c["o"], rp["sep"])
            for pr in judge_search(doc, {}, rv, c, rp["expr"], rp["sep"], run, collections.Counter()):
                out.append("%s :: %s" % (signature(doc, c, pr), pr[2]))
    for line in out:
        print(line)
    print("VIOLATION property=C07 replay=%s" % path if out else "no violation")
    return 1 if out else 0
