"""C08 - path text and parsed segments round-trip in both notations.

S->C: TLC builds every well-formed segment sequence from the grammar of
MC_RoundTrip, writes it in both notations and both key styles with the
specification's Write operator, checks the round-trip theorems on the mirrored
parser/stringifier, and emits the texts.  The harness feeds the texts to the
real YAMLPath and evaluates the C08 relations on the real objects:
  rt1  text -> exactly those segments
  rt2  canonical string re-parses to the same segments in either notation
  rt3  canonical string is a fixed point
  rt4  == holds between all spellings of one sequence, != between different sequences
  rt5  append(segment) then pop() restores original, str and segments
C->S: seeded random longer sequences go through Batch_RoundTrip (TLC writes the
texts and its verdicts) and the same replay.
A relation failing on the real code for an input outside the recorded quirk
classes is a violation; model/real disagreement on a relation is drift.
"""
import json
import os
import random
import multiprocessing as mp

from harness import core

LEVEL = "model_checking"
SPELL = ("dot_esc", "dot_quote", "sl_esc", "sl_quote")
QUOTES = ("'", '"')
SPECIAL_AFTER_BS = set(". / ( ) [ ] ^ $ % ' \"".split()) | {" "}


def quirk_class(segs):
    """The input classes where the pinned design itself breaks the relations (known findings)."""
    cls = set()
    for s in segs:
        if s["ty"] == "SEARCH" and s["term"] and s["term"][0] in QUOTES and s["term"][-1] == s["term"][0]:
            cls.add("qterm")      # search term wrapped in (escaped) quote characters
        if s["ty"] == "KEY":
            k = s["v"]
            if any(k[i] == "\\" and k[i + 1] in SPECIAL_AFTER_BS for i in range(len(k) - 1)):
                cls.add("bskey")  # key holding a backslash right before a special character
        if s["ty"] == "SEARCH" and s["op"] == "=~" and all(d in s["term"] for d in "/#|@;"):
            cls.add("redelim")    # no delimiter left for the expression: not writable at all
    return "+".join(sorted(cls))


def _relations(c, prev):
    """Evaluate rt1..rt5 for one emitted case on the real YAMLPath class."""
    from harness import pathobs
    from yamlpath import YAMLPath
    from yamlpath.enums import PathSeparators
    segs = c["segs"]
    res = {"rt1": True, "rt2": True, "rt3": True, "rt4": True, "rt5": True, "why": {}}

    def esc(t):
        return [pathobs.project_segment(s) for s in YAMLPath(t).escaped]

    def fail(rel, why):
        res[rel] = False
        if len(res["why"].setdefault(rel, [])) < 3:
            res["why"][rel].append(why)

    for k in SPELL:
        t = c[k]
        notation_dot = k.startswith("dot")
        try:
            got = esc(t)
            if got != segs:
                fail("rt1", "%r parsed to %s" % (t, got))
            for other in (PathSeparators.DOT, PathSeparators.FSLASH):
                p = YAMLPath(t)
                p.separator = other
                cc = str(p)
                if other is PathSeparators.DOT and cc.startswith("/"):
                    continue
                if esc(cc) != segs:
                    fail("rt2", "%r -> canonical %r -> %s" % (t, cc, esc(cc)))
            cc = str(YAMLPath(t))
            if not (notation_dot and cc.startswith("/")):
                again = str(YAMLPath(cc))
                if again != cc:
                    fail("rt3", "%r -> %r -> %r" % (t, cc, again))
        except Exception as ex:  # pylint: disable=broad-except
            for rel in ("rt1", "rt2", "rt3"):
                fail(rel, "%r raised %s: %s" % (t, type(ex).__name__, ex))
    # rt4: equality <=> segment equality
    try:
        base = YAMLPath(c[SPELL[0]])
        for k in SPELL[1:]:
            if not base == YAMLPath(c[k]):
                fail("rt4", "%r != %r though both parse to the same segments" % (c[SPELL[0]], c[k]))
            if base != YAMLPath(c[k]):
                fail("rt4", "__ne__ true for %r vs %r" % (c[SPELL[0]], c[k]))
        if prev is not None and prev["segs"] != segs:
            for k in ("dot_esc", "sl_quote"):
                for k2 in ("dot_esc", "sl_esc"):
                    if YAMLPath(c[k]) == YAMLPath(prev[k2]):
                        fail("rt4", "%r == %r though segments differ" % (c[k], prev[k2]))
    except Exception as ex:  # pylint: disable=broad-except
        fail("rt4", "raised %s: %s" % (type(ex).__name__, ex))
    # rt5: append then pop restores (base = this sequence without its last segment)
    try:
        for bk, ak, sep in (("base_dot", "app_dot", PathSeparators.DOT), ("base_sl", "app_sl", PathSeparators.FSLASH)):
            basetxt = c[bk]
            if segs[-1]["ty"] == "COLLECTOR" and segs[-1]["cop"]:
                continue            # an operator-bearing collector must adjoin its predecessor; append() inserts a separator
            if basetxt in ("", "/") and c[ak].startswith("/"):
                continue
            if basetxt in ("", "/"):
                if segs[-1]["ty"] not in ("KEY", "MATCH_ALL", "TRAVERSE", "COLLECTOR") or sep is PathSeparators.FSLASH:
                    continue        # append() to an empty path takes the text as the whole path
                basetxt = ""
            p = YAMLPath(basetxt)
            s0, e0 = str(p), [pathobs.project_segment(s) for s in p.escaped]
            if e0 != segs[:-1]:
                continue            # base itself does not parse as intended (reported by rt1 of that shorter case)
            p.append(c[ak])
            e1 = [pathobs.project_segment(s) for s in p.escaped]
            if e1 != segs:
                fail("rt5", "append(%r) to %r gave segments %s" % (c[ak], basetxt, e1[len(e0):]))
                continue
            p.pop()
            e2 = [pathobs.project_segment(s) for s in p.escaped]
            if e2 != e0 or str(p) != s0:
                fail("rt5", "append(%r) then pop() on %r left %r / %r" % (c[ak], basetxt, p.original, str(p)))
            # the same after the path object was switched to the other notation (the separator setter is public API):
            # the segment is then given in THAT notation's spelling
            other, oak = (PathSeparators.FSLASH, "app_sl") if sep is PathSeparators.DOT else (PathSeparators.DOT, "app_dot")
            if basetxt and oak in c:
                q = YAMLPath(basetxt)
                q.separator = other
                sx = str(q)
                if other is PathSeparators.DOT and sx.startswith("/"):
                    continue        # not expressible in dot notation
                q.append(c[oak])
                x1 = [pathobs.project_segment(s) for s in q.escaped]
                if x1 != segs:
                    fail("rt5", "after switching %r to %s notation, append(%r) gave segments %s (text %r)" % (
                        basetxt, "slash" if other is PathSeparators.FSLASH else "dot", c[oak], x1, q.original))
                    continue
                q.pop()
                x2 = [pathobs.project_segment(s) for s in q.escaped]
                if x2 != e0:
                    fail("rt5", "after switching %r to the other notation, append(%r) then pop() left %r" % (basetxt, c[oak], q.original))
    except Exception as ex:  # pylint: disable=broad-except
        fail("rt5", "raised %s: %s" % (type(ex).__name__, ex))
    return res


def _replay_chunk(chunk):
    out = []
    prev = None
    for c in chunk:
        r = _relations(c, prev)
        out.append((c, r))
        prev = c
    return out


def _chunks(seq, n):
    for i in range(0, len(seq), n):
        yield seq[i:i + n]


def judge(ctx, cases, stats):
    with mp.Pool(core.NCPU) as pool:
        for part in pool.imap_unordered(_replay_chunk, _chunks(cases, 400)):
            for c, r in part:
                stats["n"] += 1
                q = quirk_class(c["segs"])
                for rel in ("rt1", "rt2", "rt3", "rt4", "rt5"):
                    if rel in c and c[rel] != r[rel] and rel != "rt5":
                        stats["drift"] += 1
                        if len(stats["drift_samples"]) < 5:
                            stats["drift_samples"].append({"segs": c["segs"], "rel": rel, "model": c[rel], "real": r[rel], "why": r["why"]})
                    if not r[rel]:
                        kinds = "+".join(sorted({s["ty"] for s in c["segs"]}))
                        sig = "%s:%s" % (rel, q) if q else "%s:%s" % (rel, kinds)
                        ctx.violation(sig, "; ".join(r["why"].get(rel, [])) or rel,
                                      {"kind": "segments", "case": {k: c[k] for k in c if k not in ("rt1", "rt2", "rt3", "rt4")}})
                if not q:
                    stats["nontrivial"].add(c["dot_esc"])


# ----- seeded random longer sequences (C->S route through Batch_RoundTrip)
KEYCHARS = list("ab1") + [".", "/", "[", "]", "(", ")", "'", '"', " ", "^", "$", "%", "\\", "=", "-", ":", "&", "!", "+", ","]
OPS = ["=", "^", "$", "%", "<", ">", "<=", ">=", "=~"]
KWS = ["distinct", "has_child", "name", "max", "min", "parent", "unique"]


def seg(ty, v="", inv=False, op="", attr="", term="", kw="", cop=""):
    return {"ty": ty, "v": v, "inv": inv, "op": op, "attr": attr, "term": term, "kw": kw, "cop": cop}


def rand_text(rng, maxlen=4):
    while True:
        t = "".join(rng.choice(KEYCHARS) for _ in range(rng.randint(1, maxlen)))
        if t.strip() and "*" not in t:
            return t


def rand_segs(rng, n):
    out = []
    for i in range(n):
        k = rng.random()
        if k < 0.4:
            out.append(seg("KEY", rand_text(rng)))
        elif k < 0.5:
            out.append(seg("INDEX", str(rng.randint(-20, 20))))
        elif k < 0.55:
            out.append(seg("SLICE", "%d:%d" % (rng.randint(-5, 5), rng.randint(-5, 9))))
        elif k < 0.6:
            out.append(seg("ANCHOR", rng.choice(["a", "b1", "anchor"])))
        elif k < 0.8:
            op = rng.choice(OPS)
            term = rng.choice(["^a.*b$", "a+", "[0-9]", "a/b"]) if op == "=~" else rand_text(rng, 3)
            out.append(seg("SEARCH", inv=rng.random() < 0.3, op=op, attr=rng.choice([".", "a", rand_text(rng, 2)]), term=term))
        elif k < 0.87:
            out.append(seg("KEYWORD", v=rng.choice(["", "a", "a,b", "2"]), inv=rng.random() < 0.3, kw=rng.choice(KWS)))
        elif k < 0.93:
            cop = rng.choice(["+", "-", "&"]) if out and out[-1]["ty"] == "COLLECTOR" and rng.random() < 0.6 else ""
            out.append(seg("COLLECTOR", v=rng.choice(["a", "a.b", "/a/b[0]", "a[b=1]", "**"]), cop=cop))
        elif k < 0.97:
            out.append(seg("MATCH_ALL"))
        else:
            out.append(seg("TRAVERSE"))
    return out


def run(ctx):
    rng = random.Random(ctx.seed)
    stats = {"n": 0, "drift": 0, "drift_samples": [], "nontrivial": set()}
    cfgs = ["MC_RoundTrip_q2.cfg", "MC_RoundTrip_col.cfg"] if ctx.quick else ["MC_RoundTrip_t3.cfg", "MC_RoundTrip_col.cfg"]
    total = 0
    for cfg in cfgs:
        f = ctx.path(cfg + ".cases")
        r = core.run_tlc(ctx, "MC_RoundTrip", cfg, env={"CASES_OUT": f}, timeout=7200)
        if r["violated"]:
            ctx.coverage.setdefault("model_predictions", []).append("%s violated in %s" % (r["violated"], cfg))
        cases = core.read_csv_json_lines(f)
        os.remove(f)
        total += len(cases)
        judge(ctx, cases, stats)
    # random longer sequences
    n_rand = 1500 if ctx.quick else 20000
    recs = [{"id": i, "segs": rand_segs(rng, rng.randint(2, 6))} for i in range(n_rand)]
    validated = 0
    for part in _chunks(recs, 3000):
        rin = ctx.path("batch_%d.in.json" % validated)
        rout = ctx.path("batch_%d.out.json" % validated)
        with open(rin, "w") as fh:
            json.dump(part, fh)
        core.run_tlc(ctx, "Batch_RoundTrip", "Batch_RoundTrip.cfg", env={"RECORDS_IN": rin, "VERDICTS_OUT": rout},
                     workers=1, name="batch_%d" % validated)
        with open(rout) as fh:
            outs = json.load(fh)
        validated += len(outs)
        judge(ctx, [o["r"] for o in outs], stats)
    ctx.coverage.update({
        "evaluations": stats["n"],
        "distinct_nontrivial": len(stats["nontrivial"]),
        "rule": "every segment sequence of the MC_RoundTrip grammar up to the bound (TLC-enumerated) + seeded random sequences of 2-6 segments written by Batch_RoundTrip; each case = 4 spellings x 5 relations on the real YAMLPath; non-trivial = outside the recorded quirk classes; distinct by dot-notation text",
        "traces_validated_against_impl": stats["n"],
        "exhaustive": True,
        "model_drift": stats["drift"],
        "drift_samples": stats["drift_samples"],
        "samples": [],
        "trusted_base": ["TLC 1.8", "spec/YPathSyntax.tla Write (the documented notation)", "harness/pathobs.py projection"],
    })
    ctx.coverage["samples"] = [sorted(stats["nontrivial"])[i] for i in (0, len(stats["nontrivial"]) // 2, -1)]
    ctx.assumptions += ["append() is given the escaped spelling of a segment (its documented 'pre-escaped' argument)",
                        "keys do not contain '*' and are not blank (not expressible by escapes); regex terms do not contain the chosen delimiter"]


def replay(path):
    with open(path) as fh:
        rp = json.load(fh)["replay"]
    r = _relations(rp["case"], None)
    print(json.dumps(r, indent=1))
    bad = not all(r[k] for k in ("rt1", "rt2", "rt3", "rt4", "rt5"))
    print("VIOLATION property=C08 replay=%s" % path if bad else "no violation")
    return 1 if bad else 0
