"""C09 - queries never modify the document; creation adds exactly the missing path.

Purity: in the specification reads are stuttering steps on the document
(spec/YEdit.tla EStep: query / exists leave `doc` unchanged; MC_Edit's frame
properties).  Binding: for every (document, path) case of the MC_Query corpora -
including collector expressions with +, - and & and keyword segments - the real
document is snapshotted (abstract table + identity of every container) before
and after get_nodes(mustexist=True), exists() and, when the path exists with no
dead branch, get_nodes(); any difference is a violation.
Creation: MC_Edit histories whose last step is an optional-match set that creates
a missing straight tail are replayed on one Processor and the whole document is
compared with the model (old content unchanged, exactly the missing tail added,
sequences padded only to the requested index) and dump/reloaded.
"""
import json

from harness import core, querycorpus, editobs

LEVEL = "model_checking"


def snapshot(data):
    from harness import absdoc
    doc, pos = absdoc.abstract(data, with_positions=True)
    return doc, [id(o) for (o, _, _) in pos if isinstance(o, (dict, list, set))]


def judge_doc(doc, cases, variants):
    from harness import absdoc, queryobs
    out = []
    stats = {"cases": 0, "runs": 0, "nontrivial": 0, "coll_agree": 0, "coll_differ": 0, "coll_opt_runs": 0, "coll_sample": None}
    for style, plain in variants:
        text = absdoc.concretise(doc, style, plain)
        data = absdoc.load(text)
        loc = absdoc.Locator(data)
        before_doc, before_ids = snapshot(data)
        for c in cases:
            stats["cases"] += 1
            modes = [("must", c["dot"]), ("exists", c["sl"])]
            xinfo = c.get("xinfo", c["info"])      # collectors: `info` only keeps C01 silent; `xinfo` is the model's own flag
            is_coll = "COLLECTOR" in c["ty"]
            if not c["err"] and c["n"] > 0 and not c["dead"] and not xinfo:
                modes.append(("opt", c["dot"]))
                stats["coll_opt_runs"] += is_coll
            for mode, ptxt in modes:
                stats["runs"] += 1
                r = queryobs.run_query(data, loc, ptxt, mode)
                if r.get("n", 0) > 0:
                    stats["nontrivial"] += 1
                if is_coll and not xinfo and mode == "must":
                    # beyond the listed properties: the collector algebra of YQuery against the code (drift counter)
                    exp = "yperr" if c["err"] else ("ok" if c["n"] > 0 else "unmatched")
                    got = "unmatched" if r["out"] == "ok" and r["n"] == 0 else r["out"]
                    same = got == exp and (exp != "ok" or queryobs.same_nodes(loc, r["hits"], c["ids"]))
                    stats["coll_agree" if same else "coll_differ"] += 1
                    if not same and stats["coll_sample"] is None:
                        stats["coll_sample"] = {"doc": text, "path": ptxt, "model": [exp, c["ids"]], "code": [got, queryobs.describe(loc, r.get("hits", []))]}
                after_doc, after_ids = snapshot(data)
                if not absdoc.same_table(after_doc, before_doc) or after_ids != before_ids:
                    d = editobs.diff_tables(after_doc, before_doc) or "container identities changed"
                    kind = c["ty"] or "ROOT"
                    if ")-(" in ptxt and any(doc[i - 1]["k"] == "map" for i in range(1, len(doc) + 1)):
                        kind = "collector-subtraction-over-hashes"
                    sig = "impure:%s:%s" % (mode, kind)
                    out.append((sig, "doc %s: %s(%r) changed the document: %s" % (text.replace("\n", "|"), mode, ptxt, d),
                                {"kind": "query", "doc": doc, "style": style, "plain": plain, "case": c}))
                    data = absdoc.load(text)
                    loc = absdoc.Locator(data)
                    before_doc, before_ids = snapshot(data)
    return out, stats


def _work(items):
    return [judge_doc(d, cs, v) for d, cs, v in items]


def run(ctx):
    cfgs = ["MC_Query_c15q.cfg", "MC_Query_q2.cfg"] if ctx.quick else ["MC_Query_c15t.cfg", "MC_Query_t2.cfg"]
    tot = {"cases": 0, "runs": 0, "nontrivial": 0, "coll_agree": 0, "coll_differ": 0, "coll_opt_runs": 0, "coll_sample": None}
    ndocs = 0
    # memory-bounded: the corpora of the thorough tier do not fit in memory at once (an earlier version was OOM-killed at 33 GB)
    for corpus in querycorpus.stream_corpus(ctx, "MC_Query", cfgs):
        if ctx.quick:
            # quick tier: every collector / keyword case, every 4th of the others (seeded); thorough replays all
            corpus = [(d, [c for k, c in enumerate(cs) if "COLLECTOR" in c["ty"] or "KEYWORD" in c["ty"]
                           or (k + len(d) + ctx.seed) % 4 == 0]) for d, cs in corpus]
        ndocs += len(corpus)
        items = [(d, cs, querycorpus.variant_of(d, ctx.seed, ctx.quick)) for d, cs in corpus]
        for out, stats in querycorpus.pmap(_work, items, chunk=8):
            for k in tot:
                if k == "coll_sample":
                    tot[k] = tot[k] or stats[k]
                else:
                    tot[k] += stats[k]
            for sig, desc, rp in out:
                ctx.violation(sig, desc, rp)
        del items, corpus
    editobs.run_histories(ctx, {"set_opt"}, "C09", ["MC_Edit_q.cfg"] if ctx.quick else ["MC_Edit_t.cfg"])
    editobs.random_histories(ctx, "C09", 600 if ctx.quick else 6000, 8)
    ctx.coverage["creation_histories"] = ctx.coverage.pop("evaluations")
    ctx.coverage["creation_rule"] = ctx.coverage.pop("rule")
    ctx.coverage.update({
        "evaluations": tot["runs"] + ctx.coverage["creation_histories"],
        "distinct_nontrivial": tot["nontrivial"] + ctx.coverage.get("distinct_nontrivial", 0),
        "collector_model_agreement": {"agree": tot["coll_agree"], "differ": tot["coll_differ"], "optional_mode_runs": tot["coll_opt_runs"],
                                      "first_difference": tot["coll_sample"],
                                      "note": "YQuery.CollectorStep (+, -, & over scalars) compared with get_nodes(); informational drift counter, not a C09 verdict"},
        "purity_runs": tot["runs"], "purity_cases": tot["cases"], "documents": ndocs,
        "rule": "purity: every (document, path) case of the MC_Query corpora incl. collectors x {required, exists, optional-on-existing}, document snapshotted before/after; creation: every MC_Edit history ending in a creating set",
        "traces_validated_against_impl": tot["runs"] + ctx.coverage["creation_histories"], "exhaustive": True,
    })


def replay(path):
    with open(path) as fh:
        rp = json.load(fh)["replay"]
    if rp["kind"] == "history":
        return editobs.replay_file(path, "C09")
    out, _ = judge_doc(rp["doc"], [rp["case"]], [(rp["style"], rp["plain"])])
    for sig, desc, _ in out:
        print(sig, "::", desc)
    print("VIOLATION property=C09 replay=%s" % path if out else "no violation")
    return 1 if out else 0
