"""C10 - anchor conflicts in a merge follow the chosen policy and the result reloads.

S->C: TLC (MC_Merge with UseAnchors) enumerates pairs of documents that define
and alias scalar anchors from a shared name pool - so equal-name/equal-value,
equal-name/different-value and disjoint cases all occur - crossed with the four
anchor policies and a slice of the C05 policies; spec/YMerge.tla ResolveAnchors +
MergeRoot define the result, the laws of C10 are TLC invariants (stop refuses
exactly on a conflict; one value per name in the result; left/right pick that
side's value), and the expected result incl. anchor names and alias places is
emitted.  Each case is replayed into Merger.merge_with; accepted results are
also dumped as block YAML after prepare_for_dump and re-loaded with yamlpath's
strict loader (duplicate / undefined anchors are errors there).
"""
import json
import os

from harness import core, querycorpus

LEVEL = "model_checking"


def judge(rec, variants):
    from harness import absdoc, mergeobs, editobs
    out = []
    n = 0
    g = rec["group"]
    exp = g["res"]
    for variant in variants:
        style, plain = variant[0], variant[1]
        rplain = variant[2] if len(variant) > 2 else plain
        for cfgname in g["cfgs"]:
            n += 1
            h, a, o, s, am = cfgname.split("/")
            oc, got, mg = mergeobs.run_merge(rec["l"], rec["r"], "/".join((h, a, o, s)), style, plain, anchors=am, rplain=rplain, rdoc2=rec.get("r2"))
            problem = None
            if oc == "crash":
                problem = ("crash", got)
            elif exp["ok"]:
                if oc != "ok":
                    problem = ("outcome", "expected a merged document, got %s %s" % (oc, got))
                else:
                    d = editobs.diff_tables(_strip(got), _strip(exp["out"]))
                    rel = _anchor_relations(rec, got, am)
                    if d:
                        problem = ("document", "%s | got %s" % (d, absdoc.concretise(got, "flow").strip()))
                    elif rel:
                        problem = ("anchors", "%s | got %s" % (rel, absdoc.concretise(got, "flow").strip()))
                    else:
                        # serialises with no duplicate / undefined anchor and reloads to the same data
                        try:
                            from yamlpath.common import Parsers
                            yaml = Parsers.get_yaml_editor()
                            mg.prepare_for_dump(yaml, "")
                            import io
                            buf = io.StringIO()
                            yaml.dump(mg.data, buf)
                            back = absdoc.abstract(absdoc.load(buf.getvalue()))
                            if absdoc.plain_data(back) != absdoc.plain_data(exp["out"]):
                                problem = ("reload", "result reloads to different data: %s" % buf.getvalue().replace("\n", "|"))
                        except Exception as ex:  # pylint: disable=broad-except
                            problem = ("reload", "result does not dump/reload: %s: %s" % (type(ex).__name__, str(ex)[:200]))
            elif oc == "ok":
                problem = ("outcome", "expected a merge error, got the document %s" % absdoc.concretise(got, "flow").strip())
            if problem:
                if exp["info"]:
                    out.append(("info", None, None))
                else:
                    sig = "%s:anchors=%s:%s<-%s" % (problem[0], am, rec["l"][0]["k"], rec["r"][0]["k"])
                    if problem[0] == "crash":
                        sig += ":" + problem[1].split(" @ ")[-1].split(" ")[-1]
                    out.append((sig, "merge %s <- %s under %s: %s" % (
                        absdoc.concretise(rec["l"], "flow").strip(), absdoc.concretise(rec["r"], "flow").strip(), cfgname, problem[1]),
                        {"kind": "merge", "rec": rec, "cfg": cfgname, "style": style, "plain": plain, "rplain": rplain}))
    return n, out


def _strip(tab):
    """Where an anchor sits among equal values is not part of the statement; the data are."""
    return [dict(n, anchor="", alias=0) for n in tab]


def _defs(doc):
    out = {}
    for n in doc:
        if n["anchor"] and n["anchor"] not in out:
            out[n["anchor"]] = (n["t"], n["v"])
    return out


def _anchor_relations(rec, got, am):
    """The C10 relations evaluated on the real result's anchors."""
    byname = {}
    for n in got:
        if n["anchor"]:
            byname.setdefault(n["anchor"], set()).add((n["t"], n["v"]))
    for name, vals in byname.items():
        if len(vals) > 1:
            return "anchor %s reads several values in the result: %s" % (name, sorted(vals))
    if rec.get("r2"):
        return ""       # two merges in a row: which side "left" / "right" names changes with the step; the model's document decides
    la, ra = _defs(rec["l"]), _defs(rec["r"])
    for name in set(la) & set(ra):
        if la[name] != ra[name] and name in byname:
            want = la[name] if am == "left" else ra[name] if am == "right" else None
            if want is not None and byname[name] != {want}:
                return "anchor %s reads %s, policy %s demands %s" % (name, sorted(byname[name]), am, want)
            if am == "rename" and byname[name] != {la[name]}:
                return "after rename the name %s must keep the left value %s, reads %s" % (name, la[name], sorted(byname[name]))
    return ""


def _work(items):
    return [judge(rec, v) for rec, v in items]


def _has_anchor(doc):
    return any(n["anchor"] for n in doc)


def random_pairs(ctx, n_pairs):
    """C->S beyond the bound: seeded random pairs of larger documents whose anchors come from the pool {A, B}."""
    import random
    from harness import randdocs, mergeobs
    rng = random.Random(ctx.seed + 9)
    H, A, O, S = ["deep", "left", "right"], ["all", "left", "right", "unique"], ["all", "deep", "left", "right", "unique"], ["left", "right", "unique"]
    recs = []
    tries = 0
    while len(recs) < n_pairs * 4 and tries < n_pairs * 40:
        tries += 1
        # in a third of the pairs one Hash / Array of each side carries an anchor of its own (C left, D right: never in
        # conflict), so that scalar anchors are defined and aliased inside an anchored container
        ca = rng.random() < 0.34
        l = randdocs.rand_doc(rng, max_nodes=12, max_depth=3, anchor_names=["A", "B"], anchor_p=0.4, alias_p=0.3, container_anchor="C" if ca else None)
        r = randdocs.rand_doc(rng, max_nodes=12, max_depth=3, anchor_names=["A", "B"], anchor_p=0.4, alias_p=0.3, container_anchor="D" if ca else None)
        if not (_has_anchor(l) and _has_anchor(r)):
            continue
        h, a, o, s = rng.choice(H), rng.choice(A), rng.choice(O), rng.choice(S)
        # a third of the pairs get a second right-hand document, merged by the SAME Merger afterwards (a later document must
        # be judged against the result of the earlier merge, not against anything remembered from before it)
        r2 = randdocs.rand_doc(rng, max_nodes=10, max_depth=3, anchor_names=["A", "B"], anchor_p=0.5, alias_p=0.3) if rng.random() < 0.34 else []
        if r2 and not _has_anchor(r2):
            r2 = []
        for am in ("stop", "left", "right", "rename"):
            recs.append({"id": len(recs), "l": l, "r": r, "r2": r2, "h": h, "a": a, "o": o, "s": s, "am": am})
    exp = mergeobs.batch_expectations(ctx, recs, "rnd")
    items = []
    for i, r in enumerate(recs):
        e = exp[r["id"]]
        rec = {"key": "rnd%d" % r["id"], "l": r["l"], "r": r["r"],
               "group": {"res": {"ok": e["ok"], "info": e["info"], "out": e["out"]},
                         "cfgs": ["%s/%s/%s/%s/%s" % (r["h"], r["a"], r["o"], r["s"], r["am"])]}}
        if r["r2"]:
            rec["r2"] = r["r2"]
        items.append((rec, [("block", False, bool((i // 4) % 2))]))
    total = info = conflicts = 0
    for n, out in querycorpus.pmap(_work, items, chunk=100):
        total += n
        for sig, desc, rp in out:
            if sig == "info":
                info += 1
            else:
                ctx.violation("random:" + sig, desc, rp)
    for rec, _ in items:
        la, ra = _defs(rec["l"]), _defs(rec["r"])
        if any(k in ra and ra[k] != v for k, v in la.items()):
            conflicts += 1
    return {"random_merges": total, "random_conflicting": conflicts, "random_informational": info}


def run(ctx):
    cfgs = ["MC_Merge_anch.cfg", "MC_Merge_anch_r.cfg"] if ctx.quick else ["MC_Merge_anch_t.cfg"]
    recs = []
    for cfg in cfgs:
        f = ctx.path(cfg + ".cases")
        r = core.run_tlc(ctx, "MC_Merge", cfg, env={"CASES_OUT": f}, timeout=7200)
        if r["violated"]:
            raise core.MachineryError("%s violated in %s (see %s)" % (r["violated"], cfg, r["log"]))
        # only pairs in which both documents carry an anchor are C10's subject (the rest is C05's)
        recs.extend(x for x in core.read_csv_json_lines(f) if _has_anchor(x["l"]) and _has_anchor(x["r"]))
        os.remove(f)
    # the two documents are spelled differently (plain vs quoted strings) in half of the cases: equal values
    # must not become conflicts because of their spelling
    items = [(rec, [("block", False, bool(i % 2))]) for i, rec in enumerate(recs)]
    total = info = 0
    conflicts = 0
    for n, out in querycorpus.pmap(_work, items, chunk=200):
        total += n
        for sig, desc, rp in out:
            if sig == "info":
                info += 1
            else:
                ctx.violation(sig, desc, rp)
    for rec in recs:
        la = {n["anchor"]: (n["t"], n["v"]) for n in rec["l"] if n["anchor"] and not n["alias"]}
        ra = {n["anchor"]: (n["t"], n["v"]) for n in rec["r"] if n["anchor"] and not n["alias"]}
        if any(k in ra and ra[k] != v for k, v in la.items()):
            conflicts += len(rec["group"]["cfgs"])
    rnd = random_pairs(ctx, 150 if ctx.quick else 2500)
    total += rnd["random_merges"]
    conflicts += rnd["random_conflicting"]
    info += rnd["random_informational"]
    ctx.coverage.update(rnd)
    ctx.informational = info
    ctx.coverage.update({
        "evaluations": total, "distinct_nontrivial": conflicts, "result_groups": len(recs), "model_drift": info,
        "rule": "every pair of generator documents in which both sides define an anchor x 4 anchor policies x 6 merge-policy combinations; non-trivial = the pair has an equal-name/different-value conflict",
        "traces_validated_against_impl": total, "exhaustive": True,
        "samples": [recs[len(recs) // 2]] if recs else [],
        "trusted_base": ["TLC 1.8", "spec/YMerge.tla ResolveAnchors", "yamlpath's strict loader (duplicate anchors are errors)"],
    })


def replay(path):
    with open(path) as fh:
        rp = json.load(fh)["replay"]
    rec = dict(rp["rec"])
    rec["group"] = dict(rec["group"], cfgs=[rp["cfg"]])
    n, out = judge(rec, [(rp["style"], rp["plain"], rp.get("rplain", rp["plain"]))])
    for sig, desc, _ in out:
        print(sig, "::", desc)
    bad = any(o[0] != "info" for o in out)
    print("VIOLATION property=C10 replay=%s" % path if bad else "no violation")
    return 1 if bad else 0
