"""C11 - a merge aimed at a path changes only what lies under that path.

S->C: TLC (MC_MergeAt) enumerates left documents x target paths of the left
document's vocabulary (existing single target, several targets via wildcard or
search, missing creatable and non-creatable paths) x right documents of every
root type x a slice of the C05 policies; spec/YMerge.tla MergeAt defines the
result (each target becomes MergeRoot(target, rhs); a missing straight path is
created to hold rhs; otherwise a merge error); the frame law is a TLC invariant.
Each case is replayed through MergerConfig(args.mergeat=path) + merge_with and
the whole merged document is compared with the model (so both the merged
subtrees and the frame outside them are checked), or the error outcome.
"""
import json
import os

from harness import core, querycorpus

LEVEL = "model_checking"


def judge(rec, variants):
    from harness import absdoc, mergeobs, editobs
    out = []
    n = 0
    g = rec["group"]
    exp = g["res"]
    for style, plain in variants:
        for cname in g["cfgs"]:
            n += 1
            cfgname, path = cname.split("@", 1)
            cfgname, _, extra = cfgname.partition("#")
            kw = {}
            if extra.startswith("rule:"):      # a [rules] entry in left-document coordinates, e.g. rule:/t/k=left (MC_MergeAtRules)
                k, m = extra[5:].rsplit("=", 1)
                kw["rules"] = {k: m}
            elif extra.startswith("key:"):
                k, m = extra[4:].rsplit("=", 1)
                kw["keys"] = {k: m}
            oc, got, mg = mergeobs.run_merge(rec["l"], rec["r"], cfgname, style, plain, mergeat=path, **kw)
            problem = None
            if oc == "crash":
                problem = ("crash", got)
            elif exp["ok"]:
                if oc != "ok":
                    problem = ("outcome", "expected a merged document, got %s %s" % (oc, got))
                else:
                    d = editobs.diff_tables(_strip(got), _strip(exp["out"]))
                    if d:
                        problem = ("document", "%s | got %s" % (d, absdoc.concretise(got, "flow").strip()))
            elif oc == "ok":
                problem = ("outcome", "expected a merge error, got the document %s" % absdoc.concretise(got, "flow").strip())
            if problem:
                if exp["info"]:
                    out.append(("info", None, None))
                else:
                    h, a, o, s = cfgname.split("/")
                    tk = _target_kinds(rec["l"], path)
                    sig = "%s:%s<-%s:%s:%s" % (problem[0], tk, rec["r"][0]["k"], _pathkind(path), _dim(rec["r"], h, a, o, s))
                    if extra:
                        sig += ":" + extra.split("=")[0].replace(":/", ":").replace("/", ".")
                    if problem[0] == "crash":
                        sig += ":" + problem[1].split(" @ ")[-1].split(" ")[-1]
                    out.append((sig, "merge %s <- %s at %s under %s: %s" % (
                        absdoc.concretise(rec["l"], "flow").strip(), absdoc.concretise(rec["r"], "flow").strip(), path, cfgname, problem[1]),
                        {"kind": "mergeat", "rec": rec, "cfg": cname, "style": style, "plain": plain}))
    return n, out


def _strip(tab):
    return [dict(n, anchor="", alias=0) for n in tab]


def _pathkind(path):
    if path in ("", "/"):
        return "root"
    if "*" in path:
        return "wildcard"
    if "=" in path:
        return "search"
    return "straight%d" % path.count("/")


def _target_kinds(ldoc, path):
    from harness import absdoc, queryobs
    data = absdoc.load(absdoc.concretise(ldoc))
    loc = absdoc.Locator(data)
    r = queryobs.run_query(data, loc, path or "/", "must")
    kinds = sorted({("map" if isinstance(h.node, dict) else "seq" if isinstance(h.node, list) else
                     "set" if isinstance(h.node, set) or type(h.node).__name__ == "CommentedSet" else "s") for h in r["hits"]})
    return "+".join(kinds) or "missing"


def _dim(rdoc, h, a, o, s):
    k = rdoc[0]["k"]
    if k == "map":
        return "hashes=" + h
    if k == "seq":
        aoh = rdoc[0]["kids"] and rdoc[rdoc[0]["kids"][0] - 1]["k"] == "map"
        return ("aoh=" + o) if aoh else ("arrays=" + a)
    if k == "set":
        return "sets=" + s
    return "scalar"


def _work(items):
    return [judge(rec, v) for rec, v in items]


def run(ctx):
    cfgs = ["MC_MergeAt_q.cfg"] if ctx.quick else ["MC_MergeAt_t.cfg"]
    recs = []
    for cfg in cfgs:
        f = ctx.path(cfg + ".cases")
        r = core.run_tlc(ctx, "MC_MergeAt", cfg, env={"CASES_OUT": f}, timeout=7200)
        if r["violated"]:
            raise core.MachineryError("%s violated in %s (see %s)" % (r["violated"], cfg, r["log"]))
        recs.extend(core.read_csv_json_lines(f))
        os.remove(f)
    # per-path rules / identity keys addressed beneath and at a merge point (MC_MergeAtRules)
    f = ctx.path("MC_MergeAtRules.cases")
    r = core.run_tlc(ctx, "MC_MergeAtRules", "MC_MergeAtRules_q.cfg", env={"CASES_OUT": f}, timeout=7200)
    if r["violated"]:
        raise core.MachineryError("%s violated in MC_MergeAtRules (see %s)" % (r["violated"], r["log"]))
    recs.extend(core.read_csv_json_lines(f))
    os.remove(f)
    items = [(rec, [("block", False)]) for rec in recs]
    total = info = nontrivial = 0
    for n, out in querycorpus.pmap(_work, items, chunk=200):
        total += n
        for sig, desc, rp in out:
            if sig == "info":
                info += 1
            else:
                ctx.violation(sig, desc, rp)
    for rec in recs:
        if rec["group"]["res"]["ok"] and rec["group"]["res"]["out"] != rec["l"]:
            nontrivial += len(rec["group"]["cfgs"])
    ctx.informational = info
    ctx.coverage.update({
        "evaluations": total, "distinct_nontrivial": nontrivial, "result_groups": len(recs), "model_drift": info,
        "rule": "every pair of generator documents x every target path of the left document's vocabulary x 6 policy combinations; non-trivial = the merge changes the left document",
        "traces_validated_against_impl": total, "exhaustive": True,
        "samples": [recs[len(recs) // 2]] if recs else [],
        "trusted_base": ["TLC 1.8", "spec/YMerge.tla MergeAt", "harness/absdoc.py"],
    })


def replay(path):
    with open(path) as fh:
        rp = json.load(fh)["replay"]
    rec = dict(rp["rec"])
    rec["group"] = dict(rec["group"], cfgs=[rp["cfg"]])
    n, out = judge(rec, [(rp["style"], rp["plain"])])
    for sig, desc, _ in out:
        print(sig, "::", desc)
    bad = any(o[0] != "info" for o in out)
    print("VIOLATION property=C11 replay=%s" % path if bad else "no violation")
    return 1 if bad else 0
