"""C12 - search operators compare values by the documented typed rules.

S->C: TLC (MC_Compare) enumerates the complete grid operator x needle x haystack
over a pool of 40 representative scalars (+15 regular expressions), checks the
algebraic laws of the documented comparison on it and emits the expected answer
of every cell; each cell is replayed into Searches.search_matches with the
haystack loaded from YAML by yamlpath's own loader.  Cells the documentation
leaves open (Silent in spec/YCompare.tla) are informational.
Inversion: for every single-segment search of the MC_Query corpus over a
sequence, set, or hash key names, the plain and the inverted query must
partition the candidates (checked on the model by TLC and on the real code).
"""
import collections
import json

from harness import core, querycorpus

LEVEL = "model_checking"
METHODS = None


def _methods():
    from yamlpath.enums import PathSearchMethods
    return {"=": PathSearchMethods.EQUALS, "^": PathSearchMethods.STARTS_WITH, "$": PathSearchMethods.ENDS_WITH,
            "%": PathSearchMethods.CONTAINS, "<": PathSearchMethods.LESS_THAN, ">": PathSearchMethods.GREATER_THAN,
            "<=": PathSearchMethods.LESS_THAN_OR_EQUAL, ">=": PathSearchMethods.GREATER_THAN_OR_EQUAL,
            "=~": PathSearchMethods.REGEX}


def real_scalar(hay):
    from harness import absdoc
    n = absdoc.node("seq")
    n["kids"] = [2]
    s = absdoc.node("s", hay["t"], hay["v"], 1)
    data = absdoc.load(absdoc.concretise([n, s]))
    got = absdoc.scalar_tv(data[0])
    exp = (hay["t"], "true" if hay["t"] == "bool" and hay["v"].lower() == "true" else
           "false" if hay["t"] == "bool" else repr(float(hay["v"])) if hay["t"] == "float" else hay["v"])
    if got != exp:
        raise core.MachineryError("scalar %r loaded as %r" % (hay, got))
    return data[0]


def judge_cells(cells):
    from yamlpath.common import Searches
    from yamlpath.exceptions import YAMLPathException
    meth = _methods()
    out = []
    cache = {}
    for c in cells:
        key = (c["hay"]["t"], c["hay"]["v"])
        if key not in cache:
            cache[key] = real_scalar(c["hay"])
        try:
            got = bool(Searches.search_matches(meth[c["op"]], c["needle"], cache[key]))
            err = ""
        except YAMLPathException as ex:
            got, err = None, "yperr"
        except Exception as ex:  # pylint: disable=broad-except
            got, err = None, "%s: %s" % (type(ex).__name__, ex)
        out.append((c, got, err))
    return out


def _cells_work(chunk):
    return judge_cells(chunk)


def _order_work(chunks):
    """Each item (order, cells) is evaluated in a process of its own (see the maxtasksperchild pool in run)."""
    out = []
    for order, cells in chunks:
        kinds = ["null", "bool", "int", "float", "str"]
        sign = 1 if order == "a" else -1
        seq = sorted(cells, key=lambda c: (sign * kinds.index(c["hay"]["t"]), c["hay"]["v"], c["op"], c["needle"]))
        out.append((order, [((c["op"], c["needle"], c["hay"]["t"], c["hay"]["v"]), got if not err else err) for c, got, err in judge_cells(seq)]))
    return out


def run(ctx):
    f = ctx.path("grid.cases")
    r = core.run_tlc(ctx, "MC_Compare", "MC_Compare.cfg", env={"CASES_OUT": f})
    if r["violated"]:
        ctx.coverage.setdefault("model_predictions", []).append("MC_Compare: %s violated" % r["violated"])
    cells = core.read_csv_json_lines(f)
    n_silent = n_det = drift = 0
    for c, got, err in querycorpus.pmap(_cells_work, cells, chunk=400):
        illformed_regex = c["op"] == "=~" and c["silent"]
        if err and err != "yperr":
            ctx.violation("raises:%s:%s" % (c["op"], err.split(":")[0]),
                          "search_matches(%s, %r, %r) raised %s" % (c["op"], c["needle"], c["hay"], err), {"kind": "cell", "cell": c})
            continue
        if err == "yperr":
            if not illformed_regex:
                ctx.violation("raises:%s:yperr" % c["op"], "search_matches(%s, %r, %r) raised a YAML Path error for a well-formed term" % (
                    c["op"], c["needle"], c["hay"]), {"kind": "cell", "cell": c})
            else:
                n_silent += 1
            continue
        if c["silent"]:
            n_silent += 1
            if got != c["m"]:
                drift += 1
        else:
            n_det += 1
            if got != c["m"]:
                ctx.violation("cell:%s:%s-vs-%s" % (c["op"], c["hay"]["t"], "num" if c["needle"].lstrip("+-").replace(".", "", 1).isdigit() else "text"),
                              "search_matches(%s, needle=%r, haystack=%r) = %s, documented rules give %s" % (
                                  c["op"], c["needle"], c["hay"], got, c["m"]), {"kind": "cell", "cell": c})
    # ---- search_matches is a function of (operator, term, value): the specification's Matches has no state.  The whole grid is
    # evaluated in two fresh processes, in two different orders (by value kind ascending / descending); the answers must agree.
    import multiprocessing as mp
    with mp.Pool(2, maxtasksperchild=1) as pool:
        res = dict(r[0] for r in pool.map(_order_work, [[("a", cells)], [("b", cells)]], chunksize=1))
    ansa, ansb = dict(res["a"]), dict(res["b"])
    bykey = {(c["op"], c["needle"], c["hay"]["t"], c["hay"]["v"]): c for c in cells}
    for k in ansa:
        if ansa[k] != ansb[k]:
            c = bykey[k]
            ctx.violation("stateful:%s:%s" % (c["op"], c["hay"]["t"]),
                          "search_matches(%s, needle=%r, haystack=%r) answered %s when values were met in the order null, bool, int, float, str and %s in the "
                          "reverse order (fresh process each)" % (c["op"], c["needle"], c["hay"], ansa[k], ansb[k]), {"kind": "cell", "cell": c})
    ctx.coverage["order_independence_cells"] = 2 * len(cells)
    # ---- C->S: seeded random scalars and terms beyond the pool (Batch_Compare)
    import random
    rng = random.Random(ctx.seed)

    def rnd_text():
        return "".join(rng.choice("abcAB012 .-") for _ in range(rng.randint(0, 5)))

    def rnd_scalar():
        k = rng.random()
        if k < 0.3:
            return {"t": "int", "v": str(rng.randint(-100000, 100000))}
        if k < 0.5:
            return {"t": "float", "v": "%d.%s" % (rng.randint(-999, 999), rng.choice(["5", "25", "0", "75", "1"]))}
        if k < 0.55:
            return {"t": "bool", "v": rng.choice(["true", "false"])}
        if k < 0.6:
            return {"t": "null", "v": ""}
        return {"t": "str", "v": rng.choice([rnd_text(), str(rng.randint(-50, 50)), "%d.5" % rng.randint(0, 9)])}

    ops = list(_methods())
    recs = []
    for i in range(3000 if ctx.quick else 40000):
        h = rnd_scalar()
        op = rng.choice(ops)
        needle = rng.choice([rnd_text(), str(rng.randint(-100, 100)), "%d.5" % rng.randint(0, 9), h["v"], h["v"][:2]])
        if op == "=~":
            needle = rng.choice(["a", "^a", "b$", "a.b", "ab*", "0*1", "^.*$", needle.replace(" ", "")])
        if h["t"] == "float" and h["v"].startswith("-0."):
            continue
        recs.append({"id": len(recs), "op": op, "needle": needle, "t": h["t"], "v": h["v"]})
    rin, rout = ctx.path("rand.in.json"), ctx.path("rand.out.json")
    with open(rin, "w") as fh:
        json.dump(recs, fh)
    core.run_tlc(ctx, "Batch_Compare", "Batch_Compare.cfg", env={"RECORDS_IN": rin, "VERDICTS_OUT": rout}, workers=1, name="rand")
    with open(rout) as fh:
        outs = {o["id"]: o for o in json.load(fh)}
    rcells = [{"op": r["op"], "needle": r["needle"], "hay": {"t": r["t"], "v": r["v"]}, "m": outs[r["id"]]["m"], "silent": outs[r["id"]]["silent"]}
              for r in recs]
    n_rand_det = 0
    for c, got, err in querycorpus.pmap(_cells_work, rcells, chunk=400):
        if err and err != "yperr":
            ctx.violation("raises:%s:%s" % (c["op"], err.split(":")[0]),
                          "search_matches(%s, %r, %r) raised %s" % (c["op"], c["needle"], c["hay"], err), {"kind": "cell", "cell": c})
        elif err == "yperr":
            if not (c["op"] == "=~" and c["silent"]):
                ctx.violation("raises:%s:yperr" % c["op"], "search_matches(%s, %r, %r) raised a YAML Path error for a well-formed term" % (
                    c["op"], c["needle"], c["hay"]), {"kind": "cell", "cell": c})
        elif c["silent"]:
            n_silent += 1
            drift += got != c["m"]
        else:
            n_rand_det += 1
            if got != c["m"]:
                ctx.violation("cell:%s:%s-random" % (c["op"], c["hay"]["t"]),
                              "search_matches(%s, needle=%r, haystack=%r) = %s, documented rules give %s" % (
                                  c["op"], c["needle"], c["hay"], got, c["m"]), {"kind": "cell", "cell": c})
    ctx.coverage["random_cells"] = len(rcells)
    ctx.coverage["random_cells_determined"] = n_rand_det
    # ---- inversion over candidate sets (MC_Query corpus, single-segment searches)
    corpus = querycorpus.tlc_corpus(ctx, "MC_Query", ["MC_Query_q1.cfg"] if ctx.quick else ["MC_Query_t1.cfg"])
    items = [(d, [c for c in cs if c["ty"] == "SEARCH"]) for d, cs in corpus if d[0]["k"] in ("seq", "set", "map")]
    pairs = 0
    for res in querycorpus.pmap(_inv_work, items, chunk=20):
        pairs += res[0]
        for sig, desc, rp in res[1]:
            ctx.violation(sig, desc, rp)
    ctx.informational = n_silent
    ctx.coverage.update({
        "evaluations": len(cells) + pairs, "distinct_nontrivial": n_det, "grid_cells": len(cells),
        "determined_cells": n_det, "silent_cells": n_silent, "model_drift": drift, "inversion_pairs": pairs,
        "rule": "complete grid 9 operators x 40 needles (15 regex needles for =~) x 40 haystacks; non-trivial = a cell the documentation determines; inversion pairs = (plain, inverted) single-segment searches over every sequence/set/hash document of the MC_Query corpus",
        "traces_validated_against_impl": len(cells) + pairs, "exhaustive": True,
        "samples": [cells[i] for i in (0, len(cells) // 2, len(cells) - 1)],
        "trusted_base": ["TLC 1.8", "spec/YCompare.tla Matches as the reading of the documentation", "yamlpath's loader for scalar concretisation"],
    })


def _inv_work(items):
    from harness import absdoc, queryobs
    pairs = 0
    out = []
    for doc, cases in items:
        text = absdoc.concretise(doc)
        data = absdoc.load(text)
        loc = absdoc.Locator(data)
        kids = doc[0]["kids"]
        by = {}
        for c in cases:
            # key: the path without its inversion mark
            k = c["dot"].replace("!", "", 1) if "!" in c["dot"] else c["dot"]
            by.setdefault(k, {})["inv" if "!" in c["dot"] else "plain"] = c
        for k, pc in by.items():
            if len(pc) != 2 or pc["plain"]["err"] or pc["inv"]["err"]:
                continue
            attr_dot = k.startswith("[.")
            if doc[0]["k"] == "map" and not attr_dot:
                continue        # an attribute search on a hash has a single candidate: code only
            rp = queryobs.run_query(data, loc, pc["plain"]["dot"], "must")
            ri = queryobs.run_query(data, loc, pc["inv"]["dot"], "must")
            if rp["out"].startswith("crash") or ri["out"].startswith("crash") or "yperr" in (rp["out"], ri["out"]):
                continue        # C15's subject
            pairs += 1
            hp = [h.node for h in rp["hits"]]
            hi = [h.node for h in ri["hits"]]
            cand = [loc.pos[i - 1][0] for i in kids]
            ok = collections.Counter(id(x) for x in hp + hi) == collections.Counter(id(x) for x in cand)
            if not ok:
                out.append(("inversion:%s" % doc[0]["k"], "doc %s: %r selects %d, %r selects %d of %d candidates" % (
                    text.replace("\n", "|"), pc["plain"]["dot"], len(hp), pc["inv"]["dot"], len(hi), len(cand)),
                    {"kind": "inversion", "doc": doc, "plain": pc["plain"], "inv": pc["inv"]}))
    return [(pairs, out)]


def replay(path):
    with open(path) as fh:
        rp = json.load(fh)["replay"]
    if rp["kind"] == "cell":
        (c, got, err), = judge_cells([rp["cell"]])
        print("cell", c, "real:", got, err)
        bad = (err not in ("", "yperr")) or (not c["silent"] and got != c["m"])
    else:
        res = _inv_work([(rp["doc"], [rp["plain"], rp["inv"]])])
        bad = bool(res[0][1])
        print(res[0][1])
    print("VIOLATION property=C12 replay=%s" % path if bad else "no violation")
    return 1 if bad else 0
