"""C13 - search keywords select by their definitions.

S->C: TLC (MC_Keywords) builds collections one member at a time (list of scalars,
Array-of-Hashes, Hash-of-Hashes with a shared attribute that is present, absent,
repeated or null; the same list wrapped under a key), evaluates every keyword
(max, min, unique, distinct, has_child, name, parent; inverted or not; with and
without parameter) with the declarative definitions of spec/YQuery.tla KwStep,
checks the set laws of C13 and emits the expected members.  The keyword families
of MC_Query (keywords after key / index / * / ** segments on general documents,
parent(n) for every depth) are replayed as well.  Projection: the member objects
selected (as a set when the keyword is inverted: order is not part of C13), the
key/index for name(), YAML-Path-error vs result outcome.
"""
import json

from harness import core, querycorpus

LEVEL = "model_checking"


def name_of(h):
    """What name() yielded, in the model's vocabulary."""
    from harness import absdoc
    t, v = absdoc.scalar_tv(h.node)
    parent = h.parent
    if isinstance(parent, list):
        return "i:%s" % v
    if isinstance(parent, dict):
        return "k:%s:%s" % (t, v)
    return "m:%s" % v


def judge_doc(doc, cases, variants):
    from harness import absdoc, queryobs
    out = []
    stats = {"cases": 0, "verdict": 0, "info": 0, "info_mismatch": 0, "nontrivial": 0}
    for style, plain in variants:
        text = absdoc.concretise(doc, style, plain)
        data = absdoc.load(text)
        loc = absdoc.Locator(data)
        if not absdoc.same_table(loc.doc, doc):
            raise core.MachineryError("concretisation does not reload to the abstract document: %r" % text)
        for c in cases:
            if "KEYWORD" not in c["ty"]:
                continue
            stats["cases"] += 1
            stats["info" if c["info"] else "verdict"] += 1
            exp_out = "yperr" if c["err"] else ("ok" if c["n"] > 0 else "unmatched")
            if exp_out == "ok":
                stats["nontrivial"] += 1
            problems = []
            for ptxt in (c["dot"], c["sl"]):
                r = queryobs.run_query(data, loc, ptxt, "must")
                if r["out"] == "ok" and r["n"] == 0:
                    r["out"] = "unmatched"
                if r["out"].startswith("crash"):
                    problems.append("%r raised %s" % (ptxt, r["msg"]))
                elif r["out"] != exp_out:
                    problems.append("%r: expected %s, got %s %s" % (ptxt, exp_out, r["out"], r.get("msg", "")))
                elif r["out"] == "ok":
                    if c["names"]:
                        got = [name_of(h) for h in r["hits"]]
                        if got != c["names"]:
                            problems.append("%r: name() gave %s, expected %s" % (ptxt, got, c["names"]))
                    elif c["unordered"]:
                        ids = sorted(c["ids"])
                        got = sorted(r["hits"], key=lambda h: min(loc.find_identity(h.node) or [0]))
                        gl = sorted(i for h in r["hits"] for i in loc.find_identity(h.node)[:1])
                        if len(r["hits"]) != len(ids) or not all(any(loc.holds(i, h.node) for h in r["hits"]) for i in ids):
                            problems.append("%r: expected members %s (any order), got %s" % (ptxt, ids, queryobs.describe(loc, r["hits"])))
                    elif not queryobs.same_nodes(loc, r["hits"], c["ids"]):
                        problems.append("%r: expected members %s, got %s" % (ptxt, c["ids"], queryobs.describe(loc, r["hits"])))
            if not absdoc.same_table(absdoc.abstract(data), doc):
                data = absdoc.load(text)
                loc = absdoc.Locator(data)
            if problems:
                if c["info"]:
                    stats["info_mismatch"] += 1
                else:
                    kw = c["dot"].split("[")[-1].split("(")[0].lstrip("!")
                    inv = "!" if "[!" in c["dot"] else ""
                    shape = doc[0]["k"] + ("-of-maps" if doc[0]["kids"] and all(doc[k - 1]["k"] == "map" for k in doc[0]["kids"]) else "")
                    out.append(("%s%s:%s:%s" % (inv, kw, problems[0].split(":")[1].strip().split(" ")[0] if ":" in problems[0] else "x", shape),
                                "doc %s: %s" % (text.replace("\n", "|"), "; ".join(problems)),
                                {"kind": "query", "doc": doc, "style": style, "plain": plain, "case": c}))
    return out, stats


def _work(items):
    return [judge_doc(d, cs, v) for d, cs, v in items]


def _params_work(cases):
    from yamlpath.path import SearchKeywordTerms
    from yamlpath.enums import PathSearchKeywords
    bad = []
    for c in cases:
        try:
            got = (True, list(SearchKeywordTerms(False, PathSearchKeywords.MAX, c["t"]).parameters))
        except ValueError:
            got = (False, [])
        except Exception as ex:  # pylint: disable=broad-except
            got = ("crash", type(ex).__name__)
        if got != (c["ok"], c["params"]):
            bad.append((c, got))
    return bad


def run(ctx):
    # parameter splitting (searchkeywordterms.py:66-139): the splitter machine of spec/YKwParams.tla,
    # every text up to the bound, replayed into SearchKeywordTerms.parameters
    import os
    f = ctx.path("kwparams.cases")
    r = core.run_tlc(ctx, "MC_KwParams", "MC_KwParams.cfg", env={"CASES_OUT": f})
    if r["violated"]:
        raise core.MachineryError("%s violated in MC_KwParams (see %s)" % (r["violated"], r["log"]))
    pcs = core.read_csv_json_lines(f)
    os.remove(f)
    for c, got in querycorpus.pmap(_params_work, pcs, chunk=2000):
        ctx.violation("params:%s" % ("raises" if got[0] == "crash" else "split"),
                      "parameters %r split into %s, the splitter machine gives ok=%s %s" % (c["t"], got, c["ok"], c["params"]),
                      {"kind": "params", "case": c})
    ctx.coverage["parameter_texts"] = len(pcs)
    corpus = querycorpus.tlc_corpus(ctx, "MC_Keywords", ["MC_Keywords_q.cfg"] if ctx.quick else ["MC_Keywords_t.cfg"])
    corpus += querycorpus.tlc_corpus(ctx, "MC_Query", ["MC_Query_c15q.cfg"] if ctx.quick else ["MC_Query_c15t.cfg"])
    items = [(d, cs, querycorpus.variant_of(d, ctx.seed, ctx.quick)) for d, cs in corpus]
    tot = {"cases": 0, "verdict": 0, "info": 0, "info_mismatch": 0, "nontrivial": 0}
    for out, stats in querycorpus.pmap(_work, items, chunk=8):
        for k in tot:
            tot[k] += stats[k]
        for sig, desc, rp in out:
            ctx.violation(sig, desc, rp)
    ctx.informational = tot["info"]
    ctx.coverage.update({
        "evaluations": tot["cases"], "distinct_nontrivial": tot["nontrivial"], "documents": len(corpus),
        "verdict_cases": tot["verdict"], "informational_cases": tot["info"], "model_drift": tot["info_mismatch"],
        "rule": "every collection of MC_Keywords (lists <= MaxList over 7 scalars, AoH/HoH <= MaxRec over 6 record kinds) x every keyword/inversion/parameter, plus the keyword paths of the MC_Query corpus; non-trivial = the keyword selects at least one member",
        "traces_validated_against_impl": tot["cases"], "exhaustive": True,
        "samples": [{"doc": corpus[7][0], "case": corpus[7][1][3]}] if len(corpus) > 7 else [],
        "trusted_base": ["TLC 1.8", "spec/YQuery.tla KwStep as the reading of property C13 / README 'Search Keywords'"],
    })


def replay(path):
    with open(path) as fh:
        rp = json.load(fh)["replay"]
    if rp.get("kind") == "params":
        bad = _params_work([rp["case"]])
        print(bad)
        print("VIOLATION property=C13 replay=%s" % path if bad else "no violation")
        return 1 if bad else 0
    out, _ = judge_doc(rp["doc"], [rp["case"]], [(rp["style"], rp["plain"])])
    for sig, desc, _ in out:
        print(sig, "::", desc)
    print("VIOLATION property=C13 replay=%s" % path if out else "no violation")
    return 1 if out else 0
