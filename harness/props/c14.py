"""C14 - parsing any text ends in segments or a YAML Path error.

S->C: TLC enumerates every text over the token alphabet (MC_Parser), checks the
design theorem NoCrash on the mirrored state machine and emits the predicted
outcome of each parse; every text is replayed into the real YAMLPath class.
C->S: seeded random longer texts (and arbitrary Unicode) are parsed by the real
class, recorded (outcome, segments, canonical string, per-character internal
state via sys.settrace) and validated by TLC folding the same step function.

Verdict (projection = exception class + termination): a violation is a text for
which any of .escaped / .unescaped / str() / the separator setter raises
anything other than YAMLPathException.  Disagreement with the model that does
not change the exception class is model drift (reported, never an alarm).
"""
import json
import os
import re
import random
import multiprocessing as mp

from harness import core

LEVEL = "model_checking"
TOKENS = [".", "/", "[", "]", "(", ")", "'", '"', "\\", " ", "&", "*", "!", "=", "^", "$", "%", "<", ">", "~",
          "+", "-", ":", ",", "a", "b", "1", "max", "name", "parent", "has_child", "0", "x"]
UNICODE = ["é", "中", "\U0001F600", "²", "②", "١", "\t", "\n", " ", "​", "\x00"]


def _replay_chunk(chunk):
    from harness import pathobs
    out = []
    for c in chunk:
        o = pathobs.observe(c["t"])
        crash = "c" in o["code"] or o["str_code"] == "c" or o.get("other_crash")
        drift = None
        if o["code"] != c["code"]:
            drift = "code"
        else:
            for k in ("ae", "au", "de", "fe", "s"):
                if k in c and c[k] != o[k]:
                    drift = k
                    break
        if crash or drift:
            out.append({"t": c["t"], "crash": bool(crash), "drift": drift, "model": c.get("code"),
                        "real": o["code"], "detail": o["detail"], "other": o.get("other_crash")})
    return len(chunk), out


def _chunks(seq, n):
    for i in range(0, len(seq), n):
        yield seq[i:i + n]


def replay_cases(ctx, cases):
    bad = []
    with mp.Pool(core.NCPU) as pool:
        for n, out in pool.imap_unordered(_replay_chunk, _chunks(cases, 2000)):
            bad.extend(out)
    return bad


def _record_chunk(texts):
    from harness import pathobs
    recs = []
    for i, t, want_steps in texts:
        o = pathobs.observe(t)
        steps = []
        if want_steps:
            steps = pathobs.trace_escaped_parse(t)
            if len(steps) == len(t) + 1 and steps[-1]["id"] == "<raised>":
                steps = steps[:-1]      # raised by the post-loop balance checks
        recs.append({"id": i, "t": t, "code": o["code"], "ae": o["ae"], "au": o["au"], "de": o["de"], "fe": o["fe"],
                     "s": o["s"], "steps": steps, "str_code": o["str_code"], "other": o.get("other_crash", []),
                     "detail": o["detail"]})
    return recs


def gen_random(rng, n, maxtok):
    texts = []
    for _ in range(n):
        k = rng.randint(1, maxtok)
        texts.append("".join(rng.choice(TOKENS) for _ in range(k)))
    return texts


def is_ascii_model_text(t):
    # the model's text functions cover printable ASCII; int() over "_" or odd whitespace is outside it
    return all(32 <= ord(ch) < 127 for ch in t) and not re.search(r"[0-9+-]_|_[0-9]", t)


def validate_records(ctx, recs, name):
    """C->S: TLC evaluates the specification on the recorded texts and compares."""
    rin = ctx.path(name + ".records.json")
    rout = ctx.path(name + ".verdicts.json")
    with open(rin, "w") as fh:
        json.dump([{k: r[k] for k in ("id", "t", "code", "ae", "au", "de", "fe", "s", "steps")} for r in recs], fh)
    core.run_tlc(ctx, "Trace_Parser", "Trace_Parser.cfg", env={"RECORDS_IN": rin, "VERDICTS_OUT": rout},
                 workers=1, name=name)
    if not os.path.exists(rout):
        raise core.MachineryError("Trace_Parser wrote no verdicts (%s)" % name)
    with open(rout) as fh:
        return json.load(fh)


def run(ctx):
    rng = random.Random(ctx.seed)
    # --- design level: the pinned (pre-fix) machine must show the crash, the repaired one must not
    pinned = core.run_tlc(ctx, "MC_Parser", "MC_Parser_pinned.cfg", env={"CASES_OUT": ctx.path("pinned.txt")})
    cfgs = ["MC_Parser_full3.cfg", "MC_Parser_core4.cfg", "MC_Parser_ctx_brk.cfg", "MC_Parser_ctx_kwgap.cfg"] if ctx.quick else \
           ["MC_Parser_full4.cfg", "MC_Parser_core6.cfg"] + ["MC_Parser_ctx_%s.cfg" % c for c in
                                                             ("brk", "col", "srch", "kw", "kwgap", "quo", "rex", "sl")]
    cases = []
    for cfg in cfgs:
        f = ctx.path(cfg + ".cases")
        r = core.run_tlc(ctx, "MC_Parser", cfg, env={"CASES_OUT": f}, timeout=7200)
        if r["violated"]:
            # the specification predicts a crash: find it in the real code through the replay below
            ctx.coverage.setdefault("model_predictions", []).append("%s violated in %s" % (r["violated"], cfg))
        cases.extend(core.read_csv_json_lines(f))
        os.remove(f)
    seen = set()
    uniq = []
    for c in cases:
        if c["t"] not in seen or "ae" in c:
            seen.add(c["t"])
            uniq.append(c)
    bad = replay_cases(ctx, uniq)
    drift = 0
    for b in bad:
        if b["crash"]:
            exc = (b["other"] or b["detail"] or ["?"])[0].split(":")[0]
            ctx.violation("parse-crash:%s" % exc, "text %r raised %s" % (b["t"], b["other"] or b["detail"]),
                          {"kind": "text", "text": b["t"]})
        elif b["drift"]:
            drift += 1
    # --- C->S: random longer texts, with per-character state traces
    n_rand = 3000 if ctx.quick else 40000
    texts = gen_random(rng, n_rand, 14)
    uni = []
    for _ in range(n_rand // 4):
        k = rng.randint(1, 10)
        uni.append("".join(rng.choice(TOKENS + UNICODE) for _ in range(k)))
    jobs = [(i, t, i % 3 == 0) for i, t in enumerate(texts + uni)]
    recs = []
    with mp.Pool(core.NCPU) as pool:
        for part in pool.imap_unordered(_record_chunk, _chunks(jobs, 500)):
            recs.extend(part)
    for r in recs:
        if "c" in r["code"] or r["str_code"] == "c" or r["other"]:
            d = (r["other"] or r["detail"] or ["?"])
            ctx.violation("parse-crash:%s" % str(d[0]).split(":")[0], "text %r raised %s" % (r["t"], d),
                          {"kind": "text", "text": r["t"]})
    modelable = [r for r in recs if is_ascii_model_text(r["t"])]
    tdrift = 0
    validated = 0
    traces = 0
    for part in _chunks(modelable, 4000):
        ver = validate_records(ctx, part, "trace_%d" % validated)
        validated += len(ver)
        traces += sum(1 for r in part if r["steps"])
        for v in ver:
            if not v["ok"]:
                tdrift += 1
                if tdrift <= 5:
                    ctx.coverage.setdefault("drift_samples", []).append(
                        {"t": next(r["t"] for r in part if r["id"] == v["id"]), "why": v["why"]})
    ctx.coverage.update({
        "evaluations": len(uniq) + len(recs),
        "distinct_nontrivial": len({c["t"] for c in uniq if c["code"] != "eeee"}) + len({r["t"] for r in recs if r["code"] != "eeee"}),
        "rule": "TLC-enumerated texts (every token sequence up to the bound) + seeded random texts; non-trivial = at least one of the four parses yields segments",
        "traces_validated_against_impl": validated,
        "per_character_state_traces": traces,
        "internal_state_binding": "available" if __import__("harness.pathobs", fromlist=["x"]).INTERNALS_AVAILABLE else
                                  "unavailable: _parse_path no longer has the local variables the binding reads (refactored?); judged on outcomes, segments and strings only",
        "exhaustive": True,
        "model_drift": drift + tdrift,
        "pinned_model_predicts": pinned["violated"],
        "samples": [{"t": c["t"], "code": c["code"]} for c in uniq[100:103]] + [{"t": r["t"], "code": r["code"]} for r in recs[:2]],
        "trusted_base": ["TLC 1.8", "spec/YPathParser.tla as a mirror of _parse_path", "CPython exception hierarchy"],
    })
    ctx.assumptions += ["texts are finite Python str; the 'original' setter and the separator setter are the only entry points",
                        "model comparison is limited to printable ASCII; Unicode texts are judged by exception class only"]


def replay(path):
    from harness import pathobs
    with open(path) as fh:
        rp = json.load(fh)["replay"]
    o = pathobs.observe(rp["text"])
    print(json.dumps(o, indent=1)[:2000])
    bad = "c" in o["code"] or o["str_code"] == "c" or o.get("other_crash")
    print("VIOLATION property=C14 replay=%s" % path if bad else "no violation")
    return 1 if bad else 0
