"""C15 - evaluating any path on any document fails only with YAML Path errors.

Design level: TLC evaluates the selection semantics (spec/YQuery.tla) for every
(document, path) of MC_Query - total by construction: each operator application
that could be undefined (index out of range, key of a scalar, empty CHOOSE) sits
behind a guard returning no match or the YAML-Path-error outcome, so TLC
completing the run is the totality theorem within the bounds.
Binding (S->C): every emitted case - including the informational ones and the
C15 families whose selection the model does not decide (keyword searches,
collectors over scalar-selecting operands, ill-formed regular expressions,
repeated traversals) - is replayed into get_nodes(mustexist=True), get_nodes()
and exists(); projection = outcome class only: results / YAMLPathException
family / anything else (violation).
"""
import json

from harness import core, querycorpus

LEVEL = "model_checking"


def judge_doc(doc, cases, variants):
    from harness import absdoc, queryobs
    out = []
    stats = {"cases": 0, "runs": 0, "yperr": 0, "nontrivial": 0}
    for style, plain in variants:
        text = absdoc.concretise(doc, style, plain)
        data = absdoc.load(text)
        loc = absdoc.Locator(data)
        for c in cases:
            stats["cases"] += 1
            if c.get("cx"):
                # collectors are in the property's domain only over operands that select scalars
                scalar_only = True
                for expr in c["cx"]:
                    r0 = queryobs.run_query(data, loc, expr, "must")
                    if any(isinstance(h.node, (dict, list, set)) for h in r0["hits"]):
                        scalar_only = False
                if not scalar_only:
                    stats["skipped_collectors"] = stats.get("skipped_collectors", 0) + 1
                    continue
            for mode, ptxt in (("must", c["dot"]), ("exists", c["sl"]), ("opt", c["dot"])):
                stats["runs"] += 1
                r = queryobs.run_query(data, loc, ptxt, mode)
                if r["out"] == "yperr":
                    stats["yperr"] += 1
                if r["out"] == "ok" and r.get("n", 0) > 0:
                    stats["nontrivial"] += 1
                if r["out"].startswith("crash"):
                    where = r["msg"].split(" @ ")[-1]
                    exc = r["out"].split(":", 1)[1]
                    sig = "%s:%s:%s" % (exc, where.split(" ")[-1], "opt" if mode == "opt" else "read")
                    out.append((sig, "doc %s path %r (%s): %s" % (text.replace("\n", "|"), ptxt, mode, r["msg"]),
                                {"kind": "query", "doc": doc, "style": style, "plain": plain, "case": c}))
                if mode == "opt" or r["out"] != "ok":
                    if not absdoc.same_table(absdoc.abstract(data), doc):
                        data = absdoc.load(text)
                        loc = absdoc.Locator(data)
    return out, stats


def _work(items):
    return [judge_doc(d, cs, v) for d, cs, v in items]


def run(ctx):
    cfgs = ["MC_Query_c15q.cfg", "MC_Query_q2.cfg", "MC_Query_c15f.cfg"] if ctx.quick else ["MC_Query_c15t.cfg", "MC_Query_t2.cfg", "MC_Query_c15f.cfg"]
    corpus = querycorpus.tlc_corpus(ctx, "MC_Query", cfgs)
    items = [(d, cs, querycorpus.variant_of(d, ctx.seed, ctx.quick)) for d, cs in corpus]
    tot = {"cases": 0, "runs": 0, "yperr": 0, "nontrivial": 0}
    for out, stats in querycorpus.pmap(_work, items, chunk=8):
        for k in tot:
            tot[k] += stats[k]
        for sig, desc, rp in out:
            ctx.violation(sig, desc, rp)
    ctx.coverage.update({
        "evaluations": tot["runs"], "distinct_nontrivial": tot["nontrivial"], "documents": len(corpus), "cases": tot["cases"],
        "yaml_path_errors_observed": tot["yperr"],
        "rule": "every (document, path) case of MC_Query incl. keyword/collector/ill-formed-regex families x {required, exists, optional}; non-trivial = the call returned at least one node",
        "traces_validated_against_impl": tot["runs"], "exhaustive": True,
        "samples": [{"doc": corpus[len(corpus) // 3][0], "case": corpus[len(corpus) // 3][1][-1]}] if corpus else [],
        "trusted_base": ["TLC 1.8", "CPython exception hierarchy", "harness/absdoc.py"],
    })
    ctx.assumptions += ["a path is 'syntactically valid' when YAMLPath parses it; parse errors are C14's subject"]


def replay(path):
    with open(path) as fh:
        rp = json.load(fh)["replay"]
    out, _ = judge_doc(rp["doc"], [rp["case"]], [(rp["style"], rp["plain"])])
    for sig, desc, _ in out:
        print(sig, "::", desc)
    print("VIOLATION property=C15 replay=%s" % path if out else "no violation")
    return 1 if out else 0
