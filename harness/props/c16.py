"""C16 - the command-line tools deliver the library's answers and honest exit codes.

Specification: spec/YCli.tla - per tool (yaml-get, yaml-set, yaml-merge, yaml-diff, yaml-validate,
yaml-paths) the phase machine Args -> Validate -> (Load | Work)* -> Output -> Exit(code) as one pure step
function; `Work` consumes an abstract library outcome, `Codes` is the exit-code table read off the
main() functions, the delivery (a named file / STDIN named by "-" / the waiting STDIN document no argument
names, read where each main() tests isatty()) is visible to the Load step alone.
  * MC_YCli: TLC explores every run over the finite outcome space, checks the exit-code statements
    (get 0 <=> matched, diff 0 <=> same, validate 0 / 2 / 1, merge and set codes, paths) both on the state
    and on the events of the run, that a failing run delivers no result document, delivery independence
    (every other way the tool offers to deliver the same documents - file, "-", implicit STDIN - ends in the
    same state; every tool but yaml-diff reads a waiting STDIN document), determinism and progress, and
    emits the table (exit code per outcome class).  Two deviating designs must be refuted: "the status of
    the last source wins" (MC_YCli_lastwins.cfg) and yaml-merge before the repair of its STDIN-only run
    (MC_YCli_stdinonly.cfg).
  * Binding S->C: the cases of the library-level models - MC_Query (C01) -> yaml-get and the unmatched
    yaml-set runs, MC_Edit (C03/C04/C09) -> yaml-set, MC_Merge (C05) -> yaml-merge and the document pairs of
    yaml-diff - are pushed through the REAL main() functions (harness/cliobs.py: in-process, patched argv /
    stdin, captured stdout / stderr, SystemExit caught) with all three deliveries, YAML and JSON input,
    both notations; yaml-validate gets valid documents, streams and a family of invalid texts, yaml-paths
    documents x expressions with the library's search_for_paths as the oracle.  A sample of the runs is
    repeated as real processes (/venv/bin/python -m yamlpath.commands.<tool>) and must agree with the
    in-process run.
  * Binding C->S: every run is recorded as the event list the wrappers saw (args, validate, load(via),
    work(outcome), output, exit) and the whole batch is validated by Trace_YCli, which folds the same Step:
    the exit status must be the one the table gives for the observed library outcome, the output the one the
    state allows, for file and stdin alike.  Self-test: corrupted records must be rejected.
  * Projection (verdict): exit status; number and order of stdout lines and their parsed content (scalar
    text / JSON data); the target file or printed document read back as data.  Never bytes.
"""
import json
import os
import random
import shutil
import tempfile
import threading

from harness import core, querycorpus

LEVEL = "model_checking"
HELP_LINE = "Please try --help for more information."
TOOLS = ("get", "set", "merge", "diff", "validate", "paths")
DEF_O = {"must": False, "mode": "condense_all", "noise": "default"}


def o_of(**kw):
    o = dict(DEF_O)
    o.update(kw)
    return o


# =============================================================================================== run specifications
# A run is a dict: tool, argv, files {name: text}, stdin (text | None), o (the options the table reads),
# exp {k, n} (the library outcome the model predicts; k "" = none), info (bool), cls (input class, for
# signatures), want (tool-specific expectation), target / output (file names to read back).

def _doc_text(doc, fmt):
    """fmt: ("json",) | ("yaml", style, plain) -> (file suffix, text)."""
    from harness import absdoc, cliobs
    if fmt[0] == "json":
        return ".json", cliobs.json_text(doc)
    return ".yaml", absdoc.concretise(doc, fmt[1], fmt[2])


def _fmts(doc, rng, quick, seed):
    """Input formats to use for a document: a YAML concretisation variant and, where lossless, JSON.

    quick: one format (JSON for about a third of the documents that allow it); thorough: YAML and JSON."""
    from harness import cliobs
    allv = querycorpus.variant_of(doc, seed, False)
    if not cliobs.jsonable(doc):
        # a flow-style root makes the tools answer in JSON, which cannot hold Sets, anchors or non-string keys
        allv = [v for v in allv if v[0] == "block"]
        return [("yaml",) + rng.choice(allv)]
    if quick:
        return [("json",)] if rng.random() < 0.35 else [("yaml",) + rng.choice(allv)]
    return [("yaml",) + rng.choice(allv), ("json",)]


DELIVERIES = ("file", "dash", "implicit")


def _deliver(name, text, delivery, rng=None):
    """-> (argv tail for the document, files, stdin).

    delivery: file (a named file) | dash (STDIN named by the "-" pseudo-file) | implicit (no YAML_FILE argument at
    all and a non-TTY STDIN: the tool infers it)."""
    if delivery == "file":
        return [name], {name: text}, None
    return (["-"] if delivery == "dash" else []), {}, text


def _via(spec):
    """How the (last) STDIN document of a run is delivered: file (none) | dash | implicit."""
    if spec["stdin"] is None:
        return "file"
    return "dash" if any(a.strip() == "-" for a in spec["argv"]) else "implicit"


def get_specs(corpus, rng, count, quick, seed):
    from harness import cliobs
    groups = {}
    for doc, cases in corpus:
        for c in cases:
            cls = "yperr" if c["err"] else ("matched" if c["n"] > 0 else "unmatched")
            groups.setdefault((c["ty"], cls, bool(c["info"])), []).append((doc, c))
    ncases = max(1, count // (6 if quick else 9))
    verdict = {k: v for k, v in groups.items() if not k[2]}
    inform = {k: v for k, v in groups.items() if k[2]}
    picked = _round_robin(verdict, rng, ncases - ncases // 8) + _round_robin(inform, rng, ncases // 8)
    specs = rich_get_specs(rng)
    for doc, c in picked:
        cls = "yperr" if c["err"] else ("matched" if c["n"] > 0 else "unmatched")
        info = bool(c["info"]) or cliobs.null_root(doc)
        for fmt in _fmts(doc, rng, quick, seed):
            suffix, text = _doc_text(doc, fmt)
            for delivery in DELIVERIES:
                for notation in ("dot", "sl"):
                    path = c[notation]
                    tail, files, stdin = _deliver("doc" + suffix, text, delivery, rng)
                    q = ["-p", path] if (path and not path.startswith("-") and rng.random() < 0.3) else ["--query=" + path]
                    if notation == "sl" and rng.random() < 0.25:
                        q += ["--pathsep=/"]
                    specs.append({
                        "tool": "get", "argv": q + tail, "files": files, "stdin": stdin, "o": o_of(),
                        "exp": {"k": "" if info else cls, "n": c["n"] if cls == "matched" else 0},
                        "info": info, "cls": "%s:%s" % (cls, c["ty"] or "ROOT"), "delivery": delivery,
                        "want": {"cls": cls, "n": c["n"], "ids": c["ids"], "virt": c["virt"], "doc": doc,
                                 "names": c["names"]},
                    })
    return specs


# A document with the scalar kinds the node tables do not carry; what the tools must print for them is stated here
# by hand from the usage texts (dates and timestamps in ISO 8601 form, a tagged value as its value, Sets as hashes
# of nulls, null as NUL, line breaks escaped).
RICH = ("---\nd: 2020-01-02\nt: 2001-12-14T21:59:43.10-05:00\nu: 2001-12-14 21:59:43\ntagged: !mytag value\nb: true\n"
        "s: !!set {? a, ? b}\nn: null\nf: 1.50\nml: \"line1\\nline2\"\nlist: [2020-01-02, !mytag x, true, ~]\nh: {when: 2020-01-02, ok: false}\n")
RICH_JSON = {"d": "2020-01-02", "t": "2001-12-14T21:59:43.100000-05:00", "u": "2001-12-14T21:59:43", "tagged": "value", "b": True,
             "s": {"a": None, "b": None}, "n": None, "f": 1.5, "ml": "line1\nline2", "list": ["2020-01-02", "x", True, None],
             "h": {"when": "2020-01-02", "ok": False}}
RICH_LINES = {"d": "2020-01-02", "t": "2001-12-14T21:59:43.100000-05:00", "u": "2001-12-14T21:59:43", "tagged": "value",
              "b": "True", "n": "\x00", "f": "1.5", "ml": "line1\\nline2", "list[0]": "2020-01-02", "h.when": "2020-01-02", "h.ok": "False"}


def rich_get_specs(rng):
    specs = []
    cases = [("", RICH_JSON), ("s", RICH_JSON["s"]), ("list", RICH_JSON["list"]), ("h", RICH_JSON["h"])]
    cases += [(p, v) for p, v in RICH_LINES.items()]
    for path, want in cases:
        for delivery in DELIVERIES:
            for notation in ("dot", "sl"):
                ptxt = path if notation == "dot" else "/" + path.replace(".", "/")
                tail, files, stdin = _deliver("rich.yaml", RICH, delivery, rng)
                specs.append({"tool": "get", "argv": ["--query=" + ptxt] + tail, "files": files, "stdin": stdin, "o": o_of(),
                              "exp": {"k": "matched", "n": 1}, "info": False, "cls": "rich:" + (path or "ROOT"), "delivery": delivery,
                              "want": {"cls": "rich", "json": want if not isinstance(want, str) else None,
                                       "line": want if isinstance(want, str) else None}})
    return specs


def unreadable_specs(rng, quick):
    """An input that does not load: every tool must fail with its load status and deliver nothing."""
    specs = []
    texts = [t for _, t in INVALID if _really(False, t)]
    if quick:       # always the duplicate-key class (alone and in a later document of a stream), plus some others
        texts = ["a: 1\nb: 2\na: 3\n", "---\na: 1\n...\n---\nk: 1\nk: 2\n"] + rng.sample([t for t in texts if "k: 1\nk: 2" not in t and t != "a: 1\nb: 2\na: 3\n"], 4)
    good = "---\na: 1\nb: [1, 2]\n"
    for text in texts:
        for delivery in DELIVERIES:
            tail, files, stdin = _deliver("bad.yaml", text, delivery, rng)
            specs.append({"tool": "get", "argv": ["--query=a"] + tail, "files": files, "stdin": stdin, "o": o_of(), "exp": {"k": "", "n": 0},
                          "info": False, "cls": "unreadable", "delivery": delivery, "want": {"cls": "unreadable"}})
            tail, files, stdin = _deliver("bad.yaml", text, delivery, rng)
            specs.append({"tool": "set", "argv": ["--change=a", "--value=1"] + tail, "files": files, "stdin": stdin, "o": o_of(),
                          "exp": {"k": "", "n": 0}, "info": False, "cls": "unreadable", "delivery": delivery, "target": "bad.yaml",
                          "want": {"final": None, "doc0": None}})
            for first in (True, False):
                files = {"good.yaml": good}
                names = ["bad.yaml", "good.yaml"] if first else ["good.yaml", "bad.yaml"]
                stdin = None
                if delivery == "file":
                    files["bad.yaml"] = text
                    names = ["--nostdin"] + names
                elif delivery == "dash":
                    stdin = text
                    names[names.index("bad.yaml")] = "-"
                elif first:                       # the waiting STDIN document is the only (left-hand) one
                    stdin, names, files = text, [], {}
                else:                             # ... or the last one, after the named file
                    stdin, names = text, ["good.yaml"]
                specs.append({"tool": "merge", "argv": names, "files": dict(files), "stdin": stdin, "o": o_of(),
                              "exp": {"k": "", "n": 0}, "info": False, "cls": "unreadable:%s" % ("first" if first else "later"),
                              "delivery": delivery, "output": None, "docfmt": "auto",
                              "want": {"out": None, "code": 4 if first else 3}})
                if delivery != "implicit":        # yaml-diff does not infer STDIN
                    specs.append({"tool": "diff", "argv": [n for n in names if n != "--nostdin"], "files": dict(files), "stdin": stdin,
                                  "o": o_of(), "exp": {"k": "", "n": 0}, "info": False, "cls": "unreadable", "delivery": delivery,
                                  "want": {"code": 1}})
            if delivery == "implicit":            # a named readable file, then an unreadable waiting document
                for tool, code in (("validate", 2), ("paths", 3)):
                    specs.append({"tool": tool, "argv": (["--search==1"] if tool == "paths" else []) + ["good.yaml"],
                                  "files": {"good.yaml": good}, "stdin": text, "o": o_of(), "exp": {"k": "", "n": 0}, "info": False,
                                  "cls": "unreadable:waiting", "delivery": delivery, "want": {"code": code, "inputs": [[True, "good"], [False, "waiting"]]}})
            tail, files, stdin = _deliver("bad.yaml", text, delivery, rng)
            specs.append({"tool": "paths", "argv": ["--nostdin", "--search==1"] + tail if delivery == "file" else ["--search==1"] + tail,
                          "files": files, "stdin": stdin, "o": o_of(), "exp": {"k": "", "n": 0}, "info": False, "cls": "unreadable",
                          "delivery": delivery, "want": {"code": 3}})
    return specs


def _round_robin(groups, rng, count):
    keys = sorted(groups, key=repr)
    for k in keys:
        rng.shuffle(groups[k])
    out = []
    i = 0
    while len(out) < count and keys:
        alive = []
        for k in keys:
            if i < len(groups[k]):
                out.append(groups[k][i])
                alive.append(k)
                if len(out) >= count:
                    break
        keys = alive
        i += 1
    return out


# value spellings on the command line and the scalar the documented typing (Nodes.wrap_type) makes of them
SUBST = {"zz": [("str", ""), ("str", "x y"), ("str", "-")], "7": [("int", "0"), ("float", "1.5")]}


def _set_argv(step, path, rng, value=None):
    if step["op"] == "delete":
        return ["--change=" + path, rng.choice(["--delete", "-D"])]
    v = step["v"] if value is None else value
    a = ["--change=" + path, rng.choice(["--value=" + v, "-a" + v]) if v and not v.startswith("-") else "--value=" + v]
    if step["op"] == "set_must":
        a.append(rng.choice(["--mustexist", "-m"]))
    return a


def set_specs(hists, corpus, rng, count, quick, seed):
    from harness import cliobs
    specs = []
    groups = {}
    for rec in hists:
        st = rec["hist"][0]
        groups.setdefault((st["op"], st["out"], rec["doc0"][0]["k"]), []).append(rec)
    n_model = max(1, int(count * 0.7) // (6 if quick else 12))
    for rec in _round_robin(groups, rng, n_model):
        st = rec["hist"][0]
        doc0 = rec["doc0"]
        for fmt in _fmts(doc0, rng, quick, seed):
            suffix, text = _doc_text(doc0, fmt)
            for delivery in DELIVERIES:
                for notation in ("dot", "sl"):
                    tail, files, stdin = _deliver("doc" + suffix, text, delivery, rng)
                    final, value, info = rec["final"], None, False
                    if st["op"] != "delete" and st["v"] in SUBST and not _in(doc0, st) and rng.random() < 0.2:
                        # the same edit with another value: the model's result with that scalar in place
                        t, v = rng.choice(SUBST[st["v"]])
                        final = [dict(n, t=t, v=v) if (n["k"] == "s" and n["t"] == st["t"] and n["v"] == st["v"]) else n for n in final]
                        value = v
                        info = st["op"] == "set_opt"       # what a created path is padded with is not documented
                    ok = st["out"] == "ok"
                    info = info or _dup_members(final)      # several members of one Set made equal: what is left is not documented
                    specs.append({
                        "tool": "set", "argv": _set_argv(st, st[notation], rng, value) + tail, "files": files, "stdin": stdin,
                        "o": o_of(must=st["op"] != "set_opt"), "exp": {"k": "" if info else ("changed" if ok else st["out"]), "n": 0},
                        "info": info, "cls": "%s:%s" % (st["op"], st["out"]), "delivery": delivery, "target": "doc" + suffix,
                        "want": {"final": final if ok else None, "doc0": doc0},
                    })
    # refusals: a required path that matches nothing / is no path at all; the whole document
    groups = {}
    for doc, cases in corpus:
        if cliobs.null_root(doc):
            continue
        for c in cases:
            if not c["info"] and (c["err"] or c["n"] == 0):
                groups.setdefault((c["ty"], bool(c["err"])), []).append((doc, c))
    for doc, c in _round_robin(groups, rng, max(1, (count - len(specs)) // 6)):
        fmt = _fmts(doc, rng, True, seed)[0]
        suffix, text = _doc_text(doc, fmt)
        for op in ("set_must", "delete"):
            for delivery in DELIVERIES:
                tail, files, stdin = _deliver("doc" + suffix, text, delivery, rng)
                st = {"op": op, "v": "zz"}
                specs.append({
                    "tool": "set", "argv": _set_argv(st, c[rng.choice(["dot", "sl"])], rng) + tail, "files": files, "stdin": stdin,
                    "o": o_of(must=True), "exp": {"k": "yperr" if c["err"] else "unmatched", "n": 0}, "info": False,
                    "cls": "%s:%s" % (op, "yperr" if c["err"] else "unmatched"), "delivery": delivery, "target": "doc" + suffix,
                    "want": {"final": None, "doc0": doc},
                })
    for rec in rng.sample(hists, min(len(hists), 12 if quick else 120)):
        doc0 = rec["doc0"]
        suffix, text = _doc_text(doc0, ("yaml", "block", False))
        for delivery in DELIVERIES:
            tail, files, stdin = _deliver("doc" + suffix, text, delivery, rng)
            specs.append({
                "tool": "set", "argv": ["--change=/", "--delete"] + tail, "files": files, "stdin": stdin, "o": o_of(must=True),
                "exp": {"k": "nodoc", "n": 0}, "info": False, "cls": "delete:nodoc", "delivery": delivery,
                "target": "doc" + suffix, "want": {"final": None, "doc0": doc0},
            })
            # --check against a value the node does not have
            st = rec["hist"][0]
            if st["op"] == "set_must":
                tail, files, stdin = _deliver("doc" + suffix, text, delivery, rng)
                specs.append({
                    "tool": "set", "argv": _set_argv(st, st["dot"], rng) + ["--check=no-such-value"] + tail, "files": files,
                    "stdin": stdin, "o": o_of(must=True), "exp": {"k": "checkfail", "n": 0}, "info": False,
                    "cls": "set_must:checkfail", "delivery": delivery, "target": "doc" + suffix,
                    "want": {"final": None, "doc0": doc0},
                })
    return specs


def _dup_members(doc):
    for n in doc:
        if n["k"] == "set":
            vals = [(doc[c - 1]["t"], doc[c - 1]["v"]) for c in n["kids"]]
            if len(set(vals)) != len(vals):
                return True
    return False


def _in(doc, st):
    """Does the document already hold the scalar the step writes (then substituted values cannot be told apart)?"""
    return any(n["k"] == "s" and n["t"] == st["t"] and n["v"] == st["v"] for n in doc)


MERGE_DELIVERIES = ("ff", "f-", "-f", "fi")


def merge_specs(recs, rng, count, quick, seed):
    from harness import cliobs
    groups = {}
    ngroups = {}
    for rec in recs:
        ngroups[rec["key"]] = ngroups.get(rec["key"], 0) + 1
    for rec in recs:
        res = rec["group"]["res"]
        # (a pair with several result groups is one whose result depends on the policy options)
        groups.setdefault((rec["l"][0]["k"], rec["r"][0]["k"], res["ok"], res["info"], min(ngroups[rec["key"]], 3)), []).append(rec)
    specs = []
    for rec in _round_robin(groups, rng, max(1, count // 4)):
        res = rec["group"]["res"]
        cfgname = rng.choice(rec["group"]["cfgs"])
        h, a, o, s, x = cfgname.split("/")
        both = rec["l"] + rec["r"]
        fmt = _fmts(both, rng, True, seed)[0]
        ls, ltext = _doc_text(rec["l"], fmt)
        rs, rtext = _doc_text(rec["r"], fmt)
        for delivery in MERGE_DELIVERIES:
            argv = rng.sample(["--hashes=" + h, "--arrays=" + a, "--aoh=" + o, "--sets=" + s, "--anchors=" + x], 5)
            if rng.random() < 0.3:
                argv = [z.replace("--hashes=", "-H").replace("--arrays=", "-A").replace("--aoh=", "-O")
                         .replace("--sets=", "-E").replace("--anchors=", "-a") for z in argv]
            files, stdin = {"lhs" + ls: ltext, "rhs" + rs: rtext}, None
            names = ["lhs" + ls, "rhs" + rs]
            if delivery == "f-":
                stdin = files.pop("rhs" + rs)
                names[1] = "-"
            elif delivery == "-f":
                stdin = files.pop("lhs" + ls)
                names[0] = "-"
            elif delivery == "fi":
                stdin = files.pop("rhs" + rs)
                names = names[:1]
            else:
                argv.append("--nostdin")
            docfmt = rng.choice(["auto", "auto", "yaml", "json"])
            if docfmt != "auto":
                argv.append(rng.choice(["--document-format=" + docfmt, "-D" + docfmt]))
            output = None
            r = rng.random()
            if r < 0.3:
                output = "out.yaml" if docfmt != "json" else "out.json"
                argv.append("--output=" + output)
            elif r < 0.4:
                output = "out.txt"
                argv.append("--overwrite=" + output)
            specs.append({
                "tool": "merge", "argv": argv + names, "files": files, "stdin": stdin, "o": o_of(),
                "exp": {"k": "" if res["info"] else ("merged" if res["ok"] else "mergeerr"), "n": 1 if res["ok"] else 0},
                "info": bool(res["info"]), "cls": "%s<-%s:%s" % (rec["l"][0]["k"], rec["r"][0]["k"], "ok" if res["ok"] else "mergeerr"),
                "delivery": delivery, "output": output, "docfmt": docfmt,
                "policy": {"cli": {"hashes": h, "arrays": a, "aoh": o, "sets": s, "anchors": x}, "cfg": {}},
                "want": {"out": res["out"] if res["ok"] else None, "l": rec["l"], "r": rec["r"], "cfg": cfgname},
            })
    # a single document delivered each way; the third - no YAML_FILE at all - makes the waiting STDIN document the
    # left-hand (and only) one.  The document passes through.
    from harness import cliobs as _cl
    for rec in rng.sample(recs, min(len(recs), 50 if quick else 1500)):
        l = rec["l"]
        suffix, text = _doc_text(l, _fmts(l, rng, True, seed)[0])
        for delivery in DELIVERIES:
            tail, files, stdin = _deliver("lhs" + suffix, text, delivery)
            docfmt = rng.choice(["auto", "yaml", "json"])
            argv = (["--nostdin"] if delivery == "file" else []) + (["--document-format=" + docfmt] if docfmt != "auto" else [])
            specs.append({
                "tool": "merge", "argv": argv + tail, "files": files, "stdin": stdin, "o": o_of(), "exp": {"k": "", "n": 0},
                "info": _cl.null_root(l), "cls": "single:%s" % l[0]["k"], "delivery": delivery, "output": None, "docfmt": docfmt,
                "want": {"out": l, "l": l, "r": None, "cfg": ""},
            })
    # error codes of the other multi-document modes (single documents each)
    bad = [rec for rec in recs if not rec["group"]["res"]["ok"] and not rec["group"]["res"]["info"]]
    for rec in rng.sample(bad, min(len(bad), 10 if quick else 100)):
        for mode in ("merge_across", "matrix_merge"):
            _, ltext = _doc_text(rec["l"], ("yaml", "block", False))
            _, rtext = _doc_text(rec["r"], ("yaml", "block", False))
            h, a, o, s, x = rec["group"]["cfgs"][0].split("/")
            specs.append({
                "tool": "merge", "argv": ["--multi-doc-mode=" + mode, "-S", "--hashes=" + h, "--arrays=" + a, "--aoh=" + o, "--sets=" + s,
                                          "lhs.yaml", "rhs.yaml"],
                "files": {"lhs.yaml": ltext, "rhs.yaml": rtext}, "stdin": None, "o": o_of(mode=mode),
                "policy": {"cli": {"hashes": h, "arrays": a, "aoh": o, "sets": s}, "cfg": {}},
                "exp": {"k": "mergeerr", "n": 0}, "info": False, "cls": "mode:%s:mergeerr" % mode, "delivery": "ff",
                "output": None, "docfmt": "auto", "want": {"out": None, "l": rec["l"], "r": rec["r"], "cfg": rec["group"]["cfgs"][0]},
            })
    # a single document with dates, tags, Sets: passes through unchanged (YAML) / as its JSON reading (-D json)
    for delivery in ("ff", "-f"):
        for docfmt in ("yaml", "json"):
            for output in (None, "out." + docfmt):
                argv = ["--document-format=" + docfmt] + (["--output=" + output] if output else []) + (["-S", "rich.yaml"] if delivery == "ff" else ["-"])
                specs.append({"tool": "merge", "argv": argv, "files": {"rich.yaml": RICH} if delivery == "ff" else {},
                              "stdin": None if delivery == "ff" else RICH, "o": o_of(), "exp": {"k": "", "n": 0}, "info": False,
                              "cls": "rich:" + docfmt, "delivery": delivery, "output": output, "docfmt": docfmt,
                              "want": {"rich": True}})
    # unreadable inputs
    for k in range(4 if quick else 40):
        rec = rng.choice(recs)
        _, ltext = _doc_text(rec["l"], ("yaml", "block", False))
        first = k % 2 == 0
        specs.append({
            "tool": "merge", "argv": ["-S"] + (["missing.yaml", "lhs.yaml"] if first else ["lhs.yaml", "missing.yaml"]),
            "files": {"lhs.yaml": ltext}, "stdin": None, "o": o_of(), "exp": {"k": "", "n": 0}, "info": False,
            "cls": "unreadable:%s" % ("first" if first else "later"), "delivery": "ff", "output": None, "docfmt": "auto",
            "want": {"out": None, "code": 4 if first else 3},
        })
    return specs


MERGE_OPTS = (("hashes", "-H", "deep"), ("arrays", "-A", "all"), ("aoh", "-O", "all"), ("sets", "-E", "unique"), ("anchors", "-a", "stop"))
PMODES = ("cli", "config", "both", "absent")


def _give(rng, name, short, mode, eff, decoy, cli, cfg, argv):
    """Deliver one policy option the given way; fills cli / cfg (what the user wrote) and argv."""
    if mode in ("cli", "both"):
        cli[name] = eff
        argv.append(rng.choice(["--%s=%s" % (name, eff), "%s%s" % (short, eff)]))
    if mode == "config":
        cfg[name] = eff
    elif mode == "both":
        cfg[name] = decoy


def _ini(cfg):
    return "[defaults]\n" + "".join("%s = %s\n" % kv for kv in sorted(cfg.items()))


def merge_policy_specs(recs, anch, rng, quick, seed):
    """Where the policy of a run comes from: (a) the command line, (b) only the [defaults] of --config FILE, (c) both with
    different values, (d) nowhere (built-in).  Documented precedence: command line > [defaults] > built-in.  Cases are
    pairs whose model result differs between the two policy values involved, so that the precedence is observable."""
    specs = []
    per = 10 if quick else 400
    for corpus, opts in ((recs, MERGE_OPTS[:4]), (anch, MERGE_OPTS[4:])):
        by_key = {}
        for rec in corpus:
            m = by_key.setdefault(rec["key"], {})
            for c in rec["group"]["cfgs"]:
                m[c] = rec
        keys = sorted(by_key)
        for xi, (name, short, builtin) in enumerate(MERGE_OPTS):
            if (name, short, builtin) not in opts:
                continue
            cands = {m: [] for m in PMODES}
            for key in keys:
                cm = by_key[key]
                for c, rec in cm.items():
                    if rec["group"]["res"]["info"]:
                        continue
                    parts = c.split("/")
                    for c2, rec2 in cm.items():
                        p2 = c2.split("/")
                        if rec2 is rec or rec2["group"]["res"]["info"] or any(p2[j] != parts[j] for j in range(5) if j != xi):
                            continue
                        # c and c2 differ in this option alone and the model gives them different results
                        cands["cli"].append((c, p2[xi], rec))
                        cands["both"].append((c, p2[xi], rec))
                        if p2[xi] == builtin:
                            cands["config"].append((c, builtin, rec))     # ignoring the file would give the built-in's result
                        if parts[xi] == builtin:
                            cands["absent"].append((c, p2[xi], rec))
            for mode in PMODES:
                pool = cands[mode]
                for c, decoy, rec in rng.sample(pool, min(len(pool), per)):
                    parts = c.split("/")
                    res = rec["group"]["res"]
                    cli, cfg, argv = {}, {}, []
                    for yi, (n2, s2, b2) in enumerate(MERGE_OPTS):
                        if yi == xi:
                            if mode == "absent" and rng.random() < 0.5:
                                cfg["x-" + n2] = decoy              # an unrelated key in the file changes nothing
                            elif mode != "absent":
                                _give(rng, n2, s2, mode, parts[yi], decoy, cli, cfg, argv)
                        else:                                        # the other options arrive some way or other
                            m2 = rng.choice(["cli", "config"] + (["absent"] if parts[yi] == b2 else []))
                            if m2 != "absent":
                                _give(rng, n2, s2, m2, parts[yi], "", cli, cfg, argv)
                    cfg_keys = {k: v for k, v in cfg.items() if not k.startswith("x-")}
                    fmt = _fmts(rec["l"] + rec["r"], rng, True, seed)[0]
                    ls, ltext = _doc_text(rec["l"], fmt)
                    rs, rtext = _doc_text(rec["r"], fmt)
                    files = {"lhs" + ls: ltext, "rhs" + rs: rtext}
                    names, stdin = ["lhs" + ls, "rhs" + rs], None
                    rng.shuffle(argv)
                    if cfg or mode == "absent":
                        files["merge.ini"] = _ini(cfg)
                        argv += rng.choice([["--config=merge.ini"], ["-c", "merge.ini"]])
                    delivery = rng.choice(["ff", "f-", "fi"])
                    if delivery == "f-":
                        stdin, names[1] = files.pop("rhs" + rs), "-"
                    elif delivery == "fi":
                        stdin, names = files.pop("rhs" + rs), names[:1]
                    else:
                        argv.append("--nostdin")
                    specs.append({
                        "tool": "merge", "argv": argv + names, "files": files, "stdin": stdin, "o": o_of(),
                        "exp": {"k": "merged" if res["ok"] else "mergeerr", "n": 1 if res["ok"] else 0}, "info": False,
                        "cls": "policy:%s:%s" % (name, mode), "delivery": delivery, "output": None, "docfmt": "auto",
                        "policy": {"cli": cli, "cfg": cfg_keys},
                        "want": {"out": res["out"] if res["ok"] else None, "l": rec["l"], "r": rec["r"], "cfg": c},
                    })
    return specs


def merge_stream_specs(recs, rng, quick, seed):
    """Multi-document left-hand streams under matrix_merge (every left document x the right document) and merge_across
    (document i with document i): the expected stream is the model's pairwise result for every pair; one impossible
    pair - whichever document it is - fails the run (41 / 31) and nothing is delivered."""
    from harness import absdoc
    by_r = {}
    for rec in recs:
        if not rec["group"]["res"]["info"]:
            by_r.setdefault(json.dumps(rec["r"], sort_keys=True), []).append(rec)
    rkeys = sorted(by_r)
    specs = []
    want_classes = ("ok,ok", "bad,ok", "ok,bad", "ok,bad,ok", "bad,ok,ok")
    per = 8 if quick else 250
    for mode in ("matrix_merge", "merge_across"):
        for cls in want_classes:
            made = tries = 0
            while made < per and tries < per * 40:
                tries += 1
                rk = rng.choice(rkeys)
                c = rng.choice(rng.choice(by_r[rk])["group"]["cfgs"])
                oks = [x for x in by_r[rk] if c in x["group"]["cfgs"] and x["group"]["res"]["ok"] and x["l"][0]["k"] != "s"]
                bads = [x for x in by_r[rk] if c in x["group"]["cfgs"] and not x["group"]["res"]["ok"] and x["l"][0]["k"] != "s"]
                if not oks or not bads:
                    continue
                chosen = [rng.choice(oks if k == "ok" else bads) for k in cls.split(",")]
                h, a, o, s_, x = c.split("/")
                r = chosen[0]["r"]
                ltext = "".join(absdoc.concretise(x_["l"], "block") for x_ in chosen)
                rdoc = absdoc.concretise(r, "block")
                rtext = rdoc if mode == "matrix_merge" else rdoc * len(chosen)
                allok = all(x_["group"]["res"]["ok"] for x_ in chosen)
                files, names, stdin = {"lhs.yaml": ltext, "rhs.yaml": rtext}, ["lhs.yaml", "rhs.yaml"], None
                delivery = rng.choice(["ff", "f-", "-f", "fi"])
                argv = ["--multi-doc-mode=" + mode, "--document-format=yaml", "--hashes=" + h, "--arrays=" + a, "--aoh=" + o, "--sets=" + s_]
                if delivery == "f-":
                    stdin, names[1] = files.pop("rhs.yaml"), "-"
                elif delivery == "-f":
                    stdin, names[0] = files.pop("lhs.yaml"), "-"
                elif delivery == "fi":
                    stdin, names = files.pop("rhs.yaml"), names[:1]
                else:
                    argv.append("--nostdin")
                output = "out.yaml" if rng.random() < 0.3 else None
                if output:
                    argv.append("--output=" + output)
                specs.append({
                    "tool": "merge", "argv": argv + names, "files": files, "stdin": stdin, "o": o_of(mode=mode),
                    "exp": {"k": "merged" if allok else "mergeerr", "n": 0}, "info": False,
                    "cls": "stream:%s:%s" % (mode, cls), "delivery": delivery, "output": output, "docfmt": "yaml",
                    "policy": {"cli": {"hashes": h, "arrays": a, "aoh": o, "sets": s_}, "cfg": {}},
                    "want": {"outs": [x_["group"]["res"]["out"] for x_ in chosen] if allok else None},
                })
                made += 1
    return specs


DIFF_POLICY = (("arrays", "-A", ("position", "value")), ("aoh", "-O", ("position", "dpos", "value", "key", "deep")))


def diff_policy_specs(recs, rng, quick, seed):
    """The same four ways for yaml-diff's --arrays / --aoh; the answer to deliver is the library's report under the
    effective policy.  Pairs are kept whose report differs between the two values involved."""
    from harness import absdoc
    pairs = {}
    for rec in recs:
        l, r = rec["l"], rec["r"]
        if l[0]["k"] == "seq" and r[0]["k"] == "seq" or any(n["k"] == "seq" and n["par"] for n in l) and any(n["k"] == "seq" and n["par"] for n in r):
            pairs.setdefault(rec["key"], (l, r))
    allp = [pairs[k] for k in sorted(pairs)]
    rng.shuffle(allp)
    per = 10 if quick else 300
    specs = []
    reports = []
    for l, r in allp[:150 if quick else 3000]:
        ltext, rtext = absdoc.concretise(l, "block"), absdoc.concretise(r, "block")
        rep = {}
        try:
            for name, _, values in DIFF_POLICY:
                for v in values:
                    rep[(name, v)] = library_diff(ltext, rtext, ["-s"], **{name: v})
        except Exception:      # noqa: BLE001 - the library raises under some policy: no oracle for this pair
            continue
        reports.append((l, r, ltext, rtext, rep))
    for name, short, values in DIFF_POLICY:
        cands = {m: [] for m in PMODES}
        for l, r, ltext, rtext, rep in reports:
            for v in values:
                for v2 in values:
                    if v2 != v and rep[(name, v)] != rep[(name, v2)]:
                        cands["cli"].append((l, r, ltext, rtext, v, v2))
                        cands["both"].append((l, r, ltext, rtext, v, v2))
                        if v2 == "position":
                            cands["config"].append((l, r, ltext, rtext, v, v2))
                        if v == "position":
                            cands["absent"].append((l, r, ltext, rtext, v, v2))
        for mode in PMODES:
            pool = cands[mode]
            for l, r, ltext, rtext, v, decoy in rng.sample(pool, min(len(pool), per)):
                cli, cfg, argv = {}, {}, []
                if mode == "absent":
                    cfg["x-" + name] = decoy
                else:
                    _give(rng, name, short, mode, v, decoy, cli, cfg, argv)
                opts = list(rng.choice([[], ["-s"], ["--same"], ["-o"]]))
                files = {"lhs.yaml": ltext, "rhs.yaml": rtext}
                names, stdin = ["lhs.yaml", "rhs.yaml"], None
                if cfg:
                    files["diff.ini"] = _ini(cfg)
                    argv += rng.choice([["--config=diff.ini"], ["-c", "diff.ini"]])
                delivery = rng.choice(["ff", "f-", "-f"])
                if delivery == "f-":
                    stdin, names[1] = files.pop("rhs.yaml"), "-"
                elif delivery == "-f":
                    stdin, names[0] = files.pop("lhs.yaml"), "-"
                specs.append({
                    "tool": "diff", "argv": argv + opts + names, "files": files, "stdin": stdin, "o": o_of(),
                    "exp": {"k": "", "n": 0}, "info": False, "cls": "policy:%s:%s" % (name, mode), "delivery": delivery,
                    "policy": {"cli": cli, "cfg": {k: x for k, x in cfg.items() if not k.startswith("x-")}},
                    "want": {"l": l, "r": r, "ltext": ltext, "rtext": rtext, "opts": opts, "eff": {name: v}},
                })
    return specs


DIFF_OPTS = ([], [], ["--same"], ["-s"], ["--onlysame"], ["-o"], ["--quiet"], ["-q"], ["-q", "-t/"], ["--pathsep=/"], ["-t", "."], ["-s", "-t/"])


def diff_specs(recs, rng, count, quick, seed):
    from harness import absdoc
    pairs = {}
    for rec in recs:
        pairs.setdefault(rec["key"], (rec["l"], rec["r"]))
    allp = sorted(pairs.values(), key=repr)
    rng.shuffle(allp)
    groups = {}
    for l, r in allp:
        groups.setdefault((l[0]["k"], r[0]["k"]), []).append((l, r))
    chosen = _round_robin(groups, rng, max(1, int(count * 0.7) // 3))
    # data-equal pairs: a document against itself (another spelling of it)
    docs = sorted({json.dumps(l) for l, _ in allp})
    rng.shuffle(docs)
    chosen += [(json.loads(d), json.loads(d)) for d in (rng.choice(docs) for _ in range(max(1, int(count * 0.3) // 3)))]
    specs = []
    for l, r in chosen:
        fl = _fmts(l + r, rng, True, seed)[0]
        fr = fl if rng.random() < 0.7 else _fmts(l + r, rng, True, seed + 1)[0]
        ls, ltext = _doc_text(l, fl)
        rs, rtext = _doc_text(r, fr)
        for delivery in ("ff", "f-", "-f"):
            opts = list(rng.choice(DIFF_OPTS))
            files, stdin = {"lhs" + ls: ltext, "rhs" + rs: rtext}, None
            names = ["lhs" + ls, "rhs" + rs]
            if delivery == "f-":
                stdin = files.pop("rhs" + rs)
                names[1] = "-"
            elif delivery == "-f":
                stdin = files.pop("lhs" + ls)
                names[0] = "-"
            quiet = "--quiet" in opts or "-q" in opts
            equal = absdoc.plain_data(l) == absdoc.plain_data(r)
            specs.append({
                "tool": "diff", "argv": opts + names, "files": files, "stdin": stdin,
                "o": o_of(noise="quiet" if quiet else "default"), "exp": {"k": "same" if equal else "differs", "n": 0}, "info": False,
                "cls": "%s-vs-%s" % (l[0]["k"], r[0]["k"]), "delivery": delivery,
                "want": {"l": l, "r": r, "ltext": ltext, "rtext": rtext, "opts": opts},
            })
    # a multi-document source without a document index
    for k in range(2 if quick else 20):
        l, r = rng.choice(allp)
        _, ltext = _doc_text(l, ("yaml", "block", False))
        _, rtext = _doc_text(r, ("yaml", "block", False))
        specs.append({
            "tool": "diff", "argv": ["lhs.yaml", "rhs.yaml"], "files": {"lhs.yaml": ltext, "rhs.yaml": rtext + rtext}, "stdin": None,
            "o": o_of(), "exp": {"k": "needindex", "n": 0}, "info": False, "cls": "needindex", "delivery": "ff",
            "want": {"code": 1},
        })
    return specs


INVALID = [
    ("bad-indentation", "a:\n  b: 1\n c: 2\n"),
    ("bad-indentation", "top:\n    x: 1\n  y: 2\n"),
    ("bad-indentation", "- a: 1\n   b: 2\n  c: 3\n"),
    ("duplicate-key", "a: 1\nb: 2\na: 3\n"),
    ("duplicate-key", "m:\n  k: 1\n  k: 2\n"),
    ("duplicate-key", "{\"a\": 1, \"a\": 2}\n"),
    ("undefined-alias", "a: *nope\n"),
    ("undefined-alias", "- &x 1\n- *y\n"),
    ("unbalanced-flow", "a: [1, 2\n"),
    ("unbalanced-flow", "{a: 1, b: {c: 2}\n"),
    ("unbalanced-flow", "a: [1, 2}}\n"),
    ("unbalanced-flow", "[1, [2, 3]\n"),
    ("unterminated-quote", "a: \"abc\n"),
    ("tab-indentation", "a:\n\tb: 1\n"),
    ("duplicate-anchor", "a: &x 1\nb: &x 2\n"),
    ("bad-second-document", "---\na: 1\n---\nb: [1\n"),
    ("bad-second-document", "---\na: 1\n...\n---\nk: 1\nk: 2\n"),
    ("mapping-in-scalar", "a: b: c\n"),
]


def _really(valid, text):
    """Cross-check of the construction with ruamel.yaml alone (no yamlpath code)."""
    import warnings
    from ruamel.yaml import YAML
    try:
        with warnings.catch_warnings():
            warnings.filterwarnings("error")
            list(YAML().load_all(text))
        return valid
    except Exception:      # noqa: BLE001
        return not valid


def validate_specs(corpus, rng, count, quick, seed):
    from harness import absdoc, cliobs
    docs = [d for d, _ in corpus if len(d) >= 2]
    rng.shuffle(docs)
    valid = []
    for d in docs[:60 if quick else 600]:
        for fmt in _fmts(d, rng, True, seed):
            valid.append(("generated", _doc_text(d, fmt)[1]))
    for k in range(10 if quick else 60):
        a, b = rng.sample(docs, 2)
        valid.append(("stream", absdoc.concretise(a, "block") + "...\n" + absdoc.concretise(b, "block")))
    valid += [("empty", ""), ("comment-only", "# nothing\n"), ("json", '{"a": [1, 2, {"b": null}]}\n')]
    invalid = list(INVALID)
    for d in docs[:40 if quick else 400]:
        text = absdoc.concretise(d, "block")
        if d[0]["k"] == "map" and d[0]["keys"]:
            k = d[0]["keys"][0]
            invalid.append(("duplicate-key", text + "%s: again\n" % (k["v"] if k["t"] == "int" else json.dumps(k["v"]))))
        invalid.append(("unbalanced-flow", text + "...\n---\nz: [1, {2\n"))
        invalid.append(("undefined-alias", absdoc.concretise(d, "block") + "...\n---\n- *undefined\n"))
    dropped = 0
    valid2 = [v for v in valid if _really(True, v[1])]
    invalid2 = [v for v in invalid if _really(False, v[1])]
    dropped = len(valid) - len(valid2) + len(invalid) - len(invalid2)
    specs = []
    while len(specs) < count:
        r = rng.random()
        noise = rng.choice(["default", "default", "default", "quiet", "verbose"])
        argv = {"default": [], "quiet": [rng.choice(["-q", "--quiet"])], "verbose": [rng.choice(["-v", "--verbose"])]}[noise]
        if r < 0.03:         # argument errors
            which = rng.choice(["two-stdin", "nothing"])
            specs.append({"tool": "validate", "argv": argv + (["-", "-"] if which == "two-stdin" else ["--nostdin"]), "files": {},
                          "stdin": "a: 1\n" if which == "two-stdin" else None, "o": o_of(noise=noise), "exp": {"k": "", "n": 0}, "info": False,
                          "cls": "args:" + which, "delivery": "dash", "want": {"code": 1, "inputs": []}})
            continue
        k = rng.choice([1, 1, 2, 2, 3])
        inputs = []
        for j in range(k):
            if rng.random() < 0.35:
                kind, text = rng.choice(invalid2)
                inputs.append([False, kind, text])
            else:
                kind, text = rng.choice(valid2)
                inputs.append([True, kind, text])
        if r < 0.08:
            inputs[rng.randrange(k)] = [False, "missing-file", None]
        mode = rng.choice(["files", "files", "dash", "dash", "implicit", "extra"])
        files, names, stdin = {}, [], None
        for j, (ok, kind, text) in enumerate(inputs):
            name = "in%d.yaml" % j
            if text is not None:
                files[name] = text
            names.append(name)
        candidates = [j for j in range(k) if inputs[j][2] is not None]
        delivery = "file"
        if mode == "dash" and candidates:
            j = rng.choice(candidates)
            stdin = files.pop(names[j])
            names[j] = "-"
            delivery = "dash"
        elif mode == "implicit" and k == 1 and candidates:
            stdin = files.pop(names[0])
            names = []
            delivery = "implicit"
        elif mode == "extra":        # a waiting STDIN document besides the files: validated when the files were fine
            ok, kind, text = (False,) + rng.choice(invalid2) if rng.random() < 0.5 else (True,) + rng.choice(valid2)
            if all(i[0] for i in inputs):
                inputs.append([ok, kind + "(waiting-stdin)", text])
            stdin = text
            delivery = "waiting"
        else:
            argv = argv + (["--nostdin"] if rng.random() < 0.5 else [])
        allok = all(i[0] for i in inputs)
        specs.append({"tool": "validate", "argv": argv + names, "files": files, "stdin": stdin, "o": o_of(noise=noise),
                      "exp": {"k": "", "n": 0}, "info": False,
                      "cls": "inputs:" + "".join("g" if i[0] else "b" for i in inputs) + (":" + noise if noise != "default" else ""),
                      "delivery": delivery, "want": {"code": 0 if allok else 2, "inputs": [[i[0], i[1]] for i in inputs]}})
    return specs, dropped


PATH_EXPRS = ["=a", "=1", "^a", "$a", "%a", "=~/^[a-z]$/", "!=a", ">0", "<=1", "=zz", "!%1", "=b", "=0", "=true", "=1.5"]
PATH_OPTS = ([], [], ["--keynames"], ["-k"], ["--onlykeynames"], ["-K"], ["--expand"], ["-m"], ["--values"], ["-L"],
             ["--pathsep=/"], ["-t/", "-k"], ["--refnames"], ["-a", "-k"], ["--anchorsonly"], ["--allowvaluealiases"],
             ["--allowaliases"], ["-l", "-k"], ["--noescape"], ["-K", "-m"], ["-L", "-m"], ["--noyamlpath", "-L"],
             ["--allowkeyaliases"], ["-y", "-a"])


def paths_specs(corpus, hists, rng, count, quick, seed):
    docs = [d for d, _ in corpus if len(d) >= 2]
    docs += [rec["doc0"] for rec in hists if len(rec["doc0"]) >= 5]
    seen, uniq = set(), []
    for d in docs:
        key = json.dumps(d)
        if key not in seen:
            seen.add(key)
            uniq.append(d)
    rng.shuffle(uniq)
    specs = []
    i = 0
    while len(specs) < count:
        d = uniq[i % len(uniq)]
        i += 1
        fmt = _fmts(d, rng, True, seed + i)[0]
        suffix, text = _doc_text(d, fmt)
        opts = list(rng.choice(PATH_OPTS))
        exprs = [rng.choice(PATH_EXPRS)]
        if rng.random() < 0.2:
            exprs.append(rng.choice(PATH_EXPRS))
        excepts = [rng.choice(PATH_EXPRS)] if rng.random() < 0.15 else []
        argv = opts + [z for e in exprs for z in (["--search=" + e] if rng.random() < 0.7 else ["-s", e])]
        argv += [z for e in excepts for z in (["--except=" + e] if rng.random() < 0.5 else ["-c", e])]
        if "--noyamlpath" in opts or rng.random() < 0.5:
            argv.append(rng.choice(["--nofile", "-F"]))
        if len(exprs) > 1 and rng.random() < 0.5:
            argv.append(rng.choice(["--noexpression", "-X"]))
        delivery = rng.choice(["file", "dash", "implicit", "two", "waiting"])
        inputs = [("doc" + suffix, text, d)]
        files, names, stdin = {"doc" + suffix: text}, ["doc" + suffix], None
        if delivery in ("dash", "implicit"):
            stdin = files.pop("doc" + suffix)
            names = ["-"] if delivery == "dash" else []
            inputs = [("-", text, d)]
        elif delivery == "waiting":          # a named file, then the waiting STDIN document no argument names
            d2 = uniq[(i * 11) % len(uniq)]
            s2, t2 = _doc_text(d2, _fmts(d2, rng, True, seed)[0])
            stdin = t2
            inputs.append(("-", t2, d2))
        elif delivery == "two":
            d2 = uniq[(i * 7) % len(uniq)]
            s2, t2 = _doc_text(d2, _fmts(d2, rng, True, seed)[0])
            if rng.random() < 0.5:
                files["other" + s2] = t2
                names.append("other" + s2)
                inputs.append(("other" + s2, t2, d2))
                argv.append("--nostdin")
            else:
                stdin = t2
                names.append("-")
                inputs.append(("-", t2, d2))
        else:
            argv.append("--nostdin")
        specs.append({"tool": "paths", "argv": argv + names, "files": files, "stdin": stdin, "o": o_of(),
                      "exp": {"k": "", "n": 0}, "info": False, "cls": "search:" + "+".join(sorted(set(o.lstrip("-")[:1] for o in opts)) or ["default"]),
                      "delivery": delivery,
                      "want": {"inputs": [[n, t] for n, t, _ in inputs], "exprs": exprs, "excepts": excepts, "opts": opts,
                               "nofile": any(a in ("--nofile", "-F") for a in argv), "noexpr": any(a in ("--noexpression", "-X") for a in argv)}})
    # unusable expression / unreadable source
    for k in range(4 if quick else 40):
        d = uniq[k % len(uniq)]
        suffix, text = _doc_text(d, ("yaml", "block", False))
        if k % 2:
            specs.append({"tool": "paths", "argv": ["-S", "--search=a", "doc" + suffix], "files": {"doc" + suffix: text}, "stdin": None,
                          "o": o_of(), "exp": {"k": "badexpr", "n": 0}, "info": False, "cls": "badexpr", "delivery": "file",
                          "want": {"code": 1}})
        else:
            specs.append({"tool": "paths", "argv": ["-S", "--search==a", "doc" + suffix], "files": {"doc" + suffix: "a: [1\n"}, "stdin": None,
                          "o": o_of(), "exp": {"k": "", "n": 0}, "info": False, "cls": "unreadable", "delivery": "file",
                          "want": {"code": 3}})
    return specs


# ======================================================================================================= execution
OLD = 1000000000


def execute(spec, how, scratch):
    """Run one spec in a clean scratch directory; returns the observation dict (JSON-able)."""
    from harness import cliobs
    for name in os.listdir(scratch):
        os.remove(os.path.join(scratch, name))
    for name, text in spec["files"].items():
        with open(os.path.join(scratch, name), "w", encoding="utf-8") as fh:
            fh.write(text)
        os.utime(os.path.join(scratch, name), (OLD, OLD))
    before = {n: open(os.path.join(scratch, n), "rb").read() for n in spec["files"]}
    run = cliobs.run_inproc if how == "inproc" else cliobs.run_subproc
    res = run(spec["tool"], spec["argv"], spec["stdin"], scratch)
    after = {}
    touched = []
    for name in sorted(os.listdir(scratch)):
        p = os.path.join(scratch, name)
        with open(p, "rb") as fh:
            after[name] = fh.read()
        if name not in before or int(os.stat(p).st_mtime) != OLD:
            touched.append(name)
    # (ConsolePrinter.error and .warning write to stdout: their lines are not results)
    lines = [l for l in cliobs.stdout_lines(res["out"]) if l != HELP_LINE and not l.startswith("WARNING:  ")]
    out = "\n".join(lines) + ("\n" if lines and res["out"].endswith("\n") else "")
    return {"status": res["status"], "code": cliobs.exit_code(res["status"]), "lines": lines, "out": out,
            "err": res["err"][-400:], "events": res["events"], "touched": touched,
            "unchanged": all(after.get(n) == b for n, b in before.items()),
            "files": {n: after[n].decode("utf-8", "replace") for n in touched}}


# ========================================================================================================== judging
def judge(spec, ob):
    """-> (problems [(kind, text)], observed lines count for the model, observed doc 'none'|'written')."""
    return JUDGES[spec["tool"]](spec, ob)


def _judge_get(spec, ob):
    from harness import cliobs
    w = spec["want"]
    P = []
    lines = ob["lines"]
    if w["cls"] == "rich":
        if ob["code"] != 0 or len(lines) != 1:
            P.append(("exit" if ob["code"] else "lines", "one node matches; exit status %s, lines %r" % (ob["status"], lines[:3])))
        elif w["line"] is not None and lines[0] != w["line"]:
            P.append(("content", "printed %r, expected %r" % (lines[0], w["line"])))
        elif w["line"] is None:
            try:
                good = json.loads(lines[0]) == w["json"]
            except ValueError:
                good = False
            if not good:
                P.append(("content", "printed %r, expected the JSON %s" % (lines[0][:200], json.dumps(w["json"]))))
        return P, len(lines), "none"
    if w["cls"] == "unreadable":
        if ob["code"] != 1 or lines:
            P.append(("exit", "the document does not load; exit status %s, lines %r" % (ob["status"], lines[:3])))
        return P, len(lines), "none"
    doc = w["doc"]
    if w["cls"] == "matched":
        if ob["code"] != 0:
            P.append(("exit", "something matched (n=%d) but exit status %s; stderr %r" % (w["n"], ob["status"], ob["err"][-160:])))
        elif len(lines) != w["n"]:
            P.append(("lines", "expected %d line(s), got %d: %r" % (w["n"], len(lines), lines[:6])))
        else:
            if not w["virt"] and not w["names"] and len(w["ids"]) == w["n"]:
                exp = [[i] for i in w["ids"]]
            elif w["virt"] and w["n"] == 1:
                exp = [w["ids"]]
            else:
                exp = None                      # several virtual results: the grouping is not part of the case
            if exp is not None:
                for k, (line, ids) in enumerate(zip(lines, exp)):
                    if len(ids) == 1 and not w["virt"]:
                        n = doc[ids[0] - 1]
                        if n["k"] == "s":
                            good = cliobs.scalar_line_ok(line, n)
                        else:
                            ok, v = cliobs.jparse(line)
                            good = ok and cliobs.jsort(v) == cliobs.jsort(cliobs.jview(doc, ids[0]))
                    else:
                        ok, v = cliobs.jparse(line)
                        good = ok and cliobs.jsort(v) == cliobs.jsort(("a", tuple(cliobs.jview(doc, i) for i in ids)))
                    if not good:
                        P.append(("content", "line %d is %r, expected node(s) %s" % (k + 1, line[:80], ids)))
                        break
    else:
        if ob["code"] == 0:
            P.append(("exit", "%s but exit status 0 with %d line(s)" % (w["cls"], len(lines))))
        elif lines:
            P.append(("lines", "%s (exit %s) yet %d result line(s) printed: %r" % (w["cls"], ob["status"], len(lines), lines[:3])))
    return P, len(lines), "none"


def _result_text(spec, ob):
    """The result document of yaml-set / yaml-merge: (text | None, 'none' | 'written')."""
    if spec["tool"] == "set":
        if spec["stdin"] is not None:
            return (ob["out"], "written") if ob["out"].strip() else (None, "none")
        t = spec["target"]
        return (ob["files"][t], "written") if t in ob["touched"] else (None, "none")
    if spec.get("output"):
        o = spec["output"]
        return (ob["files"][o], "written") if o in ob["touched"] else (None, "none")
    return (ob["out"], "written") if ob["out"].strip() else (None, "none")


def _judge_set(spec, ob):
    from harness import absdoc, cliobs
    w = spec["want"]
    P = []
    text, written = _result_text(spec, ob)
    if w["final"] is not None:
        if ob["code"] != 0:
            P.append(("exit", "the edit applies in the model but exit status %s; stderr %r" % (ob["status"], ob["err"][-160:])))
        elif text is None:
            P.append(("document", "exit 0 but no result document was written"))
        else:
            tab = cliobs.load_text(text)
            if not (cliobs.same_data(tab, w["final"]) or (cliobs.jparse(text)[0] and cliobs.same_json(text, w["final"]))):
                P.append(("document", "result %r does not reload to the model's document %s" % (
                    text[:200], absdoc.concretise(w["final"], "flow").strip())))
    else:
        if ob["code"] == 0 or (spec["cls"] == "unreadable" and ob["code"] != 1):
            P.append(("exit", "the model refuses (%s) but exit status %s" % (spec["cls"], ob["status"])))
        if not ob["unchanged"] or ob["touched"] or (spec["stdin"] is not None and ob["out"].strip()):
            P.append(("touched", "a refused run (exit %s) wrote %s / printed %r" % (ob["status"], ob["touched"], ob["out"][:80])))
    return P, 0, written


def _judge_merge(spec, ob):
    from harness import absdoc, cliobs
    w = spec["want"]
    P = []
    text, written = _result_text(spec, ob)
    if "code" in w:
        if ob["code"] != w["code"]:
            P.append(("exit", "expected exit status %d, got %s" % (w["code"], ob["status"])))
        if text is not None:
            P.append(("touched", "a failed run delivered a document: %r" % text[:80]))
        return P, 0, written
    if "outs" in w:
        if w["outs"] is None:
            if ob["code"] == 0:
                P.append(("exit", "one pair of the streams cannot be merged in the model but exit status 0"))
            if text is not None:
                P.append(("touched", "a failed merge (exit %s) delivered a document: %r" % (ob["status"], text[:120])))
        elif ob["code"] != 0 or text is None:
            P.append(("exit", "every pair merges in the model; exit status %s, result %r; stderr %r" % (ob["status"], text and text[:80], ob["err"][-160:])))
        else:
            docs = cliobs.load_stream(text)
            wants = [[dict(n, anchor="", alias=0) for n in d] for d in w["outs"]]
            if docs is None or len(docs) != len(wants) or not all(cliobs.same_data(d, x) for d, x in zip(docs, wants)):
                P.append(("document", "result stream %r is not the model's %s" % (text[:300], [absdoc.concretise(x, "flow").strip() for x in wants])))
        return P, 0, written
    if w.get("rich"):
        if ob["code"] != 0 or text is None:
            P.append(("exit", "a single readable document; exit status %s, result %r" % (ob["status"], text)))
        elif spec["docfmt"] == "json":
            try:
                good = json.loads(text) == RICH_JSON
            except ValueError:
                good = False
            if not good:
                P.append(("document", "printed %r, expected the JSON %s" % (text[:300], json.dumps(RICH_JSON))))
        else:
            tab = cliobs.load_text(text)
            if not cliobs.same_data(tab, absdoc.abstract(absdoc.load(RICH))):
                P.append(("document", "printed %r, which does not reload to the input's data" % text[:300]))
        return P, 0, written
    if w["out"] is not None:
        if ob["code"] != 0:
            P.append(("exit", "the merge is defined but exit status %s; stderr %r" % (ob["status"], ob["err"][-160:])))
        elif text is None:
            P.append(("document", "exit 0 but no result document"))
        else:
            want = [dict(n, anchor="", alias=0) for n in w["out"]]
            isjson = cliobs.jparse(text)[0]
            if spec["docfmt"] == "json":
                good = isjson and cliobs.same_json(text, want)
            elif spec["docfmt"] == "yaml":
                good = cliobs.same_data(cliobs.load_text(text), want)
            else:
                good = cliobs.same_data(cliobs.load_text(text), want) or (isjson and cliobs.same_json(text, want))
            if not good:
                P.append(("document", "result %r (format %s) is not the model's %s" % (
                    text[:200], spec["docfmt"], absdoc.concretise(want, "flow").strip())))
        if spec.get("output") and ob["out"].strip():
            P.append(("document", "--output given but a document was printed as well: %r" % ob["out"][:80]))
    else:
        if ob["code"] == 0:
            P.append(("exit", "the model has a merge error but exit status 0"))
        if text is not None:
            P.append(("touched", "a failed merge (exit %s) delivered a document: %r" % (ob["status"], text[:80])))
    if not ob["unchanged"]:
        P.append(("touched", "an input file was modified"))
    return P, 0, written


def library_diff(ltext, rtext, opts, arrays=None, aoh=None):
    """The library's own report for the same two texts and options: [(symbol, path, body)], has_differences."""
    from types import SimpleNamespace
    from yamlpath.differ import Differ, DifferConfig
    from yamlpath.differ.enums.diffactions import DiffActions
    from yamlpath.enums import PathSeparators
    from harness import absdoc, cliobs
    ldata, rdata = absdoc.load(ltext), absdoc.load(rtext)
    args = SimpleNamespace(arrays=arrays, aoh=aoh, config=None, debug=False, verbose=False, quiet=True)
    differ = Differ(DifferConfig(absdoc.LOG, args), absdoc.LOG, ldata, ignore_eyaml_values=True)
    differ.compare_to(rdata)
    sep = PathSeparators.FSLASH if any(o in ("--pathsep=/", "-t/") for o in opts) else PathSeparators.DOT
    same = any(o in ("-s", "--same") for o in opts)
    onlysame = any(o in ("-o", "--onlysame") for o in opts)
    out, differs = [], False
    for e in differ.get_report():
        isdiff = e.action is not DiffActions.SAME
        differs = differs or isdiff
        if same or (isdiff and not onlysame) or (onlysame and not isdiff):
            out.append(cliobs.entry_view(e, sep))
    if any(o in ("-q", "--quiet") for o in opts):
        out = []
    return out, differs


def _judge_diff(spec, ob):
    from harness import absdoc, cliobs
    w = spec["want"]
    P = []
    got = cliobs.parse_diff_entries(ob["out"])
    if "code" in w:
        if ob["code"] != w["code"]:
            P.append(("exit", "expected exit status %d, got %s" % (w["code"], ob["status"])))
        return P, len(got), "none"
    eff = w.get("eff")
    try:
        lib, libdiffers = library_diff(w["ltext"], w["rtext"], w["opts"], **(eff or {}))
        liberr = None
    except Exception as ex:      # noqa: BLE001
        lib, libdiffers, liberr = None, None, type(ex).__name__
    if eff is not None:
        # a non-default comparison policy redefines which documents count as the same: the answer to deliver is the
        # library's report under the EFFECTIVE policy (command line > [defaults] of --config > built-in)
        if lib is None:
            return P, len(got), "none"
        if ob["code"] != (1 if libdiffers else 0):
            P.append(("exit", "under %s the library reports %s, exit status %s" % (eff, "differences" if libdiffers else "none", ob["status"])))
        if [tuple(e) for e in got] != lib:
            P.append(("entries", "printed entries %r; under the effective policy %s the library's report gives %r" % (got[:4], eff, lib[:4])))
        return P, len(got), "none"
    equal = absdoc.plain_data(w["l"]) == absdoc.plain_data(w["r"])
    if ob["code"] not in (0, 1) or (ob["code"] == 0) != equal:
        if liberr:
            cause = "differ-raises-" + liberr
        elif libdiffers == (ob["code"] != 0):
            cause = "differ-report-says-%s" % ("different" if libdiffers else "same")
        else:
            cause = "exit-ignores-report"
        P.append(("exit:" + cause, "documents are data-%s but exit status %s" % ("equal" if equal else "different", ob["status"])))
    if lib is not None and [tuple(e) for e in got] != lib:
        P.append(("entries", "printed entries %r, the library's report gives %r" % (got[:4], lib[:4])))
    return P, len(got), "none"


def _judge_validate(spec, ob):
    w = spec["want"]
    P = []
    if ob["code"] != w["code"]:
        P.append(("exit", "inputs %s: expected exit status %d, got %s; stdout %r stderr %r" % (
            w["inputs"], w["code"], ob["status"], ob["lines"][:3], ob["err"][-160:])))
    if spec["o"]["noise"] == "quiet" and ob["lines"]:
        P.append(("lines", "--quiet but %d line(s) printed" % len(ob["lines"])))
    if spec["o"]["noise"] == "default" and w["code"] in (0, 2) and bool(ob["lines"]) != (w["code"] == 2):
        P.append(("lines", "expected %s report, got %r" % ("a" if w["code"] == 2 else "no", ob["lines"][:3])))
    return P, len(ob["lines"]), "none"


def library_paths(spec):
    """What search_for_paths yields for the same documents and options, rendered as the lines to print."""
    import json as _json
    from ruamel.yaml.comments import CommentedSet
    from yamlpath.commands import yaml_paths as yp
    from yamlpath.common import Anchors, Parsers
    from yamlpath.enums import PathSeparators
    from yamlpath.eyaml import EYAMLProcessor
    from harness import absdoc
    w = spec["want"]
    opts = w["opts"]

    def has(*names):
        return any(o in names for o in opts)
    sep = PathSeparators.FSLASH if has("--pathsep=/", "-t/") else PathSeparators.DOT
    search_values, search_keys = True, False
    if has("--onlykeynames", "-K"):
        search_values, search_keys = False, True
    elif has("--keynames", "-k"):
        search_keys = True
    ika, iva = True, False                      # default: key aliases
    if has("--allowaliases", "-l"):
        ika, iva = True, True
    elif has("--allowvaluealiases", "-y"):
        ika, iva = False, True
    elif has("--anchorsonly", "-A"):
        ika, iva = False, False
    lines = []
    for name, text in w["inputs"]:
        data = absdoc.load(text)
        proc = EYAMLProcessor(absdoc.LOG, data)
        all_anchors = {}
        Anchors.scan_for_anchors(data, all_anchors)

        def search(expr):
            term = yp.get_search_term(absdoc.LOG, expr)
            return list(yp.search_for_paths(
                absdoc.LOG, proc, data, term, sep, search_values=search_values, search_keys=search_keys,
                search_anchors=has("--refnames", "-a"), include_key_aliases=ika, include_value_aliases=iva,
                decrypt_eyaml=False, expand_children=has("--expand", "-m"), all_anchors=all_anchors))
        found = []
        for expr in w["exprs"]:
            for p in search(expr):
                if str(p) not in [str(q) for _, q in found]:
                    found.append((expr, p))
        if found:
            for expr in w["excepts"]:
                for p in search(expr):
                    found = [(e, q) for e, q in found if str(q) != str(p)]
        for expr, p in found:
            parts = []
            label = ""
            if not w["nofile"]:
                label += "%s/0" % ("STDIN" if name == "-" else name)
            if len(w["exprs"]) > 1 and not w["noexpr"]:
                label += "[%s]" % expr
            if label:
                parts.append(label)
            if not has("--noyamlpath"):
                if has("--noescape"):
                    segs = [str(s) for _, s in p.escaped]
                    parts.append(("/" + "/".join(segs)) if sep is PathSeparators.FSLASH else ".".join(segs))
                else:
                    parts.append(str(p))
            if has("--values", "-L"):
                val = ""
                for nc in proc.get_nodes(p, mustexist=True):
                    node = nc.node
                    if isinstance(node, (dict, list, CommentedSet)):
                        val = _json.dumps(Parsers.jsonify_yaml_data(node))
                    else:
                        val = str(node).replace("\n", "\\n")
                    break
                parts.append(val)
            lines.append(": ".join(parts))
    return lines


def _judge_paths(spec, ob):
    w = spec["want"]
    P = []
    if "code" in w:
        if ob["code"] != w["code"]:      # (results of documents that precede the unreadable one are still printed)
            P.append(("exit", "expected exit status %d, got %s" % (w["code"], ob["status"])))
        return P, len(ob["lines"]), "none"
    try:
        lib = library_paths(spec)
    except Exception:      # noqa: BLE001 - the library search itself fails: nothing to compare with (C07 judges the search)
        return [], len(ob["lines"]), "none"
    if ob["code"] != 0:
        P.append(("exit", "search over loadable documents, exit status %s; stderr %r" % (ob["status"], ob["err"][-160:])))
    elif ob["lines"] != lib:
        P.append(("lines", "printed %r, search_for_paths gives %r" % (ob["lines"][:5], lib[:5])))
    return P, len(ob["lines"]), "none"


JUDGES = {"get": _judge_get, "set": _judge_set, "merge": _judge_merge, "diff": _judge_diff,
          "validate": _judge_validate, "paths": _judge_paths}


# ===================================================================================================== the batch
def _work(items):
    from harness import cliobs
    scratch = tempfile.mkdtemp(prefix="run", dir=_SCRATCH[0])
    out = []
    try:
        for idx, spec, how, twin_events in items:
            ob = execute(spec, how, scratch)
            P, nlines, doc = judge(spec, ob)
            ev = _with_policy(spec, cliobs.finish(spec["tool"], {"events": ob["events"], "status": ob["status"]}, nlines, doc, expected=twin_events))
            out.append({"idx": idx, "how": how, "problems": P, "code": ob["code"], "status": ob["status"], "events": ev,
                        "lines": ob["lines"][:8], "nlines": nlines, "doc": doc, "touched": ob["touched"],
                        "result": _result_text(spec, ob)[0] if spec["tool"] in ("set", "merge") else None,
                        "err": ob["err"][-200:]})
    finally:
        shutil.rmtree(scratch, ignore_errors=True)
    return out


_SCRATCH = [None]
POLICY_OPTS = {"merge": ("hashes", "arrays", "aoh", "sets", "anchors"), "diff": ("arrays", "aoh")}


def _with_policy(spec, ev):
    """The args event also says what the user wrote for each policy option: on the command line, in [defaults]."""
    pol = spec.get("policy") or {}
    keys = POLICY_OPTS.get(spec["tool"], ())
    if ev and ev[0]["ph"] == "args":
        ev[0] = dict(ev[0], cli={k: pol.get("cli", {}).get(k, "") for k in keys}, cfg={k: pol.get("cfg", {}).get(k, "") for k in keys})
    return ev



def _sig(spec, kind):
    return "%s:%s:%s" % (spec["tool"], kind, spec["cls"])


def _desc(spec, r, text):
    return "yaml-%s %s (stdin %s; files %s) [%s]: %s" % (
        spec["tool"], " ".join(spec["argv"]), "-" if spec["stdin"] is None else repr(spec["stdin"][:80]),
        {n: t[:80] for n, t in spec["files"].items()}, r["how"], text)


def _tlc_table(ctx):
    cfg = "MC_YCli_q.cfg" if ctx.quick else "MC_YCli.cfg"
    f = ctx.path("table.cases")
    r = core.run_tlc(ctx, "MC_YCli", cfg, env={"CASES_OUT": f}, workers=4 if ctx.quick else 8, timeout=3600)
    if r["violated"]:
        raise core.MachineryError("%s violated in MC_YCli/%s (see %s)" % (r["violated"], cfg, r["log"]))
    table = {}
    for row in core.read_csv_json_lines(f):
        key = (row["tool"], row["must"], row["mode"], row["argsok"], row["valid"], min(row["badat"], 2), row["k"], row["badexpr"])
        table.setdefault(key, set()).add(row["code"])
    os.remove(f)
    # the theorems are not vacuous: the design "the status of the last source wins" must be refuted
    for cfg, inv in (("MC_YCli_lastwins.cfg", "InvRunHonest"), ("MC_YCli_stdinonly.cfg", "InvDeliveryIndependent"),
                     ("MC_YCli_argdefault.cfg", "InvRunHonest")):
        d = core.run_tlc(ctx, "MC_YCli", cfg, env={"CASES_OUT": ctx.path("unused.cases")}, workers=2, timeout=600)
        if d["violated"] != inv:
            raise core.MachineryError("the deviating design %s was not refuted by %s (%s; see %s)" % (cfg, inv, d["violated"], d["log"]))
    return table, r


class _Generators:
    """The three library-level generator models, run side by side in the background; need(tag) waits for one."""

    def __init__(self, ctx):
        self.jobs = {"q": ("MC_Query", "MC_YCli_query_q.cfg" if ctx.quick else "MC_Query_q1.cfg"),
                     "e": ("MC_Edit", "MC_YCli_edit_q.cfg" if ctx.quick else "MC_YCli_edit_t.cfg"),
                     "m": ("MC_Merge", "MC_YCli_merge_q.cfg" if ctx.quick else "MC_Merge_q.cfg"),
                     "a": ("MC_Merge", "MC_YCli_merge_anch.cfg")}
        self.res, self.errs, self.ths = {}, {}, {}
        for tag, (module, cfg) in self.jobs.items():
            self.ths[tag] = threading.Thread(target=self._one, args=(ctx, tag, module, cfg))
            self.ths[tag].start()

    def _one(self, ctx, tag, module, cfg):
        try:
            f = ctx.path(cfg + ".cases")
            r = core.run_tlc(ctx, module, cfg, env={"CASES_OUT": f}, workers=max(2, core.NCPU // 3), timeout=7200, heap="4g")
            if r["violated"]:
                raise core.MachineryError("%s violated in %s (see %s)" % (r["violated"], cfg, r["log"]))
            # TLC's workers write the cases in no particular order: sort, so that a seed names the same runs every time
            if tag == "q":
                out = sorted(((d, sorted(cs, key=lambda c: (c["dot"], c["sl"]))) for d, cs in querycorpus.load_corpus(f)),
                             key=lambda x: json.dumps(x[0], sort_keys=True))
            elif tag == "e":
                out = sorted((h for h in core.read_csv_json_lines(f) if len(h["hist"]) == 1), key=lambda h: json.dumps(h, sort_keys=True))
            else:
                out = sorted(core.read_csv_json_lines(f), key=lambda r: (r["key"], json.dumps(r["group"], sort_keys=True)))
            os.remove(f)
            self.res[tag] = out
        except BaseException as ex:      # noqa: BLE001 - re-raised by need()
            self.errs[tag] = ex

    def need(self, *tags):
        for tag in tags:
            self.ths[tag].join()
            if tag in self.errs:
                raise self.errs[tag]
        return self.res


def _validate_traces(ctx, records, name):
    """One TLC run of Trace_YCli over a batch of records -> verdicts by id."""
    fin, fout = ctx.path(name + ".records.json"), ctx.path(name + ".verdicts.json")
    with open(fin, "w") as fh:
        json.dump(records, fh)
    r = core.run_tlc(ctx, "Trace_YCli", "Trace_YCli.cfg", env={"RECORDS_IN": fin, "VERDICTS_OUT": fout}, workers=1,
                     name=name, timeout=3600)
    if r["violated"] or not os.path.exists(fout):
        raise core.MachineryError("Trace_YCli failed on %s (see %s)" % (name, r["log"]))
    with open(fout) as fh:
        return {v["id"]: v for v in json.load(fh)}


def _build(tool, gen, rng, per, ctx):
    if tool == "get":
        return get_specs(gen["q"], rng, per, ctx.quick, ctx.seed), 0
    if tool == "set":
        return set_specs(gen["e"], gen["q"], rng, per, ctx.quick, ctx.seed), 0
    if tool == "merge":
        return (merge_specs(gen["m"], rng, per, ctx.quick, ctx.seed) + merge_policy_specs(gen["m"], gen["a"], rng, ctx.quick, ctx.seed)
                + merge_stream_specs(gen["m"], rng, ctx.quick, ctx.seed)), 0
    if tool == "diff":
        return diff_specs(gen["m"], rng, per, ctx.quick, ctx.seed) + diff_policy_specs(gen["m"], rng, ctx.quick, ctx.seed), 0
    if tool == "validate":
        return validate_specs(gen["q"], rng, per, ctx.quick, ctx.seed)
    return paths_specs(gen["q"], gen["e"], rng, per, ctx.quick, ctx.seed), 0


def _table_key(spec, tr, k):
    argsok = not any(e["ph"] == "args" and not e["ok"] for e in tr)
    valid = not any(e["ph"] == "validate" and not e["ok"] for e in tr)
    loads = [e["ok"] for e in tr if e["ph"] == "load"]
    badat = next((j + 1 for j, ok in enumerate(loads) if not ok), 0)
    return (spec["tool"], spec["o"]["must"], spec["o"]["mode"], argsok, valid, min(badat, 2), k,
            any(e["ph"] == "work" and e["k"] == "badexpr" for e in tr))


def _flush(ctx, pending, table, tot, accepted, rs):
    """Validate the pending runs against YCli (Trace_YCli, batches of 20000) and turn the verdicts into findings."""
    if not pending:
        return
    records = [{"id": j, "tool": s["tool"], "o": s["o"], "tr": r["events"], "code": r["code"], "exp": s["exp"]}
               for j, (s, r) in enumerate(pending)]
    verdicts = {}
    for k in range(0, len(records), 20000):
        tot["batches"] = tot.get("batches", 0) + 1
        verdicts.update(_validate_traces(ctx, records[k:k + 20000], "trace%02d" % tot["batches"]))
    tot["records"] += len(records)
    for rec, (s, r) in zip(records, pending):
        v = verdicts[rec["id"]]
        if not v["ok"]:
            tot["rejected"] += 1
            ctx.violation("trace:%s:%s:%s" % (s["tool"], v["why"], v["k"] or "-"),
                          _desc(s, r, "run rejected by YCli at event %d (%s) in pc %s with library outcome %s/%d; the table allows exit %s; events %s" % (
                              v["at"], v["why"], v["pc"], v["k"], v["n"], v["codes"], json.dumps(rec["tr"]))),
                          {"spec": s, "how": r["how"]})
            continue
        # the table emitted by MC_YCli covers the observed outcome class
        if rec["code"] not in table.get(_table_key(s, rec["tr"], v["k"]), ()):
            tot["uncovered"] += 1
        if s["exp"]["k"] and rec["code"] not in v["want"]:
            tot["want"] += 1
            if s["tool"] == "merge" and s["exp"]["k"] == "mergeerr" and rec["code"] in (14, 32, 42):
                continue            # a YAML Path error instead of a merge error: still an honest failure
            ctx.violation("table:%s:%s:exit%d" % (s["tool"], s["exp"]["k"], rec["code"]),
                          _desc(s, r, "the model predicts the library outcome %s, for which the table gives exit %s; the run ended with %d (observed outcome %s)" % (
                              s["exp"]["k"], v["want"], rec["code"], v["k"])),
                          {"spec": s, "how": r["how"]})
    good = [rec for rec in records if verdicts[rec["id"]]["ok"]]
    by_tool = {}
    for rec in good:
        by_tool.setdefault(rec["tool"], []).append(rec)
    for t in sorted(by_tool):
        accepted += rs.sample(by_tool[t], min(len(by_tool[t]), 12))
    del pending[:]


NEEDS = {"get": "q", "set": "qe", "validate": "q", "paths": "qe", "merge": "ma", "diff": "m"}


def run(ctx):
    gens = _Generators(ctx)
    try:
        table, _ = _tlc_table(ctx)
    except BaseException:
        for t in gens.ths.values():
            t.join()
        raise
    per = 2000 if ctx.quick else 30000
    nsub = 60 if ctx.quick else 500
    _SCRATCH[0] = ctx.path("runs")
    os.makedirs(_SCRATCH[0], exist_ok=True)
    rs = random.Random(ctx.seed + 77)
    stats = {t: {"runs": 0, "info": 0, "info_mismatch": 0, "nonzero": 0, "stdin": 0, "implicit": 0, "json": 0, "crash": 0} for t in TOOLS}
    tot = {"records": 0, "sub": 0, "boundary": 0, "rejected": 0, "want": 0, "uncovered": 0, "dropped": 0}
    outcome_classes = set()
    policy_runs = {}              # runs per (tool, policy option, where the value was given)
    accepted = []                 # a few accepted records per batch, for the self-test
    pending = []                  # (spec, result) pairs waiting for trace validation
    sample = None
    order = ("get", "set", "validate", "paths", "unreadable", "merge", "diff")      # (the merge corpus arrives last)
    for tool in order:
        if tool == "unreadable":
            specs = unreadable_specs(random.Random(ctx.seed + 5), ctx.quick)
        else:
            gen = gens.need(*NEEDS[tool])
            specs, dropped = _build(tool, gen, random.Random(ctx.seed * 1000003 + TOOLS.index(tool)), per, ctx)
            tot["dropped"] += dropped
        results = {}
        for r in querycorpus.pmap(_work, [(i, s, "inproc", None) for i, s in enumerate(specs)], chunk=40):
            results[r["idx"]] = r
        # ---- the process boundary: a sample of the same runs as real processes
        sub_idx = sorted(rs.sample(range(len(specs)), min(len(specs), nsub // len(TOOLS) if tool != "unreadable" else 6)))
        sub_items = [(i, specs[i], "subproc", [e for e in results[i]["events"] if e["ph"] not in ("output", "exit")]) for i in sub_idx]
        sub_results = {}
        for r in querycorpus.pmap(_work, sub_items, chunk=2):
            sub_results[r["idx"]] = r
        tot["sub"] += len(sub_results)
        for i, sr in sub_results.items():
            ir = results[i]
            same = (sr["code"] == ir["code"] and sr["lines"] == ir["lines"] and sr["doc"] == ir["doc"] and sr["touched"] == ir["touched"]
                    and sr["result"] == ir["result"])
            if not same and not isinstance(ir["status"], str):
                tot["boundary"] += 1
                ctx.violation("boundary:%s:%s" % (specs[i]["tool"], specs[i]["cls"]),
                              _desc(specs[i], sr, "the real process gives exit %s, lines %r, document %s; the in-process run exit %s, lines %r, document %s" % (
                                  sr["code"], sr["lines"][:4], sr["doc"], ir["code"], ir["lines"][:4], ir["doc"])),
                              {"spec": specs[i], "how": "subproc"})
        # ---- verdicts of the projection
        for pool in (results, sub_results):
            for i, r in pool.items():
                s = specs[i]
                st = stats[s["tool"]]
                st["runs"] += 1
                st["nonzero"] += r["code"] != 0
                st["stdin"] += s["stdin"] is not None
                st["implicit"] += _via(s) == "implicit"
                st["json"] += any(n.endswith(".json") for n in s["files"])
                st["crash"] += isinstance(r["status"], str)
                outcome_classes.add((s["tool"], s["cls"], _via(s), r["code"]))
                if s["cls"].startswith("policy:"):
                    policy_runs[s["tool"] + ":" + s["cls"][7:]] = policy_runs.get(s["tool"] + ":" + s["cls"][7:], 0) + 1
                if s["info"]:
                    st["info"] += 1
                    st["info_mismatch"] += bool(r["problems"])
                    continue
                for kind, text in r["problems"][:1]:
                    if isinstance(r["status"], str):
                        kind = "crash:" + r["status"].split(":", 1)[1]
                    ctx.violation(_sig(s, kind), _desc(s, r, text), {"spec": s, "how": r["how"]})
        # ---- C->S: the runs are validated against YCli in batches (flush)
        for pool in (results, sub_results):
            for i, r in sorted(pool.items()):
                pending.append((specs[i], r))
        if tool == "set":
            i = next((i for i in range(len(specs)) if not results[i]["problems"] and results[i]["code"] == 0), 0)
            sample = {"tool": "set", "argv": specs[i]["argv"], "files": specs[i]["files"], "stdin": specs[i]["stdin"],
                      "events": results[i]["events"], "result": results[i]["result"]}
        del specs, results, sub_results
        if len(pending) >= 40000:
            _flush(ctx, pending, table, tot, accepted, rs)
    _flush(ctx, pending, table, tot, accepted, rs)

    # ---- binding self-test: corrupted records must be rejected
    corrupt = []
    for rec in accepted:
        for what in ("code", "lines", "via", "outcome", "drop", "policy"):
            c = json.loads(json.dumps(rec))
            c["id"] = len(corrupt)
            tr = c["tr"]
            if what == "code":
                tr[-1]["code"] = 0 if tr[-1]["code"] else 1
                c["code"] = tr[-1]["code"]
            elif what == "lines":
                if c["tool"] in ("set", "merge"):
                    tr[-2]["doc"] = "none" if tr[-2]["doc"] == "written" else "written"
                elif c["tool"] == "validate" and c["o"]["noise"] == "verbose":
                    continue
                elif c["tool"] == "validate" and c["o"]["noise"] == "default":
                    tr[-2]["lines"] = 0 if tr[-2]["lines"] else 1
                else:
                    tr[-2]["lines"] += 1
            elif what == "via":
                loads = [e for e in tr if e["ph"] == "load"]
                if not loads:
                    continue
                loads[0]["via"] = "pipe"
            elif what == "policy":
                works = [e for e in tr if e["ph"] == "work" and e.get("policy")]
                if not works:
                    continue
                works[-1]["policy"] = dict(works[-1]["policy"], aoh="no-such-policy")
            elif what == "outcome":
                works = [e for e in tr if e["ph"] == "work"]
                if not works:
                    continue
                works[-1]["k"] = "no-such-outcome"
            else:
                del tr[1]
            c["what"] = what
            corrupt.append(c)
    cv = _validate_traces(ctx, corrupt, "selftest") if corrupt else {}
    missed = [c for c in corrupt if cv[c["id"]]["ok"]]
    if missed:
        raise core.MachineryError("binding self-test: %d corrupted records were accepted, e.g. %s" % (len(missed), json.dumps(missed[0])[:600]))

    ctx.informational = sum(st["info"] for st in stats.values())
    ctx.coverage.update({
        "evaluations": tot["records"], "distinct_nontrivial": len(outcome_classes),
        "rule": "one evaluation = one run of a real main() (in-process, or as a real process for the sample); runs per tool = model cases "
                "(MC_Query / MC_Edit / MC_Merge) x delivery (file, '-', implicit STDIN) x notation / input format / output options; non-trivial = distinct "
                "(tool, input class, delivery, exit status) combinations observed",
        "per_tool": stats, "policy_source_runs": policy_runs, "subprocess_runs": tot["sub"], "boundary_mismatches": tot["boundary"],
        "traces_validated_against_impl": tot["records"], "traces_rejected": tot["rejected"],
        "model_outcome_vs_exit_mismatches": tot["want"],
        "outcome_classes_outside_emitted_table": tot["uncovered"], "table_rows": sum(len(v) for v in table.values()),
        "deviating_designs_refuted": ["last-source-wins (Sticky = FALSE) violates InvRunHonest",
                                      "a policy option with a parser default of its own (ConfigDefaultsHonoured = FALSE) violates InvRunHonest",
                                      "yaml-merge before the STDIN-only repair (StdinOnlyMerge = FALSE) violates InvDeliveryIndependent"],
        "binding_selftest": {"corrupted_records": len(corrupt), "rejected": len(corrupt) - len(missed),
                             "fields": ["exit code", "stdout lines / result document", "delivery", "library outcome", "missing phase", "effective policy"]},
        "model_drift": sum(st["info_mismatch"] for st in stats.values()),
        "validate_texts_dropped_by_ruamel_crosscheck": tot["dropped"],
        "exhaustive": False,
        "samples": [sample] if sample else [],
        "trusted_base": ["TLC 1.8", "spec/YQuery.tla, YEdit.tla, YMerge.tla as the library-level models (C01, C03/C04, C05)",
                         "harness/absdoc.py concretise / load / abstract", "ruamel.yaml as the judge of which curated texts are invalid",
                         "Differ.get_report and search_for_paths as oracles for the entries / lines to print (the statement names them)"],
    })
    ctx.assumptions += [
        "empty (null) documents are informational: yaml-get answers nothing and exits 0 there, the documentation is silent",
        "the line 'Please try --help for more information.' that ConsolePrinter.error writes to stdout is not a result line",
        "yaml-diff equality is judged for the default (position) array modes only; value / key modes redefine equality",
        "dates, timestamps, tagged values are covered by one hand-written document; the node tables do not carry them",
    ]
    shutil.rmtree(_SCRATCH[0], ignore_errors=True)


def replay(path):
    from harness import cliobs
    with open(path) as fh:
        rp = json.load(fh)["replay"]
    spec = rp["spec"]
    ctx = core.Ctx("C16_replay", "quick", 0)
    scratch = tempfile.mkdtemp(prefix="run", dir=ctx.out)
    how = rp.get("how", "inproc")
    try:
        ob = execute(spec, "inproc", scratch)
        twin = [e for e in ob["events"] if e["ph"] not in ("output", "exit")]
        if how == "subproc":
            ob = execute(spec, "subproc", scratch)
        P, nlines, doc = judge(spec, ob)
    finally:
        shutil.rmtree(scratch, ignore_errors=True)
    print("yaml-%s %s [%s] -> exit %s, lines %r" % (spec["tool"], " ".join(spec["argv"]), how, ob["status"], ob["lines"][:6]))
    for kind, text in P:
        print(kind, "::", text)
    ev = _with_policy(spec, cliobs.finish(spec["tool"], {"events": ob["events"], "status": ob["status"]}, nlines, doc, expected=twin))
    v = _validate_traces(ctx, [{"id": 0, "tool": spec["tool"], "o": spec["o"], "tr": ev, "code": ob["code"], "exp": spec["exp"]}], "replay")[0]
    print("events:", json.dumps(ev))
    print("YCli verdict:", json.dumps(v))
    bad = (bool(P) and not spec["info"]) or not v["ok"] or (spec["exp"]["k"] and ob["code"] not in v["want"]
                                                          and not (spec["tool"] == "merge" and ob["code"] in (14, 32, 42)))
    print("VIOLATION property=C16 replay=%s" % path if bad else "no violation")
    return 1 if bad else 0
