"""C17 - a failing or interrupted tool run never loses the user's file.

Specification: spec/YSave.tla (file-system state + the save protocols of yaml-set, yaml-merge
--output/--overwrite and eyaml-rotate-keys as one pure step function SStep, one action per I/O
call in program order, at most one injected fault, every pre-write failure cause).
  * MC_YSave: TLC explores the model completely, checks every invariant, shows with -coverage
    that every action fires, and emits every finished behaviour; three deliberately defective
    designs (backup after truncation, no --output check, validation after the write) must each
    violate their invariant.
  * Binding: the real main() functions run in-process in a scratch directory with recording
    wrappers in the command modules' namespaces (harness/saveobs.py).  For every scenario
    (tool x option set x document) the fault-free run is recorded, then the k-th intercepted
    call is made to fail for every k (and every effect a failing write can leave), plus every
    pre-write failure cause.  Trace_YSave (TLC) folds the same SStep over every recorded trace
    (C->S); the set of behaviours observed per option set is compared with the set of
    behaviours TLC emitted (S->C: every model behaviour must be realised by the code).
  * Verdict: only byte-level facts - target unchanged / .bak byte-identical to the pre-image /
    nothing new in the directory / at least one of target and backup intact after every
    intercepted call and at exit / an existing --output untouched.  Disagreement with the model
    alone is model drift (reported, never an alarm).
  * Thorough tier adds a code-shape-independent layer: the tool as a real subprocess under
    strace with syscall fault injection (ENOSPC at the k-th write/openat/unlink/rename... on the
    three paths), judged by the same byte-level facts.
"""
import copy
import json
import multiprocessing as mp
import os
import random
import re
import shutil
import subprocess
import sys

from harness import core
from harness import saveobs

LEVEL = "model_checking"

# ---------------------------------------------------------------------------------------------
# scenario catalogue


def _opts(tool, bak=False, stale=False, outx=False, js=False, changed=True, link=False):
    return {"tool": tool, "bak": bak, "stale": stale, "outx": outx, "json": js, "changed": changed, "link": link}


LARGE = "".join("key%04d: value number %d with some padding text\n" % (i, i) for i in range(1500))

SET_DOCS = [
    # label, file name, text, change arguments, saved as JSON?
    ("map", "t.yaml", "a: 1\nb:\n  - x\n  - y\nc:\n  d: e\n", ["-g", "a", "-a", "2"], False),
    ("anchors", "t.yaml", "# head\na: &A hello # trailing\nb: *A\nlist:\n  - *A\n  - other\n", ["-g", "a", "-a", "bye"], False),
    ("seqroot", "t.yaml", "- one\n- two\n- {k: v}\n", ["-g", "[0]", "-a", "uno"], False),
    ("unicode", "t.yaml", "name: \"caf\u00e9 \u4e2d\u6587\"\nk: v\n", ["-g", "k", "-a", "\u00fcber"], False),
    ("folded", "t.yaml", "txt: >\n  folded text\n  more\nlit: |\n  line1\n  line2\n", ["-g", "txt", "-a", "new text"], False),
    ("flowroot", "t.yaml", '{"a": 1, "b": [1, 2], "c": {"d": null}}\n', ["-g", "a", "-a", "5"], True),
    ("dotjson", "t.json", "a: 1\nb: 2\n", ["-g", "a", "-a", "5", "-J", "2"], True),
    ("large", "t.yaml", LARGE, ["-g", "key0001", "-a", "changed"], False),
    ("quoted", "t.yaml", "a: !!str 123\nb: 'single'\nc: \"double\"\n", ["-g", "b", "-a", "x"], False),
    ("deep", "t.yaml", "l1:\n  l2:\n    l3:\n      l4: v\n      m4: [1, 2]\n", ["-g", "l1.l2.l3.l4", "-a", "z"], False),
    # other kinds of change (the work phase differs, the save protocol must not)
    ("delete", "t.yaml", "a: 1\nb:\n  - x\n  - y\n", ["-g", "b[0]", "-D"], False),
    ("null", "t.yaml", "a: 1\nb: 2\n", ["-g", "a", "-N"], False),
    ("saveto", "t.yaml", "a: 1\nb: 2\n", ["-g", "a", "-s", "old_a", "-a", "9"], False),
    ("aliasof", "t.yaml", "a: &A 1\nb: 2\n", ["-g", "b", "-A", "a"], False),
    ("create", "t.yaml", "a: 1\n", ["-g", "x.y[1].z", "-a", "made"], False),
    ("tag", "t.yaml", "a: x\nb: 2\n", ["-g", "a", "-a", "y", "--tag=!mine"], False),
    # a genuine (not injected) failure inside the dump call: ruamel raises TypeError for a tagged integer after the
    # target was truncated.  Recorded and validated as the run's single fault; judged like any other run.
    ("natural:tagged-int", "t.yaml", "a: 1\nb: 2\n", ["-g", "a", "-a", "1", "--tag=!mine"], False),
    # yaml-set's JSON save path has a different shape from yaml-merge: jsonify_yaml_data and json.dump run inside the
    # with open(..., 'w') block (yaml_set.py:315-322), so an unrepresentable result is detected while writing
    ("natural:json-datekey", "t.json", "2020-01-01: x\na: 1\n", ["-g", "a", "-a", "2"], True),
    ("natural:json-seqkey-flow", "t.yaml", "{? [a, b] : v, a: 1}\n", ["-g", "a", "-a", "2"], True),
]
SET_CAUSES = [
    # cause, label, text (None = scenario document), arguments, stderr pattern
    ("unmatched", "unmatched", None, ["-g", "zz.q", "-m", "-a", "2"], r"does not match any nodes"),
    ("check", "check", None, ["-g", "a", "-c", "WRONG", "-a", "2"], r"does not match the check value"),
    ("impossible", "saveto-many", None, ["-g", "b.*", "-s", "old", "-a", "2"], r"impossible to meaningly save"),
    ("impossible", "delete-root", None, ["-g", "/", "-D"], r"Refusing to delete the entire document"),
    ("impossible", "key-under-list", None, ["-g", "b.x.y", "-a", "2"], r"Cannot add non-integer"),
    ("impossible", "alias-of-nothing", None, ["-g", "a", "-A", "nope"], r"."),
    ("unreadable", "parse-error", "a: [1\nb: }\n", ["-g", "a", "-a", "2"], r"YAML (parsing|syntax) error"),
    ("unreadable", "duplicate-key", "a: 1\na: 2\n", ["-g", "a", "-a", "2"], r"Duplicate Hash key"),
    ("unreadable", "undefined-alias", "a: *nope\n", ["-g", "a", "-a", "2"], r"YAML composition error"),
    ("unreadable", "tab-indent", "a:\n\tb: 1\n", ["-g", "a", "-a", "2"], r"YAML syntax error"),
]
CAUSE_DOC = "a: 1\nb:\n  - x\n  - y\n# keep me\nc: &A hello\nd: *A\n"

MERGE_DOCS = [
    # label, lhs name, lhs text, rhs text (None = single input), extra arguments
    ("maps", "l.yaml", "a: 1\nl: [1]\nh: &X {k: 1}\nr: *X\n", "a: 2\nz: 3\n", []),
    ("comments", "l.yaml", "# c\nk: v # t\nlist:\n  - 1\n", "list:\n  - 2\nn: m\n", []),
    ("multidoc", "l.yaml", "---\na: 1\n---\nb: 2\n", "c: 3\n", ["-M", "matrix_merge"]),
    ("json", "l.json", '{"a": 1, "k": [1]}\n', '{"b": 2}\n', []),
    ("single", "l.yaml", "---\na: 1\n---\nb: 2\n", None, []),
    ("aoh", "l.yaml", "hosts:\n  - name: a\n    v: 1\n", "hosts:\n  - name: b\n    v: 2\n", ["-O", "deep"]),
    ("large", "l.yaml", LARGE, "extra: 1\n", []),
    ("mergeat", "l.yaml", "top:\n  sub: {}\n", "x: 1\n", ["-m", "top.sub"]),
]
MERGE_LHS = "a: 1\nl: [1]\nh: &X {k: 1}\nr: *X\n"
MERGE_CAUSES = [
    # cause, label, lhs text, rhs files {name: text}, rhs arguments, extra, stderr pattern
    ("merge_conflict", "hash-into-list", MERGE_LHS, {"r.yaml": "l: {q: 1}\n"}, ["{d}/r.yaml"], [], r"Impossible to add Hash data"),
    ("merge_conflict", "list-into-hash", MERGE_LHS, {"r.yaml": "- 1\n- 2\n"}, ["{d}/r.yaml"], [], r"Impossible to merge an Array into a Hash"),
    ("anchor_conflict", "anchor-stop", MERGE_LHS, {"r.yaml": "h2: &X {k: 2}\n"}, ["{d}/r.yaml"], ["-a", "stop"], r"anchor conflict"),
    ("unreadable", "bad-rhs", MERGE_LHS, {"r.yaml": "a: [1\nb: }\n"}, ["{d}/r.yaml"], [], r"YAML (parsing|syntax) error"),
    ("unreadable", "missing-rhs", MERGE_LHS, {}, ["{d}/nofile.yaml"], [], r"Not a file"),
    ("unreadable", "bad-lhs", "a: [1\nb: }\n", {}, [], [], r"YAML (parsing|syntax) error"),
]


DATEKEY = "2020-01-01: x\na: 1\nl: [1]\n"
SEQKEY = "? [a, b]\n: v\nk: 1\n"
PLAIN_LHS = "a: 1\nl: [1]\n"
UNREP = [
    # label, lhs name, lhs text, rhs text (None = single input), extra arguments, --output name
    # JSON output (forced with -D json / implied by a .json name / implied by a flow-style first input) of a result
    # holding a Hash key that JSON cannot express: Merger.prepare_for_dump fails before the output file is opened
    ("unrep-datekey-Djson", "l.yaml", DATEKEY, "z: 1\n", ["-D", "json"], "out.yaml"),
    ("unrep-seqkey-Djson", "l.yaml", SEQKEY, "z: 1\n", ["-D", "json"], "out.yaml"),
    ("unrep-datekey-dotjson", "l.json", DATEKEY, "z: 1\n", [], "out.json"),
    ("unrep-seqkey-flowinput", "l.conf", "{? [a, b] : v, k: 1}\n", "{z: 1}\n", [], "out.conf"),
    ("unrep-from-rhs", "l.yaml", PLAIN_LHS, "2021-02-03: from the right\n", ["-D", "json"], "out.yaml"),
    ("unrep-single-input", "l.yaml", DATEKEY, None, ["-D", "json"], "out.yaml"),
]
UNREP_PATTERN = r"keys must be str|TypeError|not JSON serializable"


def _enc(plain, block=False):
    fk = saveobs.fake_eyaml()
    tok = fk.cipher_encrypt(saveobs.key_id("old"), plain.encode("ascii"))
    if not block:
        return tok
    return ">\n" + "\n".join("  " + tok[i:i + 40] for i in range(0, len(tok), 40)) + "\n"


def rotate_docs():
    return [
        ("string", "secret: %s\nplain: text\n" % _enc("s3cr3t"), True),
        ("folded", "secret: %sother: 1\n" % _enc("a much longer secret value 0123456789", True), True),
        ("anchored", "s: &S %s\nalias: *S\nlist:\n  - %s\n  - plain\n" % (_enc("one"), _enc("two")), True),
        ("nosecret", "a: 1\nb: [x]\n", False),
    ]


ROT_KEYS = ["--newprivatekey", "{d}/new.private.pem", "--newpublickey", "{d}/new.public.pem",
            "--oldprivatekey", "{d}/old.private.pem", "--oldpublickey", "{d}/old.public.pem"]


def random_doc(rng, depth=0):
    words = ["alpha", "beta", "gamma", "delta", "x", "y", "1", "true", "caf\u00e9", "a b", "it's"]
    if depth > 2 or rng.random() < 0.3:
        return rng.choice(words)
    if rng.random() < 0.5:
        return {"k%d" % i: random_doc(rng, depth + 1) for i in range(rng.randint(1, 4))}
    return [random_doc(rng, depth + 1) for _ in range(rng.randint(1, 3))]


def _dump_yaml(d):
    from ruamel.yaml import YAML
    import io
    buf = io.StringIO()
    y = YAML()
    y.default_flow_style = False
    y.dump(d, buf)
    return buf.getvalue()


def random_data(rng):
    d = {"k%d" % i: random_doc(rng, 1) for i in range(rng.randint(1, 5))}
    d["zz"] = "end"
    return d


def random_yaml(rng):
    return _dump_yaml(random_data(rng))


def same_shape(rng, d):
    """A document of the same shape (so that it merges without conflict) with other leaves."""
    if isinstance(d, dict):
        return {k: same_shape(rng, v) for k, v in d.items() if rng.random() < 0.8}
    if isinstance(d, list):
        return [same_shape(rng, v) for v in d if not isinstance(v, (dict, list))] + ["rhs"]
    return d + "'" if rng.random() < 0.5 else "other"


def scenarios(ctx, rng):
    """All scenarios of the tier: dicts understood by saveobs.run_scenario."""
    out = []
    B = (False, True)
    set_docs = list(SET_DOCS)
    merge_docs = list(MERGE_DOCS)
    if not ctx.quick:
        for i in range(40):
            set_docs.append(("rand%d" % i, "t.yaml", random_yaml(rng), ["-g", "zz", "-a", "changed%d" % i], False))
        for i in range(25):
            lhs = random_data(rng)
            rhs = same_shape(rng, lhs)
            rhs["yy"] = "rhs"
            merge_docs.append(("rand%d" % i, "l.yaml", _dump_yaml(lhs), _dump_yaml(rhs), []))
    for bak in B:
        for stale in B:
            bflag = ["-b"] if bak else []
            for label, fname, text, change, js in set_docs:
                out.append({"tool": "set", "o": _opts("set", bak, stale, js=js), "doc": label, "files": {fname: text},
                            "target": fname, "argv": ["yaml-set"] + change + bflag + ["{d}/" + fname], "cause": None})
            for cause, label, text, change, pat in SET_CAUSES:
                for js in B:
                    fname = "t.json" if js else "t.yaml"
                    out.append({"tool": "set", "o": _opts("set", bak, stale, js=js), "doc": "cause:" + label,
                                "files": {fname: text if text is not None else CAUSE_DOC}, "target": fname,
                                "argv": ["yaml-set"] + change + bflag + ["{d}/" + fname], "cause": cause, "pattern": pat})
    for stale in B:
        for label, lname, ltext, rtext, extra in merge_docs:
            files = {lname: ltext}
            ins = ["{d}/" + lname]
            if rtext is not None:
                rname = "r" + os.path.splitext(lname)[1]
                files[rname] = rtext
                ins.append("{d}/" + rname)
            oname = "out" + os.path.splitext(lname)[1]
            for outx in B:
                out.append({"tool": "merge_out", "o": _opts("merge_out", False, stale, outx=outx), "doc": label,
                            "files": files, "target": lname, "output": oname,
                            "argv": ["yaml-merge", "-S"] + extra + ["-o", "{d}/" + oname] + ins,
                            "cause": "exists_output" if outx else None, "pattern": r"Output file already exists"})
            for bak in B:
                out.append({"tool": "merge_ow", "o": _opts("merge_ow", bak, stale), "doc": label, "files": files,
                            "target": lname, "argv": ["yaml-merge", "-S"] + extra + (["-b"] if bak else []) +
                            ["-w", "{d}/" + lname] + ins, "cause": None})
        for cause, label, ltext, rfiles, rargs, extra, pat in MERGE_CAUSES:
            files = dict(rfiles)
            files["l.yaml"] = ltext
            out.append({"tool": "merge_out", "o": _opts("merge_out", False, stale), "doc": "cause:" + label,
                        "files": files, "target": "l.yaml", "output": "out.yaml",
                        "argv": ["yaml-merge", "-S"] + extra + ["-o", "{d}/out.yaml", "{d}/l.yaml"] + rargs,
                        "cause": cause, "pattern": pat})
            for bak in B:
                out.append({"tool": "merge_ow", "o": _opts("merge_ow", bak, stale), "doc": "cause:" + label,
                            "files": files, "target": "l.yaml",
                            "argv": ["yaml-merge", "-S"] + extra + (["-b"] if bak else []) +
                            ["-w", "{d}/l.yaml", "{d}/l.yaml"] + rargs, "cause": cause, "pattern": pat})
        for label, lname, ltext, rtext, extra, oname in UNREP:
            files = {lname: ltext}
            ins = ["{d}/" + lname]
            if rtext is not None:
                rname = "r" + os.path.splitext(lname)[1]
                files[rname] = rtext
                ins.append("{d}/" + rname)
            out.append({"tool": "merge_out", "o": _opts("merge_out", False, stale), "doc": "cause:" + label,
                        "files": files, "target": lname, "output": oname,
                        "argv": ["yaml-merge", "-S"] + extra + ["-o", "{d}/" + oname] + ins,
                        "cause": "unrepresentable", "pattern": UNREP_PATTERN})
            for bak in B:
                out.append({"tool": "merge_ow", "o": _opts("merge_ow", bak, stale), "doc": "cause:" + label,
                            "files": files, "target": lname,
                            "argv": ["yaml-merge", "-S"] + extra + (["-b"] if bak else []) + ["-w", "{d}/" + lname] + ins,
                            "cause": "unrepresentable", "pattern": UNREP_PATTERN})
    for bak in B:
        for stale in B:
            bflag = ["-b"] if bak else []
            for label, text, changed in rotate_docs():
                out.append({"tool": "rotate", "o": _opts("rotate", bak, stale, changed=changed), "doc": label,
                            "files": {"t.yaml": text}, "target": "t.yaml",
                            "argv": ["eyaml-rotate-keys"] + bflag + ROT_KEYS + ["{d}/t.yaml"], "cause": None})
            for changed in B:
                out.append({"tool": "rotate", "o": _opts("rotate", bak, stale, changed=changed), "doc": "cause:parse-error",
                            "files": {"t.yaml": "a: [1\nb: }\n"}, "target": "t.yaml",
                            "argv": ["eyaml-rotate-keys"] + bflag + ROT_KEYS + ["{d}/t.yaml"], "cause": "unreadable",
                            "pattern": r"YAML (parsing|syntax) error"})
    # file-kind dimension: the target is a symbolic link (absolute / relative) to a regular file.  Every tool but
    # yaml-merge --output (which only reads its first input) saves through the same protocol.
    quick_docs = {"map", "anchors", "flowroot", "dotjson", "large", "maps", "single", "json", "string", "anchored", "nosecret"}
    linked = []
    for n, sc in enumerate(out):
        if sc["tool"] == "merge_out" or sc["doc"].startswith("natural:"):
            continue
        if ctx.quick and not (sc["doc"] in quick_docs or sc["doc"].startswith("cause:")):
            continue
        kinds = ("abs", "rel") if (not ctx.quick or sc["doc"] in ("map", "maps", "string")) else (("abs", "rel")[n % 2],)
        for kind in kinds:
            c = copy.deepcopy(sc)
            c["link"] = kind
            c["o"]["link"] = True
            c["doc"] = sc["doc"] + "@" + kind + "-symlink"
            linked.append(c)
    out += linked
    for i, sc in enumerate(out):
        sc["id"] = i
    return out


# ---------------------------------------------------------------------------------------------
# running one scenario with every fault

CUTS_QUICK = {"partial": ("half",), "buffered": ("one", "most")}
CUTS_ALL = {"partial": ("one", "third", "most"), "buffered": ("one", "third", "most")}


def fault_variants(ev, sc):
    """The ways the k-th call can fail, from the kind of call it is."""
    if ev["op"] == "copy2":
        return [{"kind": "fail", "eff": e} for e in ("none", "empty", "partial", "full")]
    if ev["op"] == "dump":
        # dump-partial: the dump delivers a strict prefix of the new document (a few prefix lengths), already in the
        # file ("partial") or still buffered in the handle ("buffered"), and then raises
        cuts = CUTS_QUICK if sc.get("_quick") else CUTS_ALL
        part = [{"eff": "partial", "cut": c} for c in cuts["partial"]] + [{"eff": "buffered", "cut": c} for c in cuts["buffered"]]
        v = [{"kind": "fail", "eff": e} for e in ("none", "full")] + [dict(x, kind="fail") for x in part]
        if sc["tool"] == "set" and not sc["o"]["json"]:
            v += [{"kind": "assert", "eff": "none"}] + [dict(x, kind="assert") for x in part]
        return v
    return [{"kind": "fail", "eff": "none"}]


def _work(sc):
    """Worker: fault-free reference run, recorded fault-free run, then one run per fault."""
    scratch = os.path.join(core.VERIF, "out", "C17", "w%d" % os.getpid())
    os.makedirs(scratch, exist_ok=True)
    runs = []
    ref = saveobs.run_scenario(sc, None, None, scratch)
    new = ref["written"].encode("latin-1") if (ref["code"] == "ok" and ref["written"] is not None) else None
    base = saveobs.run_scenario(sc, None, new if new is not None else b"\x00never", scratch)
    base["fault"] = None
    runs.append(base)
    if sc["doc"].startswith("natural:"):
        pass
    elif sc["cause"] is None or base["code"] == "ok":
        # every intercepted call fails in turn (also for the calls of a run that was expected to stop early)
        for k, ev in enumerate(base["events"][:-1], start=1):
            for fv in fault_variants(ev, sc):
                f = dict(fv, k=k)
                r = saveobs.run_scenario(sc, f, new if new is not None else b"\x00never", scratch)
                r["fault"] = f
                runs.append(r)
    else:
        # a pre-write failure: the calls made before the failure fail in turn, too
        for k, ev in enumerate(base["events"][:-1], start=1):
            f = {"kind": "fail", "eff": "none", "k": k}
            r = saveobs.run_scenario(sc, f, b"\x00never", scratch)
            r["fault"] = f
            runs.append(r)
    for r in runs:
        r.pop("written", None)
    return sc["id"], runs


def proj(events):
    return "|".join("%s:%s:%s:%s" % (e["op"], e["role"], e["res"], e["eff"]) for e in events)


def okey(o):
    return "%s b%d s%d x%d j%d c%d l%d" % (o["tool"], o["bak"], o["stale"], o["outx"], o["json"], o["changed"], o.get("link", False))


# ---------------------------------------------------------------------------------------------
# verdict on byte-level facts

def judge(sc, run):
    """Return a list of (signature, description) for every contradiction of the statement."""
    out = []
    o, f, tool = sc["o"], run["facts"], sc["tool"]
    where = "%s%s%s" % (tool, "+backup" if o["bak"] else "", "+stale" if o["stale"] else "")
    fault = run["fault"]
    detected = run["code"] == "fail" or re.search(r"CRITICAL|ERROR", run["stderr"] or "")
    # (1) failure detected before writing: nothing may have changed, nothing may have appeared
    if sc["cause"] and fault is None and detected:
        what = []
        if not f["target_unchanged"]:
            what.append("target-changed")
        if not f["backup_same_as_before"]:
            what.append("backup-appeared" if not o["stale"] else "backup-changed")
        if not f["output_same_as_before"]:
            what.append("output-appeared" if not o["outx"] else "output-replaced")
        if f["new_names"] or f["lost_names"]:
            what.append("directory-changed")
        if f["others_changed"]:
            what.append("input-changed")
        # order sensitivity: also after every intercepted call of the failing run
        if not what and not all(st["t"] for st in f["steps"]):
            what.append("target-touched-during-run")
        if not what and not all(st["o_kept"] for st in f["steps"]):
            what.append("output-touched-during-run")
        for w in what[:1]:
            out.append(("prewrite:%s:%s:%s" % (tool, sc["cause"], w),
                        "%s [%s] failing for '%s' (status %s): %s; new files %s" %
                        (where, sc["doc"], sc["cause"], run["status"], ", ".join(what), f["new_names"])))
    # (2) --output never replaces an existing file - in any run, at any point
    if tool == "merge_out" and o["outx"]:
        if not f["output_same_as_before"] or not all(s["o_kept"] for s in f["steps"]):
            out.append(("output-replaced:%s" % ("fault" if fault else "plain"),
                        "%s [%s]: the existing --output file was modified (status %s)" % (where, sc["doc"], run["status"])))
    # (3) --backup: the .bak is a byte-identical copy of the pre-image
    if o["bak"] and o["changed"] and sc["cause"] is None:
        restored = fault is not None and fault.get("kind") == "assert"
        if run["code"] == "ok" and not f["backup_is_preimage"]:
            out.append(("backup-not-preimage:%s:success" % tool,
                        "%s [%s]: status 0 but %s.bak %s" % (where, sc["doc"], sc["target"],
                                                            "differs from the pre-image" if f["backup_present"] else "is missing")))
        elif f["copied_at"] is not None and not restored:
            bad = [i for i, s in enumerate(f["steps"]) if i >= f["copied_at"] and not s["b"]]
            if bad or not f["backup_is_preimage"]:
                out.append(("backup-not-preimage:%s:after-copy" % tool,
                            "%s [%s]: the backup copy succeeded but .bak is not the pre-image %s" %
                            (where, sc["doc"], "after call %d" % (bad[0] + 1) if bad else "at exit")))
    # (3') the backup is a copy: it must not be another name of the file the target path reads
    if o["bak"] and f.get("backup_aliases_target"):
        out.append(("backup-aliases-target:%s" % tool,
                    "%s [%s] fault=%s: %s.bak is a link to the same file as the target, not a copy of the pre-image" %
                    (where, sc["doc"], fault, sc["target"])))
    # (5) a run that took the restore-on-assertion path (exit 3, "The original file content was restored") leaves
    #     the pre-image in the target - observed after main() has fully unwound
    if fault is not None and fault.get("kind") == "assert" and not f["target_unchanged"]:
        out.append(("restore-lost:%s:%s" % (tool, fault.get("eff")),
                    "%s [%s] fault=%s (status %s): the restore path ran but the target does not hold the original bytes "
                    "(.bak %s)" % (where, sc["doc"], fault, run["status"], "present" if f["backup_present"] else "absent")))
    # (4) --backup and at most one failed call: target or backup holds the original bytes, at every point
    if o["bak"]:
        for i, s in enumerate(f["steps"]):
            if not (s["t"] or s["b"]):
                ev = run["events"][i]
                out.append(("both-lost:%s:after-%s-%s" % (tool, ev["op"], ev["role"]),
                            "%s [%s] fault=%s: after call %d (%s %s %s) neither the target nor the .bak holds the original bytes" %
                            (where, sc["doc"], fault, i + 1, ev["op"], ev["role"], ev["res"])))
                break
        else:
            if not (f["target_unchanged"] or f["backup_is_preimage"]):
                out.append(("both-lost:%s:at-exit" % tool,
                            "%s [%s] fault=%s: at exit (status %s) neither the target nor the .bak holds the original bytes" %
                            (where, sc["doc"], fault, run["status"])))
    return out


def load_cases(path):
    return core.read_csv_json_lines(path)


def parse_action_coverage(stdout):
    cov = {}
    for m in re.finditer(r"^<(\w+) line \d+, col \d+ to line \d+, col \d+ of module MC_YSave>: (\d+):(\d+)", stdout, re.M):
        cov[m.group(1)] = int(m.group(3))
    return cov


def validate(ctx, recs, name):
    rin, rout = ctx.path(name + ".records.json"), ctx.path(name + ".verdicts.json")
    with open(rin, "w") as fh:
        json.dump(recs, fh)
    core.run_tlc(ctx, "Trace_YSave", "Trace_YSave.cfg", env={"RECORDS_IN": rin, "VERDICTS_OUT": rout}, workers=1, name=name)
    if not os.path.exists(rout):
        raise core.MachineryError("Trace_YSave wrote no verdicts (%s)" % name)
    with open(rout) as fh:
        ver = json.load(fh)
    if len(ver) != len(recs):
        raise core.MachineryError("Trace_YSave returned %d verdicts for %d records" % (len(ver), len(recs)))
    return ver


def binding_selftest(ctx, good):
    """Corrupt one recorded field at a time; Trace_YSave must reject every corrupted record."""
    muts = []
    full = next((r for r in good if r["o"]["tool"] == "set" and r["o"]["bak"] and r["o"]["stale"] and not r["o"]["json"]
                 and r["code"] == "ok" and len(r["tr"]) > 8), None)
    if full is None:
        raise core.MachineryError("no complete yaml-set --backup trace to corrupt")

    def mk(label, fn):
        r = copy.deepcopy(full)
        fn(r)
        r["id"] = len(muts)
        r["label"] = label
        muts.append(r)
    ci = next(i for i, e in enumerate(full["tr"]) if e["op"] == "copy2")
    wi = next(i for i, e in enumerate(full["tr"]) if e["op"] == "open_w")
    mk("unchanged record (control)", lambda r: None)
    mk("copy2 moved after open_w", lambda r: r["tr"].insert(wi, r["tr"].pop(ci)))
    mk("copy2 event dropped", lambda r: r["tr"].pop(ci))
    mk("dump recorded as failed", lambda r: [e.update(res="fail", eff="partial") for e in r["tr"] if e["op"] == "dump"])
    mk("exit status flipped", lambda r: (r.update(code="fail"), r["tr"][-1].update(res="fail", role="io")))
    mk("final backup classified EMPTY", lambda r: r["fs"].update(backup="EMPTY"))
    mk("fs after open_w says target still ORIG", lambda r: r["tr"][wi]["post"].update(target="ORIG"))
    mk("role of open_w changed to output", lambda r: r["tr"][wi].update(role="output"))
    mk("exists result flipped", lambda r: [e.update(res="true" if e["res"] == "false" else "false") for e in r["tr"] if e["op"] == "exists"])
    mk("run cut before exit", lambda r: r["tr"].pop())
    ver = validate(ctx, [{k: m[k] for k in ("id", "o", "tr", "fs", "code")} for m in muts], "selftest")
    res = []
    for m, v in zip(muts, ver):
        expect = m["label"].endswith("(control)")
        res.append({"corruption": m["label"], "accepted": v["ok"], "why": v["why"], "at": v["at"]})
        if v["ok"] != expect:
            raise core.MachineryError("binding self-test: %r was %s by Trace_YSave" % (m["label"], "accepted" if v["ok"] else "rejected"))
    return res


# ---------------------------------------------------------------------------------------------
# second layer (thorough): real subprocess under strace with syscall fault injection

STRACE_SYSCALLS = "openat,open,creat,unlink,unlinkat,rename,renameat,renameat2,write,pwrite64,writev,ftruncate,truncate," \
                  "copy_file_range,sendfile,close,fsync,fdatasync,link,linkat,symlink,symlinkat"
INJECT = ["openat", "write", "unlink", "unlinkat", "rename", "renameat", "renameat2", "copy_file_range", "sendfile",
          "ftruncate", "close"]
TOOL_MAIN = {"set": "yamlpath.commands.yaml_set", "merge_out": "yamlpath.commands.yaml_merge",
             "merge_ow": "yamlpath.commands.yaml_merge", "rotate": "yamlpath.commands.eyaml_rotate_keys"}


_RET = re.compile(r"\)\s+= (-?\d+|\?)(?: (E[A-Z0-9]+) \([^)]*\))?( \(INJECTED\))?\s*$")
_STR = re.compile(r'"((?:[^"\\\\]|\\\\.)*)"')


def parse_strace(text):
    """strace -f -o log lines -> [{name, fd, path, flags, ok, injected}] (unfinished/resumed pairs joined)."""
    calls = []
    pending = {}
    status = None
    for line in text.splitlines():
        m = re.match(r"^(\d+)\s+(.*)$", line)
        if not m:
            continue
        pid, rest = m.group(1), m.group(2)
        if rest.startswith("+++ exited with"):
            status = status if status is not None else int(rest.split()[3])
            continue
        if rest.endswith("<unfinished ...>"):
            pending[pid] = rest[:-len("<unfinished ...>")]
            continue
        r = re.match(r"^<\.\.\. (\w+) resumed>(.*)$", rest)
        if r:
            rest = pending.pop(pid, r.group(1) + "(") + r.group(2)
        c = re.match(r"^(\w+)\((.*)$", rest)
        if not c:
            continue
        ret = _RET.search(rest)
        if not ret:
            continue
        name, args = c.group(1), c.group(2)
        fdm = re.match(r"^(\d+)[,)]", args)
        pm = _STR.search(args)
        value = ret.group(1)
        calls.append({"name": name, "fd": int(fdm.group(1)) if fdm else None, "path": pm.group(1) if pm else None,
                      "flags": args, "ok": value not in ("-1", "?"), "ret": int(value) if value.lstrip("-").isdigit() else -1,
                      "injected": bool(ret.group(3))})
    return calls


def visible_events(calls, paths, final):
    """Abstract the system calls on the three paths into the visible events of Trace_YSaveSys."""
    role_of = {os.path.abspath(p): r for r, p in paths.items()}
    fds = {}
    ev = []

    def end_group(g, close_ok):
        if g["role"] == "backup":
            ev.append({"op": "copy2", "role": "backup", "group": g, "close_ok": close_ok, "at": idx})
        else:
            if g["failed"]:
                ev.append({"op": "dump", "role": g["role"], "res": "fail",
                           "eff": {"EMPTY": "none", "NEW": "full"}.get(final[g["role"]], "partial")})
            elif g["bytes"] > 0:
                ev.append({"op": "dump", "role": g["role"], "res": "ok", "eff": "-"})
            ev.append({"op": "close", "role": g["role"], "res": "ok" if close_ok else "fail", "eff": "-" if close_ok else "none"})

    for idx, c in enumerate(calls):
        n = c["name"]
        if n in ("openat", "open", "creat") and c["path"] is not None:
            role = role_of.get(os.path.abspath(c["path"]))
            if role is None:
                continue
            writable = n == "creat" or "O_WRONLY" in c["flags"] or "O_RDWR" in c["flags"]
            if not writable:
                if c["ok"]:
                    fds[c["ret"]] = None          # read-only descriptor: invisible
                continue
            if not c["ok"]:
                ev.append({"op": "copy2" if role == "backup" else "open_w", "role": role, "res": "fail", "eff": "none"})
                continue
            fds[c["ret"]] = {"role": role, "bytes": 0, "failed": False}
            if role != "backup":
                ev.append({"op": "open_w", "role": role, "res": "ok", "eff": "-"})
        elif n in ("write", "pwrite64", "writev", "sendfile", "copy_file_range", "ftruncate"):
            g = fds.get(c["fd"])
            if n == "copy_file_range":
                m = re.match(r"^\d+, [^,]+, (\d+)", c["flags"])
                g = fds.get(int(m.group(1))) if m else None
            if g:
                if c["ok"]:
                    g["bytes"] += max(c["ret"], 0)
                else:
                    g["failed"] = True
        elif n == "close":
            g = fds.pop(c["fd"], None) if c["ok"] else fds.get(c["fd"])
            if g:
                if not c["ok"]:
                    fds.pop(c["fd"], None)
                end_group(g, c["ok"])
        elif n in ("unlink", "unlinkat") and c["path"] is not None:
            role = role_of.get(os.path.abspath(c["path"]))
            if role:
                ev.append({"op": "remove", "role": role, "res": "ok" if c["ok"] else "fail", "eff": "-" if c["ok"] else "none"})
        elif n in ("rename", "renameat", "renameat2", "link", "linkat", "symlink", "symlinkat", "truncate"):
            ev.append({"op": n, "role": "other", "res": "ok", "eff": "-"})      # not part of any modelled protocol
    for g in fds.values():                  # descriptors never closed by the program
        if g:
            if g["role"] == "backup":
                ev.append({"op": "copy2", "role": "backup", "group": g, "close_ok": False, "at": len(calls)})
            elif g["failed"] or g["bytes"]:
                ev.append({"op": "dump", "role": g["role"], "res": "fail" if g["failed"] else "ok",
                           "eff": {"EMPTY": "none", "NEW": "full"}.get(final[g["role"]], "partial") if g["failed"] else "-"})
    # the outcome of the copy as a whole (the Python call is not visible): it failed iff one of its system calls
    # failed and the program did nothing afterwards
    for i, e in enumerate(ev):
        if "group" in e:
            g = e.pop("group")
            close_ok = e.pop("close_ok")
            at = e.pop("at")
            went_on = i + 1 < len(ev)
            # the source descriptor of the copy is closed after the .bak: a failure there fails the (complete) copy
            src_close_failed = any(c["name"] == "close" and not c["ok"] for c in calls[at + 1:at + 2])
            if ((not g["failed"] and close_ok) or went_on) and not (src_close_failed and not went_on):
                e.update(res="ok", eff="-")
            else:
                e.update(res="fail", eff={"absent": "none", "EMPTY": "empty", "ORIG": "full"}.get(final["backup"], "partial"))
    return ev


def _strace_run(job):
    sc, inject, scratch, new = job
    d = os.path.join(scratch, "s%d" % os.getpid(), "run")
    shutil.rmtree(os.path.dirname(d), ignore_errors=True)
    os.makedirs(os.path.dirname(d))
    paths, pre, argv = saveobs.setup_dir(d, sc)
    before = saveobs.snapshot(d)
    log = os.path.join(os.path.dirname(d), "strace.log")
    cmd = ["strace", "-f", "-s", "16", "-o", log, "-e", "trace=" + STRACE_SYSCALLS, "-P", paths["target"], "-P", paths["backup"],
           "-P", paths["output"]]
    if inject:
        cmd += ["-e", "inject=%s:error=%s:when=%d" % (inject["syscall"], inject["errno"], inject["when"])]
    code = "import sys; sys.argv = %r; sys.path.insert(0, %r); from %s import main; main()" % (
        argv, core.REPO, TOOL_MAIN[sc["tool"]])
    env = dict(os.environ)
    env["PATH"] = saveobs.FAKE_DIR + os.pathsep + env.get("PATH", "")
    p = subprocess.run(cmd + [sys.executable, "-c", code], stdin=subprocess.DEVNULL, stdout=subprocess.PIPE,
                       stderr=subprocess.PIPE, env=env, text=True, timeout=120)
    after = saveobs.snapshot(d)
    text = ""
    if os.path.exists(log):
        with open(log, errors="replace") as fh:
            text = fh.read()
    calls = parse_strace(text)
    tname, oname = sc["target"], sc.get("output") or "out.yaml"
    bname = tname + ".bak"
    written = after.get(oname if sc["tool"] == "merge_out" else tname)
    newb = new.encode("latin-1") if new is not None else (written if p.returncode == 0 else None)
    rec = saveobs.Recorder(paths, pre, newb if newb is not None else b"\x00never", None)
    fs = rec.classify()
    vis = visible_events(calls, paths, fs)
    vis.append({"op": "exit", "role": "?", "res": "ok" if p.returncode == 0 else "fail", "eff": "-"})
    facts = {"target_unchanged": after.get(tname) == pre, "backup_present": bname in after,
             "backup_is_preimage": after.get(bname) == pre,
             "backup_same_as_before": after.get(bname) == before.get(bname) and (bname in after) == (bname in before),
             "output_same_as_before": after.get(oname) == before.get(oname) and (oname in after) == (oname in before),
             "new_names": sorted(set(after) - set(before)), "lost_names": sorted(set(before) - set(after)),
             "others_changed": sorted(n for n in before if n not in (tname, bname, oname) and after.get(n) != before[n]),
             "steps": [], "copied_at": None}
    shutil.rmtree(os.path.dirname(d), ignore_errors=True)
    return {"sid": sc["id"], "inject": inject, "status": p.returncode, "code": "ok" if p.returncode == 0 else "fail",
            "stderr": p.stderr[-600:], "facts": facts, "calls": [c["name"] for c in calls],
            "injected": any(c["injected"] for c in calls), "vis": vis, "fs": fs,
            "written": written.decode("latin-1") if (p.returncode == 0 and written is not None and new is None) else None}


def judge_strace(sc, r):
    """Byte-level verdict for a syscall-level run (no per-call snapshots: final state only)."""
    o, f, tool = sc["o"], r["facts"], sc["tool"]
    out = []
    if tool == "merge_out" and o["outx"] and not f["output_same_as_before"]:
        out.append(("output-replaced:syscall", "%s [%s] inject=%s: existing --output modified" % (tool, sc["doc"], r["inject"])))
    if o["bak"] and not (f["target_unchanged"] or f["backup_is_preimage"]):
        out.append(("both-lost:%s:syscall-%s" % (tool, r["inject"]["syscall"] if r["inject"] else "none"),
                    "%s [%s] inject=%s status=%s: neither the target nor the .bak holds the original bytes" %
                    (tool, sc["doc"], r["inject"], r["status"])))
    if o["bak"] and o["changed"] and sc["cause"] is None and r["code"] == "ok" and not r["injected"] and not f["backup_is_preimage"]:
        out.append(("backup-not-preimage:%s:syscall-success" % tool, "%s [%s]: status 0 but .bak is not the pre-image" % (tool, sc["doc"])))
    if sc["cause"] and r["inject"] is None and r["code"] == "fail":
        if not (f["target_unchanged"] and f["backup_same_as_before"] and f["output_same_as_before"]
                and not f["new_names"] and not f["lost_names"] and not f["others_changed"]):
            out.append(("prewrite:%s:%s:syscall" % (tool, sc["cause"]),
                        "%s [%s]: failing for '%s' but the directory changed (new %s)" % (tool, sc["doc"], sc["cause"], f["new_names"])))
    return out


def strace_layer(ctx, scs, pool):
    """Every syscall of the save sequence on the three paths fails in turn (ENOSPC / EIO)."""
    pick = [sc for sc in scs if sc["doc"] in ("map", "anchors", "large", "flowroot", "dotjson", "maps", "json", "multidoc", "single",
                                              "string", "anchored", "nosecret", "cause:check", "cause:unmatched",
                                              "cause:hash-into-list", "cause:anchor-stop", "cause:parse-error", "cause:bad-rhs",
                                              "cause:unrep-datekey-Djson", "cause:unrep-seqkey-flowinput", "cause:unrep-from-rhs")]
    scratch = ctx.path("strace")
    base = list(pool.imap_unordered(_strace_run, [(sc, None, scratch, None) for sc in pick], chunksize=1))
    byid = {sc["id"]: sc for sc in pick}
    jobs = []
    for b in base:
        sc = byid[b["sid"]]
        if sc["cause"] or b["code"] != "ok":
            continue
        for sysc in INJECT:
            n = b["calls"].count(sysc)
            for when in range(1, n + 1):
                jobs.append((sc, {"syscall": sysc, "errno": "ENOSPC" if when % 2 else "EIO", "when": when}, scratch, b["written"]))
    res = base + list(pool.imap_unordered(_strace_run, jobs, chunksize=2))
    nviol = 0
    kinds = {}
    recs = []
    for r in res:
        sc = byid[r["sid"]]
        if r["inject"]:
            k = r["inject"]["syscall"]
            kinds[k] = kinds.get(k, 0) + (1 if r["injected"] else 0)
        for sig, desc in judge_strace(sc, r):
            nviol += 1
            ctx.violation(sig, desc, {"layer": "strace", "scenario": sc, "inject": r["inject"]})
        recs.append({"id": len(recs), "o": sc["o"], "tr": r["vis"], "fs": r["fs"], "code": r["code"]})
    # a corrupted record (backup copied after the target was opened for writing) must be rejected
    full = next(x for x in recs if x["o"]["bak"] and x["code"] == "ok" and any(e["op"] == "copy2" for e in x["tr"]))
    bad = copy.deepcopy(full)
    ci = next(i for i, e in enumerate(bad["tr"]) if e["op"] == "copy2")
    wi = next(i for i, e in enumerate(bad["tr"]) if e["op"] == "open_w")
    bad["tr"].insert(wi, bad["tr"].pop(ci))
    bad["id"] = len(recs)
    rin, rout = ctx.path("syscall.records.json"), ctx.path("syscall.verdicts.json")
    with open(rin, "w") as fh:
        json.dump(recs + [bad], fh)
    core.run_tlc(ctx, "Trace_YSaveSys", "Trace_YSaveSys.cfg", env={"RECORDS_IN": rin, "VERDICTS_OUT": rout}, workers=1,
                 name="trace_syscall")
    with open(rout) as fh:
        ver = json.load(fh)
    if len(ver) != len(recs) + 1:
        raise core.MachineryError("Trace_YSaveSys returned %d verdicts for %d records" % (len(ver), len(recs) + 1))
    if ver[-1]["ok"]:
        raise core.MachineryError("syscall binding self-test: a trace with the backup copied after open_w was accepted")
    drift = []
    for r, x, v in zip(res, recs, ver):
        if not v["ok"]:
            sc = byid[r["sid"]]
            drift.append({"scenario": "%s/%s %s" % (sc["tool"], sc["doc"], okey(sc["o"])), "inject": r["inject"], "why": v["why"],
                          "far": v["far"], "trace": [proj([e]) for e in x["tr"]], "fs": x["fs"], "status": r["status"],
                          "syscalls": r["calls"], "stderr": r["stderr"][-200:]})
    if drift:
        with open(ctx.path("syscall_drift.json"), "w") as fh:
            json.dump(drift, fh, indent=1)
        print("note: %d syscall-level traces are not behaviours of YSave (model drift, not a verdict): %s" % (
            len(drift), ctx.path("syscall_drift.json")))
    sample = next((x for r, x in zip(res, recs) if r["inject"] and r["inject"]["syscall"] == "write" and x["o"]["bak"]), None)
    return {"runs": len(res), "baseline_runs": len(base), "injected_runs": sum(1 for r in res if r["injected"]),
            "injected_by_syscall": kinds, "violations": nviol, "traces_validated": len(recs), "model_drift": len(drift),
            "selftest_corrupted_trace_rejected": not ver[-1]["ok"],
            "sample": {"o": sample["o"], "trace": [proj([e]) for e in sample["tr"]], "fs": sample["fs"]} if sample else None}


# ---------------------------------------------------------------------------------------------

def run(ctx):
    rng = random.Random(ctx.seed)
    saveobs.fake_eyaml()
    # ---- design level: complete exploration of the model, per-action coverage, emitted behaviours
    cases_f = ctx.path("behaviours.ndjson")
    mc = core.run_tlc(ctx, "MC_YSave", "MC_YSave.cfg", env={"CASES_OUT": cases_f}, extra=("-coverage", "1"), workers=1)
    if mc["violated"]:
        raise core.MachineryError("MC_YSave: %s violated on the design as read from the code (log %s)" % (mc["violated"], mc["log"]))
    actions = parse_action_coverage(mc["stdout"])
    actions.pop("Init", None)
    expected_idle = {"FailAfterWrite"}            # enabled only in the defective design ValidateFirst = FALSE
    idle = sorted(a for a, n in actions.items() if n == 0 and a not in expected_idle)
    if idle or len(actions) < 40:
        raise core.MachineryError("MC_YSave: actions never fired: %s (%d actions parsed)" % (idle, len(actions)))
    defects = {}
    for cfg, inv in (("MC_YSave_late.cfg", "InvSingleFaultSafety"), ("MC_YSave_nocheck.cfg", "InvOutputNeverReplaces"),
                     ("MC_YSave_valafter.cfg", "InvPreWriteFailureLeavesNoTrace"),
                     # the order of yaml_merge.py:291-307 as pinned (backup, then prepare_for_dump): a design-level
                     # prediction; it becomes a verdict only through the byte-level facts of the real runs below
                     ("MC_YSave_pinned.cfg", "InvPreWriteFailureLeavesNoTrace"),
                     # the restore handler without its leading close (buffered dump-partial + flush on unwinding)
                     ("MC_YSave_noclose.cfg", "InvNoBackupWhenUnchanged"),
                     # the backup of a symlinked target copied as a link
                     ("MC_YSave_linkbak.cfg", "InvBackupIsPreimage")):
        r = core.run_tlc(ctx, "MC_YSave", cfg, env={"CASES_OUT": os.devnull}, workers=1)
        defects[cfg] = r["violated"]
        if r["violated"] != inv:
            raise core.MachineryError("%s: expected %s to be violated by the defective design, got %s" % (cfg, inv, r["violated"]))
    model = load_cases(cases_f)
    model_by_o = {}
    for c in model:
        model_by_o.setdefault(okey(c["o"]), set()).add(proj(c["tr"]))

    # ---- the real code: every scenario, every fault
    scs = scenarios(ctx, rng)
    for sc in scs:
        sc["_quick"] = ctx.quick
    byid = {sc["id"]: sc for sc in scs}
    results = {}
    with mp.Pool(core.NCPU) as pool:
        for sid, runs in pool.imap_unordered(_work, scs, chunksize=2):
            results[sid] = runs
        strace_ev = None
        if not ctx.quick:
            strace_ev = strace_layer(ctx, scs, pool)
    shutil.rmtree(ctx.path("strace"), ignore_errors=True)
    for n in os.listdir(ctx.out):
        if re.fullmatch(r"w\d+", n):
            shutil.rmtree(ctx.path(n), ignore_errors=True)

    recs = []
    nruns = 0
    not_triggered = []
    observed_by_o = {}
    unchanged_touched = 0
    natural_loss = []
    link_replaced = 0
    for sid in sorted(results):
        sc = byid[sid]
        for j, run in enumerate(results[sid]):
            nruns += 1
            if sc["cause"] and run["fault"] is None:
                if run["code"] == "ok" and not re.search(r"CRITICAL|ERROR", run["stderr"]):
                    not_triggered.append("%s/%s" % (sc["tool"], sc["doc"]))
                elif sc.get("pattern") and not re.search(sc["pattern"], run["stderr"]):
                    not_triggered.append("%s/%s (other message: %s)" % (sc["tool"], sc["doc"], run["stderr"][-120:]))
            if sc["doc"].startswith("natural:") and not sc["o"]["bak"] and run["code"] == "fail" and not run["facts"]["target_unchanged"]:
                natural_loss.append("%s %s: status %s, target left %s (no --backup: outside the statement)" % (
                    " ".join(sc["argv"][1:-1]), sc["doc"], run["status"], run["fs"]["target"]))
            if sc.get("link") and not run["facts"].get("target_kind_kept", True):
                link_replaced += 1       # the documentation is silent about symlinked targets: informational
            if not sc["o"]["changed"] and (run["facts"]["new_names"] or not run["facts"]["target_unchanged"]
                                           or not run["facts"]["backup_same_as_before"]):
                unchanged_touched += 1
            for sig, desc in judge(sc, run):
                ctx.violation(sig, desc, {"scenario": sc, "fault": run["fault"], "status": run["status"],
                                          "trace": [proj([e]) for e in run["events"]], "facts": run["facts"]})
            recs.append({"id": len(recs), "sid": sid, "run": j, "o": sc["o"], "tr": run["events"], "fs": run["fs"],
                         "code": run["code"]})
            observed_by_o.setdefault(okey(sc["o"]), set()).add(proj(run["events"]))

    # ---- C->S: every recorded trace is folded through SStep by TLC
    drift = []
    inv_on_traces = {}
    rejected_inv = set()
    for a in range(0, len(recs), 3000):
        part = recs[a:a + 3000]
        ver = validate(ctx, [{k: r[k] for k in ("id", "o", "tr", "fs", "code")} for r in part], "trace_%d" % a)
        for r, v in zip(part, ver):
            if not v["ok"] and v["why"].startswith("inv:"):
                # a behaviour of the (mirrored) model that breaks a YSave predicate: the model's prediction confirmed
                # on the code; the alarm itself comes from judge() on the bytes
                sc = byid[r["sid"]]
                rejected_inv.add(r["id"])
                key = "%s %s: %s" % (sc["tool"], sc["cause"] or "fault", v["why"][4:])
                inv_on_traces[key] = inv_on_traces.get(key, 0) + 1
            elif not v["ok"]:
                sc = byid[r["sid"]]
                drift.append({"rid": r["id"], "scenario": "%s/%s %s" % (sc["tool"], sc["doc"], okey(sc["o"])), "fault": results[r["sid"]][r["run"]]["fault"],
                              "why": v["why"], "at": v["at"], "pc": v["pc"], "spec_would_accept": v["enabled"],
                              "trace": [proj([e]) + " -> " + json.dumps(e["post"], sort_keys=True) for e in r["tr"]]})
    if drift:
        with open(ctx.path("model_drift.json"), "w") as fh:
            json.dump(drift, fh, indent=1)
        print("note: %d recorded traces are not behaviours of YSave (model drift, not a verdict): %s" % (len(drift), ctx.path("model_drift.json")))
    rejected = {d["rid"] for d in drift} | rejected_inv
    good = [r for r in recs if r["id"] not in rejected]
    # corrupt a trace recorded from the code; when the code under test no longer produces an accepted complete
    # yaml-set --backup trace, fall back to the same behaviour as emitted by TLC
    if not any(r["o"]["tool"] == "set" and r["o"]["bak"] and r["o"]["stale"] and not r["o"]["json"] and r["code"] == "ok"
               for r in good):
        good = [{"id": 0, "o": c["o"], "tr": c["tr"], "fs": c["fs"], "code": c["code"]} for c in model]
    selftest = binding_selftest(ctx, good)

    # ---- S->C: every behaviour of the model is realised by the code
    unrealised = {}
    extra = {}
    for k, beh in model_by_o.items():
        obs = observed_by_o.get(k, set())
        if beh - obs:
            unrealised[k] = sorted(beh - obs)
        if obs - beh:
            extra[k] = sorted(obs - beh)
    n_model = sum(len(v) for v in model_by_o.values())
    n_unreal = sum(len(v) for v in unrealised.values())
    kinds_model = {}
    for c in model:
        for e in c["tr"]:
            kinds_model["%s:%s:%s" % (e["op"], e["role"], e["res"])] = kinds_model.get("%s:%s:%s" % (e["op"], e["role"], e["res"]), 0) + 1
    kinds_obs = {}
    for r in recs:
        for e in r["tr"]:
            kinds_obs["%s:%s:%s" % (e["op"], e["role"], e["res"])] = kinds_obs.get("%s:%s:%s" % (e["op"], e["role"], e["res"]), 0) + 1
    if unrealised:
        with open(ctx.path("unrealised_behaviours.json"), "w") as fh:
            json.dump(unrealised, fh, indent=1)
    distinct = len({(okey(byid[r["sid"]]["o"]), proj(r["tr"])) for r in recs})
    sample = next(r for r in recs if r["o"]["tool"] == "set" and r["o"]["bak"] and r["o"]["stale"] and r["code"] == "fail"
                  and any(e["op"] == "dump" and e["res"] == "fail" for e in r["tr"]))
    ctx.informational += unchanged_touched + len(natural_loss) + link_replaced
    ctx.coverage.update({
        "evaluations": nruns + (strace_ev["runs"] if strace_ev else 0),
        "scenarios": len(scs),
        "distinct_nontrivial": distinct,
        "rule": "distinct (option set, event trace) pairs observed from the real main() functions; every one is a run that "
                "performs at least one intercepted I/O call or a detected pre-write failure",
        "traces_validated_against_impl": len(recs),
        "model_drift": len(drift),
        "drift_samples": drift[:3],
        "invariants_broken_on_recorded_traces": inv_on_traces,
        "model_behaviours": n_model,
        "model_behaviours_realised_by_code": n_model - n_unreal,
        "unrealised_model_behaviours": {k: v[:3] for k, v in list(unrealised.items())[:5]},
        "observed_not_in_model": sum(len(v) for v in extra.values()),
        "option_sets": len(model_by_o),
        "actions_fired": actions,
        "action_kinds_model": len(kinds_model),
        "action_kinds_observed": len(kinds_obs),
        "action_kinds_never_observed": sorted(set(kinds_model) - set(kinds_obs)),
        "defective_designs_rejected": defects,
        "binding_selftest": selftest,
        "cause_not_triggered": not_triggered[:10],
        "cause_not_triggered_count": len(not_triggered),
        "unchanged_but_touched": unchanged_touched,
        "informational_symlink_target_replaced_by_regular_file": link_replaced,
        "symlink_target_runs": sum(len(results[sid]) for sid in results if byid[sid].get("link")),
        "informational_uninjected_dump_failure_without_backup": natural_loss[:2],
        "strace_layer": strace_ev,
        "exhaustive": True,
        "samples": [{"scenario": byid[sample["sid"]]["argv"], "o": sample["o"], "trace": [proj([e]) for e in sample["tr"]],
                     "final_fs": sample["fs"], "status": sample["code"]}],
        "trusted_base": ["TLC 1.8", "harness/saveobs.py wrappers (module-namespace patching; the flush after dump/copyfileobj is an "
                         "observation aid)", "harness/fake_eyaml/eyaml stand-in", "byte comparison of files"]
                        + (["strace syscall injection"] if strace_ev else []),
    })
    if not_triggered:
        # a scenario built to fail before writing did not fail (or failed with another message): the statement says
        # nothing about such a run; it is counted, never an alarm and never hidden behind a machinery failure
        print("note: %d pre-write failure scenarios did not fail as intended: %s" % (len(not_triggered), not_triggered[:4]))
    ctx.assumptions += [
        "one target file per run; yaml-merge writes to --output or to --overwrite = its first input; single-document JSON output",
        "an injected fault is an OSError (ENOSPC) raised by the k-th intercepted call, at most one per run; the AssertionError "
        "restore path of yaml-set is driven by making the dump call raise AssertionError",
        "without --backup the statement promises nothing about faults during the save (runs are recorded and validated, not judged)",
        "eyaml-rotate-keys talks to the stand-in eyaml on PATH",
    ]


def replay(path):
    with open(path) as fh:
        rp = json.load(fh)["replay"]
    sc = rp["scenario"]
    scratch = os.path.join(core.VERIF, "out", "C17", "replay%d" % os.getpid())
    os.makedirs(scratch, exist_ok=True)
    try:
        if rp.get("layer") == "strace":
            r = _strace_run((sc, rp["inject"], scratch, None))
            bad = judge_strace(sc, r)
            print(json.dumps({k: r[k] for k in ("status", "inject", "facts", "stderr")}, indent=1)[:3000])
        else:
            ref = saveobs.run_scenario(sc, None, None, scratch)
            new = ref["written"].encode("latin-1") if (ref["code"] == "ok" and ref["written"] is not None) else b"\x00never"
            r = saveobs.run_scenario(sc, rp.get("fault"), new, scratch)
            r["fault"] = rp.get("fault")
            bad = judge(sc, r)
            print("argv:", sc["argv"], "fault:", rp.get("fault"))
            for e in r["events"]:
                print("  %-28s -> %s" % (proj([e]), json.dumps(e["post"], sort_keys=True)))
            print("status:", r["status"], "facts:", json.dumps({k: v for k, v in r["facts"].items() if k != "steps"}))
    finally:
        shutil.rmtree(scratch, ignore_errors=True)
    for sig, desc in bad:
        print("  sig=%s :: %s" % (sig, desc))
    print("VIOLATION property=C17 replay=%s" % path if bad else "no violation")
    return 1 if bad else 0
