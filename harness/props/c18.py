"""C18 - multi-document merges combine documents as the selected mode defines.

S->C: TLC (MC_YMultiDoc) explores every (mode, policy, stream lengths, kind of every document)
within the bounds, checks the theorems of spec/YMultiDoc.tla and emits one case per finished run.
Each case is replayed into the real code - library route (get_doc_mergers + merge_docs) and
yaml-merge main() in-process (files, explicit '-' and implicit STDIN) - while harness/mdocobs.py
records one event per stream load, per Merger.merge_with call, per append to the left list, and
the final outputs.  C->S: Trace_YMultiDoc folds the same MStep along every recorded event
sequence and compares the observed output documents with the mode's definition.

Verdict (DESIGN 2.3): a VIOLATION is an in-domain run whose *outputs* (number, order, data of the
documents in Merger.data / on stdout) differ from the mode's definition, or which fails (non-zero
exit, exception).  An event sequence the specification rejects while the outputs agree is model
drift (informational).
"""
import json
import multiprocessing as mp
import os
import random
import re
import shutil
import signal
import tempfile
from concurrent.futures import ThreadPoolExecutor

from harness import core

LEVEL = "model_checking"
MODES = ("condense_all", "merge_across", "matrix_merge")

QUICK_CFGS = ["two", "kinds2", "pol2", "files2", "seq3", "seqk2", "seqf2", "set2"]
THOROUGH_CFGS = ["two", "kinds4", "pol3", "files3", "files4", "seq4", "seqk3", "seqf3", "set3"]


RUN_TIMEOUT_S = 60      # backstop only: a run takes milliseconds


class _Timeout(BaseException):
    pass


def _on_alarm(*_):
    raise _Timeout()


# ----------------------------------------------------------------------------- one run of the real code
def _concretise(case, api, rng):
    """Choose the concrete spelling of an abstract case (texts, flags, STDIN use)."""
    style = rng.choice(("block", "block", "flow", "mixed"))
    from harness import mdocobs as mo
    texts = [mo.stream_text(ids, case["kinds"], style, rng) for ids in case["files"]]
    run = {"api": api, "mode": case["mode"], "hashes": case["hashes"], "arrays": case["arrays"], "sets": case["sets"],
           "files": case["files"], "kinds": case["kinds"], "texts": texts, "stdin": 0, "implicit": False,
           "flags": [], "lib_hashes": None, "lib_arrays": None, "lib_sets": None}
    is_set = any(k in ("set", "setu") for k in case["kinds"])
    explicit_h = case["hashes"] != "deep" or rng.random() < 0.3
    explicit_a = case["arrays"] != "all" or rng.random() < 0.3
    explicit_s = case["sets"] != "unique" or rng.random() < 0.3
    if api == "lib":
        run["lib_hashes"] = case["hashes"] if explicit_h else None
        run["lib_arrays"] = case["arrays"] if explicit_a else None
        run["lib_sets"] = case["sets"] if explicit_s else None
        return run
    flags = []
    if case["mode"] != "condense_all" or rng.random() < 0.5:       # condense_all is the default mode
        flags += rng.choice((["-M", case["mode"]], ["--multi-doc-mode=" + case["mode"]], ["-M", case["mode"].upper()]))
    if explicit_h:
        flags += rng.choice((["-H", case["hashes"]], ["--hashes=" + case["hashes"]]))
    if explicit_a:
        flags += rng.choice((["-A", case["arrays"]], ["--arrays=" + case["arrays"]]))
    if explicit_s:
        flags += rng.choice((["-E", case["sets"]], ["--sets=" + case["sets"]]))
    if rng.random() < 0.25:
        # JSON has no Sets: Set documents are only forced to YAML
        flags += rng.choice((["-D", "yaml"],) if is_set else (["-D", "yaml"], ["-D", "json"], ["--document-format=json"]))
    r = rng.random()
    nf = len(texts)
    if r < 0.2 and nf >= 2:
        run["stdin"], run["implicit"] = nf, True                    # last stream arrives on STDIN, no '-' given
    elif r < 0.45:
        run["stdin"] = rng.randint(1, nf)                           # '-' pseudo-file at that position
    else:
        flags.append("-S")
    run["flags"] = flags
    return run


def _execute(run, workdir):
    """Run one concrete case; return the record (TLC fields + python-only diagnostics)."""
    from harness import mdocobs as mo
    paths = []
    for n, t in enumerate(run["texts"]):
        p = os.path.join(workdir, "s%d.yaml" % (n + 1))
        with open(p, "w") as fh:
            fh.write(t)
        paths.append(p)
    rec = {"mode": run["mode"], "hashes": run["hashes"], "arrays": run["arrays"], "sets": run.get("sets", "unique"), "files": run["files"],
           "kinds": run["kinds"], "has_stdout": False, "stdout": [], "code": 0, "err": "", "raw": ""}
    signal.signal(signal.SIGALRM, _on_alarm)
    signal.alarm(RUN_TIMEOUT_S)
    try:
        if run["api"] == "lib":
            code, r, err = mo.run_lib(run["mode"], run["lib_hashes"], run["lib_arrays"], paths, run.get("lib_sets"))
            rec["code"], rec["err"] = code, err[-300:]
        else:
            argv = list(run["flags"])
            stdin_text = None
            for n, p in enumerate(paths):
                if run["stdin"] == n + 1:
                    stdin_text = run["texts"][n]
                    if not run["implicit"]:
                        argv.append("-")
                else:
                    argv.append(p)
            code, out, err, r = mo.run_cli(argv, stdin_text)
            rec["code"], rec["err"], rec["raw"] = code, err[-300:], out[:600]
            if code == 0:
                rec["has_stdout"] = True
                try:
                    rec["stdout"] = [mo.absdoc(d) for d in mo.parse_stream(out)]
                except Exception as ex:                    # pylint: disable=broad-except
                    rec["stdout"] = [dict(mo.ODD)]
                    rec["err"] = "unparsable stdout: %r" % (ex,)
        rec["events"] = r.events
        rec["data"] = r.out_data if r.out_data is not None else []
        rec["stray"] = r.stray
    except mo.WouldHang as ex:
        rec.update({"code": -2, "err": "never returns: %s" % ex, "exc": "hang-list-appended-to-itself", "events": [], "data": []})
    except _Timeout:
        rec.update({"code": -3, "err": "no result after %d s" % RUN_TIMEOUT_S, "exc": "timeout", "events": [], "data": []})
    except Exception as ex:                                # pylint: disable=broad-except
        rec["code"] = -1
        rec["err"] = "%s: %s" % (type(ex).__name__, ex)
        rec["exc"] = "raised-" + type(ex).__name__
        rec["events"], rec["data"] = [], []
    finally:
        signal.alarm(0)
    return rec


_WORKDIR = None


def _worker(chunk):
    global _WORKDIR                                        # pylint: disable=global-statement
    out_root, seed, jobs = chunk
    if _WORKDIR is None:
        _WORKDIR = os.path.join(out_root, "w%d" % os.getpid())
        os.makedirs(_WORKDIR, exist_ok=True)
    res = []
    for idx, case, api in jobs:
        rng = random.Random("%d/%d/%s" % (seed, idx, api))
        run = _concretise(case, api, rng)
        rec = _execute(run, _WORKDIR)
        rec["id"] = "%d/%s" % (idx, api)
        rec["run"] = run
        res.append(rec)
    return res


def _chunks(seq, n):
    for i in range(0, len(seq), n):
        yield seq[i:i + n]


TLC_FIELDS = ("id", "mode", "hashes", "arrays", "sets", "files", "kinds", "events", "data", "stdout", "has_stdout")


def _validate(ctx, recs, name):
    rin = ctx.path(name + ".records.json")
    rout = ctx.path(name + ".verdicts.json")
    with open(rin, "w") as fh:
        json.dump([{k: r[k] for k in TLC_FIELDS} for r in recs], fh)
    core.run_tlc(ctx, "Trace_YMultiDoc", "Trace_YMultiDoc.cfg", env={"RECORDS_IN": rin, "VERDICTS_OUT": rout},
                 workers=1, name=name, heap="3g")
    if not os.path.exists(rout):
        raise core.MachineryError("Trace_YMultiDoc wrote no verdicts (%s)" % name)
    with open(rout) as fh:
        ver = json.load(fh)
    os.remove(rin)
    if len(ver) != len(recs) or any(v["id"] != r["id"] for v, r in zip(ver, recs)):
        raise core.MachineryError("Trace_YMultiDoc verdicts do not line up with the records (%s)" % name)
    return ver


def _signature(rec, v):
    mode = rec["mode"]
    if rec["code"] != 0:
        return "%s:%s" % (mode, rec["exc"] if rec.get("exc") else "exit-%s" % rec["code"])
    why = v["data_why"] or v["stdout_why"]
    where = "data" if v["data_why"] else "stdout"
    if v["mirror"] == "pinned":
        # every observation of the run (operands at each step, outputs) is what the by-reference object
        # graph of the pinned design predicts, and not what the value semantics of the statement gives
        return "%s:documents-shared-by-reference" % mode
    pol = "" if (rec["hashes"], rec["arrays"], rec["sets"]) == ("deep", "all", "unique") else \
        ":H=%s,A=%s,E=%s" % (rec["hashes"], rec["arrays"], rec["sets"])
    fam = next((k for k in rec["kinds"] if k != "empty"), "empty")
    fam = {"full": "", "bare": "", "empty": ""}.get(fam, ":root-" + ("array" if fam.startswith("seq") else "set"))
    return "%s:%s-%s%s%s" % (mode, where, why.split(":")[0], fam, pol)


# ----------------------------------------------------------------------------- binding self-test
def _corruptions(rec):
    """Corrupted copies of a recorded run, each with the clause that must reject it."""
    out = []
    ev = rec["events"]
    merges = [n for n, e in enumerate(ev) if e["kind"] in ("CondenseLhs", "CondenseRhs", "Across", "Matrix")]

    def clone():
        return json.loads(json.dumps({k: rec[k] for k in TLC_FIELDS}))
    if len(merges) >= 2:
        c = clone()
        a, b = merges[0], merges[1]
        c["events"][a], c["events"][b] = c["events"][b], c["events"][a]
        out.append(("swap-two-merges", "trace", c))
    if merges:
        c = clone()
        e = c["events"][merges[-1]]
        if e["kind"] == "CondenseLhs":
            e["i"] += 1
        else:
            e["j"] += 1
        out.append(("wrong-rhs-index", "trace", c))
        c = clone()
        del c["events"][merges[-1]]
        out.append(("drop-a-merge", "trace", c))
        c = clone()
        c["events"][merges[0]]["arrays"] = "unique" if c["events"][merges[0]]["arrays"] != "unique" else "all"
        out.append(("policy-changed-at-one-step", "trace", c))
        c = clone()
        c["events"].insert(merges[0], dict(c["events"][merges[0]]))
        out.append(("merge-twice", "trace", c))
    loads = [n for n, e in enumerate(ev) if e["kind"] == "Load" and len(e["ids"]) >= 2 and e["ids"][0] != e["ids"][1]]
    if loads:
        c = clone()
        ids = c["events"][loads[0]]["ids"]
        ids[0], ids[1] = ids[1], ids[0]
        out.append(("load-order", "trace", c))
    if len(rec["data"]) >= 2 and rec["data"][0] != rec["data"][1]:
        c = clone()
        c["data"][0], c["data"][1] = c["data"][1], c["data"][0]
        out.append(("outputs-swapped", "data", c))
    if rec["data"]:
        c = clone()
        c["data"] = c["data"] + [c["data"][-1]]
        out.append(("one-output-too-many", "data", c))
        c = clone()
        d = c["data"][0]
        if d["lst"]:
            d["lst"] = list(reversed(d["lst"])) if len(d["lst"]) > 1 and d["lst"] != list(reversed(d["lst"])) else d["lst"] + [d["lst"][-1]]
            out.append(("list-order-or-multiplicity", "data", c))
        if rec["has_stdout"] and not c["stdout"][0]["nul"]:
            c = clone()
            c["stdout"][0]["shared"] += 1
            out.append(("stdout-shared-value", "stdout", c))
    return out


def _selftest(ctx, good):
    cases = []
    for rec in good:
        for name, clause, c in _corruptions(rec):
            c["id"] = "%s#%s" % (rec["id"], name)
            cases.append((name, clause, c))
    if not cases:
        raise core.MachineryError("binding self-test: nothing to corrupt")
    ver = _validate(ctx, [c for _, _, c in cases], "selftest")
    per = {}
    for (name, clause, c), v in zip(cases, ver):
        rejected = (not v["trace_ok"]) if clause == "trace" else bool(v["data_why"] if clause == "data" else v["stdout_why"])
        a = per.setdefault(name, [0, 0])
        a[0] += 1
        a[1] += 1 if rejected else 0
        if not rejected:
            raise core.MachineryError("binding self-test: corrupted record %s was accepted (%s)" % (c["id"], json.dumps(v)[:400]))
    return {"corrupted": len(cases), "rejected": sum(a[1] for a in per.values()), "by_kind": {k: a[0] for k, a in per.items()}}


# ----------------------------------------------------------------------------- the check
def _model_check(ctx, cfgs):
    """Run the MC configurations concurrently; return (cases, pinned result)."""
    names = cfgs + ["pinned", "pinned_ok", "pinned_ok_root"]

    def one(c):
        f = ctx.path("cases_%s.txt" % c)
        r = core.run_tlc(ctx, "MC_YMultiDoc", "MC_YMultiDoc_%s.cfg" % c, env={"CASES_OUT": f},
                         workers=max(2, core.NCPU // 4), timeout=3000, heap="4g",
                         extra=("-continue",) if c == "pinned" else ())
        if c == "pinned":
            r["all_violated"] = sorted(set(re.findall(r"Invariant (\S+) is violated", r["stdout"])))
        return c, r, f
    with ThreadPoolExecutor(max_workers=4) as ex:
        results = list(ex.map(one, names))
    cases, seen = [], set()
    pinned = None
    for c, r, f in results:
        if c == "pinned":
            # the design as it was pinned (RHS data handed over by reference) must show the defect
            missing = {"T_RhsPristine", "T_HeapAgrees", "T_Terminates"} - set(r["all_violated"])
            if missing:
                raise core.MachineryError("MC_YMultiDoc_pinned no longer violates %s (log %s)" % (sorted(missing), r["log"]))
            pinned = r
            continue
        if r["violated"]:
            raise core.MachineryError("TLC: %s is violated in MC_YMultiDoc_%s (a theorem of the specification fails; log %s)"
                                      % (r["violated"], c, r["log"]))
        if c.startswith("pinned_ok"):
            continue
        for case in core.read_csv_json_lines(f):
            key = json.dumps([case["mode"], case["hashes"], case["arrays"], case["sets"], case["files"], case["kinds"]])
            if key not in seen:
                seen.add(key)
                case["cfg"] = c
                cases.append(case)
        os.remove(f)
    return cases, pinned


def run(ctx):
    rng = random.Random(ctx.seed)
    cases, pinned = _model_check(ctx, QUICK_CFGS if ctx.quick else THOROUGH_CFGS)
    if not cases:
        raise core.MachineryError("MC_YMultiDoc emitted no cases")
    # every case goes through the library route (>= 2 streams) and the command line; in the thorough
    # tier the two largest families go through the command line for a seeded half only
    jobs = []
    for idx, case in enumerate(cases):
        if len(case["files"]) >= 2:
            jobs.append((idx, case, "lib"))
        if ctx.quick:
            cli = case["cfg"] in ("two", "files2") or rng.random() < (0.5 if case["cfg"].startswith("se") else 0.25)
        else:
            cli = case["cfg"] in ("two", "files3", "files4") or rng.random() < 0.5
        if cli:
            jobs.append((idx, case, "cli"))
    # beyond the exhaustive bound: seeded random inputs (2..4 streams of 1..6 documents, any kind, any policy)
    n_exhaustive = len(cases)
    for _ in range(400 if ctx.quick else 12000):
        lens = [rng.randint(1, 6) for _ in range(rng.choice((2, 2, 3, 4)))]
        files, k = [], 0
        for n in lens:
            files.append(list(range(k + 1, k + n + 1)))
            k += n
        fam = rng.choice((("full", "full", "bare", "empty"), ("full", "full", "bare", "empty"),
                          ("seq", "seq", "sequ", "empty"), ("set", "set", "setu", "empty")))
        case = {"mode": rng.choice(MODES), "hashes": rng.choice(("deep", "deep", "left", "right")),
                "arrays": rng.choice(("all", "unique", "unique", "left", "right") if fam[0] == "seq" else ("all", "all", "unique", "left", "right")),
                "sets": rng.choice(("unique", "unique", "left", "right")), "files": files,
                "kinds": [rng.choice(fam) for _ in range(k)], "cfg": "random"}
        idx = len(cases)
        cases.append(case)
        jobs.append((idx, case, rng.choice(("lib", "cli"))))
    recs = []
    with mp.Pool(core.NCPU) as pool:
        for part in pool.imap_unordered(_worker, [(ctx.out, ctx.seed, ch) for ch in _chunks(jobs, 200)]):
            recs.extend(part)
    recs.sort(key=lambda r: (int(r["id"].split("/")[0]), r["id"]))
    for d in os.listdir(ctx.out):
        if d.startswith("w") and d[1:].isdigit():
            shutil.rmtree(ctx.path(d), ignore_errors=True)

    failed = [r for r in recs if r["code"] != 0]
    okrecs = [r for r in recs if r["code"] == 0]
    for r in failed:
        ctx.violation(_signature(r, None), "%s run of %s over streams %s (kinds %s) failed: code %s %s" % (
            r["run"]["api"], r["mode"], r["files"], r["kinds"], r["code"], r["err"]), {"run": r["run"], "exp": None})

    # C->S: validate every recorded run
    parts = list(_chunks(okrecs, 4000))
    with ThreadPoolExecutor(max_workers=4) as ex:
        vers = list(ex.map(lambda a: _validate(ctx, a[1], "trace_%d" % a[0]), enumerate(parts)))
    drift = 0
    mirror = {"both": 0, "pinned": 0, "copy": 0, "none": 0}
    good = []
    polluted_harmless = 0
    drift_samples = []
    for part, ver in zip(parts, vers):
        for r, v in zip(part, ver):
            mirror[v["mirror"]] += 1
            if v["data_why"] or v["stdout_why"]:
                ctx.violation(_signature(r, v),
                              "%s %s over streams %s kinds %s policy %s/%s: outputs differ from the mode's definition (%s); "
                              "observed %s, expected %s%s" % (
                                  r["run"]["api"], r["mode"], r["files"], r["kinds"], r["hashes"], "%s/%s" % (r["arrays"], r["sets"]),
                                  "Merger.data " + v["data_why"] if v["data_why"] else "stdout " + v["stdout_why"],
                                  json.dumps(r["data"] if v["data_why"] else r["stdout"]), json.dumps(v["exp"]),
                                  "; RHS document already modified at event %d" % v["polluted"] if v["polluted"] else ""),
                              {"run": r["run"], "exp": v["exp"], "events": r["events"]})
                continue
            if v["polluted"]:
                polluted_harmless += 1
            if not v["trace_ok"] or v["mirror"] == "none" or r.get("stray"):
                drift += 1
                ctx.informational += 1
                if len(drift_samples) < 5:
                    drift_samples.append({"id": r["id"], "mode": r["mode"], "files": r["files"], "at": v["at"],
                                          "want": v["want"], "mirror": v["mirror"],
                                          "events": [(e["kind"], e["i"], e["j"]) for e in r["events"]]})
            elif len(good) < 60 and len(r["events"]) >= 5 and (len(good) % 3 != 0 or r["has_stdout"]):
                good.append(r)
    selftest = _selftest(ctx, good[:60])

    def nontrivial(r):
        return any(e["kind"] in ("CondenseLhs", "CondenseRhs", "Across", "Matrix") and not e["rm"]["nul"] for e in r["events"])
    sample = [{"id": r["id"], "api": r["run"]["api"], "mode": r["mode"], "policy": [r["hashes"], r["arrays"], r["sets"]],
               "streams": r["run"]["texts"], "flags": r["run"]["flags"],
               "events": ["%s(%d,%d)" % (e["kind"], e["i"] or e["f"], e["j"]) for e in r["events"]],
               "outputs": r["data"]} for r in (okrecs[len(okrecs) // 3:len(okrecs) // 3 + 1] + okrecs[-1:])]
    ctx.coverage.update({
        "evaluations": len(recs),
        "distinct_nontrivial": len({json.dumps([r["mode"], r["hashes"], r["arrays"], r["sets"], r["files"], r["kinds"]]) for r in okrecs if nontrivial(r)}),
        "rule": "distinct (mode, policy, stream lengths, kind of every document) inputs emitted by TLC whose real run "
                "performs at least one pairwise merge with a non-empty right-hand document",
        "cases_from_tlc": n_exhaustive,
        "seeded_random_cases_beyond_bound": len(cases) - n_exhaustive,
        "runs_by_api": {a: sum(1 for r in recs if r["run"]["api"] == a) for a in ("lib", "cli")},
        "runs_with_stdin": sum(1 for r in recs if r["run"]["stdin"]),
        "traces_validated_against_impl": len(okrecs),
        "pairwise_merge_events": sum(1 for r in okrecs for e in r["events"] if e["kind"] not in ("Load", "Output", "AcrossAppend")),
        "exhaustive": True,
        "bounds": "two streams of 1..4 documents x 3 modes (complete); all 12 hash x array policies on streams of 1..%d; "
                  "1 and 3%s streams; root-level Arrays (4 array policies, streams of 1..%d, 2 and 3 streams) and "
                  "root-level Sets (3 set policies)" % ((2, "", 3) if ctx.quick else (3, " and 4", 4)),
        "model_drift": drift,
        "drift_samples": drift_samples,
        "rhs_modified_but_outputs_agree": polluted_harmless,
        "object_graph_agreement": mirror,
        "pinned_model_predicts": pinned["all_violated"] if pinned else None,
        "binding_selftest": selftest,
        "samples": sample,
        "trusted_base": ["TLC 1.8", "harness/mdocobs.py (marker abstraction of documents, wrappers)",
                         "PMerge in spec/YMultiDoc.tla as the C05 merge on the marker family",
                         "ruamel.yaml safe loader / json for re-reading stdout"],
    })
    ctx.assumptions += [
        "documents are marker documents - Hashes (disjoint d<k> keys, one shared scalar, at most one single-element list), "
        "root-level Arrays [0, k] / [k], root-level Sets {0, k} / {k} - or empty; one family per run (merging different "
        "root types is a MergeException); the pairwise merge itself is property C05",
        "the command line runs in-process (patched sys.argv / stdin / stdout); files live in a scratch directory",
    ]


# ----------------------------------------------------------------------------- replay
def replay(path):
    with open(path) as fh:
        rp = json.load(fh)["replay"]
    work = tempfile.mkdtemp(prefix="c18replay")
    try:
        rec = _execute(rp["run"], work)
    finally:
        shutil.rmtree(work, ignore_errors=True)
    exp = rp.get("exp")

    def norm(d):
        return {"nul": d["nul"], "root": d.get("root"), "keys": sorted(d["keys"]), "shared": d["shared"], "lst": list(d["lst"])}
    print(json.dumps({"run": rp["run"], "code": rec["code"], "err": rec["err"], "stdout_text": rec["raw"],
                      "events": ["%s(%d,%d) lhs=%s rhs=%s" % (e["kind"], e["i"], e["j"], e["lm"]["lst"], e["rm"]["lst"])
                                 for e in rec["events"]],
                      "data": rec["data"], "stdout": rec["stdout"], "expected": exp}, indent=1))
    bad = rec["code"] != 0
    if exp is not None and not bad:
        e = [norm(d) for d in exp]
        bad = [norm(d) for d in rec["data"]] != e or (rec["has_stdout"] and [norm(d) for d in rec["stdout"]] != e)
    print("VIOLATION property=C18 replay=%s" % path if bad else "no violation")
    return 1 if bad else 0
