"""C19 - EYAML key rotation re-keys every secret once and touches nothing else.

Design level: spec/YRotate.tla (step machine RStep over the secret cells of the files of one invocation) is
model-checked by TLC over small shape spaces (MC_YRotate): documents (q/t), marker spellings and undecryptable
tokens (marker), plaintext endings (fid), several files per invocation reusing an anchor name (files).  With the
design the property demands every clause is an invariant; three named deviations are model-checked as well and
TLC must find their counterexamples: the Store of the originally pinned code (pinned), the command output read
with .rstrip() (pinned_rstrip), seen_anchors not reset per file (noreset).  These are *predictions*; a verdict
comes only from the replay below.

S->C: the invocations TLC emitted (a seeded sample of the largest size classes) are written as YAML files whose
secrets are encrypted by the stand-in eyaml under the OLD keys, and the real
`yamlpath.commands.eyaml_rotate_keys.main()` runs on them in-process with the stand-in on PATH.
C->S: the same for seeded random invocations (1-3 files reusing anchor names, files without secrets mixed in,
nesting, flow containers, eleven scalar styles, anchored/aliased secrets and plaintext, duplicate plaintexts,
plaintexts with leading / trailing / embedded white space, third-party and corrupt tokens).  For every run the
merged log of the stand-in (Decrypt/Encrypt) and of recording wrappers in the command module's namespace
(NextFile/Find/Node/Store/Backup/Write/Exit) is validated by Trace_YRotate folding RStep.

Verdict (projection, harness/rotobs.judge, per file): after a successful run every marker-recognised value
decrypts - by the stand-in, independently of yamlpath - under the new keys to EXACTLY its old plaintext and not
under the old keys; sharing partition unchanged; each shared value decrypted and encrypted once; the non-secret
frame (keys, values, order, anchors) unchanged on reload; a file without ENC[ values is untouched (bytes, mtime,
no .bak, no stray file) and the external command never runs for it.
A trace the specification rejects while the projection holds is model drift (reported, no alarm).
"""
import copy
import json
import multiprocessing as mp
import os
import random
import shutil

from harness import core

LEVEL = "model_checking"
PLAINTEXTS = ["s3cr3t", "password with spaces", "two\nlines", "p@$$:w0rd#{}[]", "x",
              "a long plaintext that makes the token wrap over several lines of sixty characters each, twice",
              "0", "another secret value 1234567890"]
# plaintext shapes whose exact preservation is part of the verdict (leading / embedded / trailing white space) ...
FIDELITY = [" lead space", "\tlead tab", "  two lead", "in  ner   gaps", "emb\nedded line", "emb\tedded tab", "\nlead break",
            "para\n\n  indented", "trail space ", "trail tab\t", "  both  ", "mixed \t", "a\x0b"]
# ... and those the statement cannot decide or the tool refuses (counted, not judged): a plaintext ending in a line
# break (the command protocol appends one itself), white space only / empty (decryption is refused, exit 3)
FIDELITY_INFO = ["trail break\n", "crlf\r\n", "x \n", " ", "\t", ""]
PLAIN_VALUES = ["plain", "42", "-7", "1.50", "true", "null", "~", '"quoted"', "'single'", '"ENC"', '"not ENC[really]"',
                '"e n c["', '""', "2020-01-01", '"x ENC[PKCS7,abc]"', "Enc"]
BLOCK_ONLY_PLAIN = ["xENC[PKCS7,abc]", "enc[PKCS7,abc]", "ENC PKCS7,abc]"]
KEYS_OK = ["k%d", "key%d.dot", "sl%d/ash", '"sp ace %d"', "%d", '"%d"', "hash%d#", "br[ack%d]et", "'q''uote%d'"]
# keys that escape_path_section does not turn into a path addressing exactly that key (leading &, backslash, * acting
# as a wildcard): a key-escaping matter (C08 family), not this property's - such documents are run and counted only
KEYS_ODD = ['"&amp%d"', "a%d\\\\b", "a%d*b"]
ANCHORS = ["A", "B", "sec1", "x_y"]
CONT_ANCHORS = ["box", "b"]      # anchors of Hashes/Arrays: every file draws from the same pool, so files reuse the names
BLOCK_FORMS = ["plain", "dq", "sq", "spaced", "nl", "folded", "foldedstrip", "literal", "plainml", "foldedsp", "foldednl"]
FLOW_FORMS = ["dq", "sq", "spaced", "nl"]


# --------------------------------------------------------------------------- documents
def model_plaintext(pt, trail):
    if trail == "empty":
        return ""
    if trail == "allws":
        return " \t " if pt % 2 else " "
    base = ("secret %02d " % pt) + ("0123456789 abcdefghij " * 3 if pt % 2 else "s")[: 60 if pt % 2 else 1] + "end"
    return base + ((" ", "\t", "  ", " \t")[pt % 4] if trail == "ws" else "")


def case_tree(doc):
    """A document emitted by MC_YRotate -> tree.  Containers: 1 root hash, 2/3 sequences, 4 nested hash."""
    slots, objs = doc["slots"], doc["objs"]
    root = {"t": "map", "flow": False, "items": []}
    conts = {1: root}
    seen = set()
    referenced = set()
    for p, s in enumerate(slots, 1):
        c = s["cont"]
        if s.get("vis", c) != c:          # a later visit of an anchored container: one `aN: *name` entry in the root
            if s["vis"] not in referenced:
                referenced.add(s["vis"])
                root["items"].append(("a%d" % p, {"t": "alias", "anchor": s["canc"]}))
            continue
        if c not in conts:
            conts[c] = {"t": "seq" if c in (2, 3) else "map", "flow": False, "items": [], "anchor": s.get("canc", "")}
            root["items"].append(({2: "s2", 3: "s3", 4: "m4"}[c], conts[c]))
        o = objs[s["o"] - 1]
        head = o["head"]
        if s["o"] in seen:
            leaf = {"t": "alias", "anchor": o["anc"]}
        elif head.replace("\n", "").replace(" ", "").startswith("ENC["):
            base = "plain" if head.startswith("ENC[") else "spaced" if head.startswith(" ") else "nl"
            form = {"plain": "folded", "spaced": "foldedsp", "nl": "foldednl"}[base] if o["folded"] else base
            leaf = {"t": "secret", "pt": model_plaintext(o["pt"], o["trail"]), "key": o["key"], "form": form, "anchor": o["anc"]}
        else:
            leaf = {"t": "plain", "yaml": {"plain": "plain"}.get(head, head + "abc]"), "anchor": o["anc"]}
        seen.add(s["o"])
        if conts[c]["t"] == "map":
            conts[c]["items"].append(("k%d" % p, leaf))
        else:
            conts[c]["items"].append(leaf)
    return root


def gen_tree(rng, want_secrets=True, odd_keys=False, foreign=True, fidelity=0.0, boxes=0.0, box_alias=0.0):
    """Seeded random document: nesting <= 3, block and flow containers, all forms, anchors and aliases."""
    anchors = []          # names defined so far (document order)
    free = list(ANCHORS)
    counter = [0]
    odd = [False]
    cfree = list(CONT_ANCHORS)
    cclosed = []          # anchored containers that are complete (an alias of an open one would refer to itself)

    def leaf(flow, parent):
        counter[0] += 1
        r = rng.random()
        if cclosed and rng.random() < box_alias:
            # within one Array at most one element may be (a reference to) a given anchored container: the path
            # generator addresses such an element as [&name], which designates all of them at once
            name = rng.choice(cclosed)
            if parent["t"] != "seq" or name not in parent["refs"]:
                parent["refs"].add(name)
                return {"t": "alias", "anchor": name}
        if anchors and r < 0.18:
            return {"t": "alias", "anchor": rng.choice(anchors)}
        if want_secrets and r < 0.6:
            key = "old"
            if foreign and rng.random() < 0.04:
                key = rng.choice(["other", "none"])
            pool = PLAINTEXTS
            if rng.random() < fidelity:
                pool = FIDELITY_INFO if rng.random() < 0.15 else FIDELITY
            lf = {"t": "secret", "pt": rng.choice(pool), "key": key,
                  "form": rng.choice(FLOW_FORMS if flow else BLOCK_FORMS), "anchor": ""}
            if free and rng.random() < 0.45:
                lf["anchor"] = free.pop(0)
                anchors.append(lf["anchor"])
            return lf
        lf = {"t": "plain", "yaml": rng.choice(PLAIN_VALUES if flow else PLAIN_VALUES + BLOCK_ONLY_PLAIN), "anchor": ""}
        if free and rng.random() < 0.15 and lf["yaml"] not in ("null", "~"):
            lf["anchor"] = free.pop(0)
            anchors.append(lf["anchor"])
        return lf

    def cont(depth, flow):
        t = "map" if rng.random() < 0.55 else "seq"
        node = {"t": t, "flow": flow, "items": [], "refs": set()}
        if depth > 1 and cfree and rng.random() < boxes:
            node["anchor"] = cfree.pop(0)
        for i in range(rng.randint(1, 4)):
            if depth < 3 and rng.random() < 0.3:
                child = cont(depth + 1, flow or rng.random() < 0.2)
                if child.get("anchor"):
                    node["refs"].add(child["anchor"])
            else:
                child = leaf(flow, node)
            if t == "map":
                counter[0] += 1
                pool = KEYS_ODD if (odd_keys and not flow and rng.random() < 0.3) else KEYS_OK
                odd[0] = odd[0] or pool is KEYS_ODD
                node["items"].append((rng.choice(pool if not flow else KEYS_OK[:2]) % counter[0], child))
            else:
                node["items"].append(child)
        if node.get("anchor"):
            cclosed.append(node["anchor"])
        return node

    tree = cont(1, False)
    return tree, odd[0]


# --------------------------------------------------------------------------- running cases (pool workers)
_W = {}


def _init_worker(outdir):
    from harness import rotobs
    _W["ro"] = rotobs
    _W["dir"] = os.path.join(outdir, "w", str(os.getpid()))
    _W["keys"] = rotobs.make_keys(os.path.join(outdir, "keys"))


def _run_chunk(chunk):
    ro = _W["ro"]
    out = []
    for c in chunk:
        try:
            obs = ro.run_case(c["texts"], c["backup"], _W["dir"], _W["keys"])
        except Exception as ex:        # the generated text must load: anything else is machinery
            out.append({"id": c["id"], "machinery": "%s: %s" % (type(ex).__name__, str(ex)[:300]), "texts": c["texts"]})
            continue
        bad, notes = ro.judge(obs, use_executable=c.get("exe", False))
        fs = obs["files"]
        secret_slots = [(f["info"], i) for f in fs for i, x in enumerate(f["info"]) if x["secret"]]
        rec = {"id": c["id"], "texts": c["texts"], "backup": c["backup"], "src": c["src"],
               "files": [f["doc"] for f in fs], "events": obs["events"], "views": [f["view"] for f in fs],
               "filecheck": [f["filecheck"] for f in fs], "rc": obs["rc"], "crash": obs["crash"], "bad": bad, "notes": notes,
               "rewritten": [f["rewritten"] for f in fs], "bak": [f["bak_ok"] for f in fs],
               "reload_error": [bool(f["reload_error"]) for f in fs],
               "nsecret": [sum(1 for x in f["info"] if x["secret"]) for f in fs],
               "all_old": all(info[i]["key"] == "old" for info, i in secret_slots),
               "revisit": any(info[i]["loc"] != info[i]["pos"] for info, i in secret_slots),
               "boxed": sum(1 for info, i in secret_slots if info[i]["canc"]),
               "trails": sorted({ro.trail_class(info[i]["plain"]) for info, i in secret_slots if info[i]["plain"] is not None}),
               "classes": sorted({ro.slot_class(info, i) for info, i in secret_slots}),
               "after_texts": [f["after_text"] for f in fs] if bad else [], "rawlog": obs["rawlog"] if bad else []}
        if "model" in c:
            rec["model"] = c["model"]
        out.append(rec)
    shutil.rmtree(_W["dir"], ignore_errors=True)
    return out


def _chunks(seq, n):
    for i in range(0, len(seq), n):
        yield seq[i:i + n]


def run_cases(ctx, cases):
    out = []
    with mp.Pool(core.NCPU, initializer=_init_worker, initargs=(ctx.out,)) as pool:
        for part in pool.imap_unordered(_run_chunk, list(_chunks(cases, 8))):
            out.extend(part)
    mach = [r for r in out if "machinery" in r]
    if mach:
        raise core.MachineryError("case could not be prepared: %s\n%s" % (mach[0]["machinery"], "\n".join(mach[0]["texts"])))
    out.sort(key=lambda r: r["id"])
    return out


# --------------------------------------------------------------------------- C->S validation
def validate(ctx, recs, name, cfg="Trace_YRotate.cfg"):
    rin, rout = ctx.path(name + ".records.json"), ctx.path(name + ".verdicts.json")
    with open(rin, "w") as fh:
        json.dump([{"id": r["id"], "files": r["files"], "backup": r["backup"], "events": r["events"], "views": r["views"],
                    "filecheck": r["filecheck"], "checkinv": "mirrored" not in cfg} for r in recs], fh)
    core.run_tlc(ctx, "Trace_YRotate", cfg, env={"RECORDS_IN": rin, "VERDICTS_OUT": rout}, workers=1, name=name)
    if not os.path.exists(rout):
        raise core.MachineryError("Trace_YRotate wrote no verdicts (%s)" % name)
    with open(rout) as fh:
        ver = json.load(fh)
    if len(ver) != len(recs):
        raise core.MachineryError("Trace_YRotate: %d verdicts for %d records" % (len(ver), len(recs)))
    os.remove(rin)
    return {v["id"]: v for v in ver}


def corruptions(rec):
    """Binding self-test: single-field corruptions of an accepted record; each must be rejected."""
    out = []
    ev = rec["events"]

    def variant(tag, f):
        r = copy.deepcopy(rec)
        if f(r) is not False:
            r["id"] = "%s#%s" % (rec["id"], tag)
            out.append(r)

    def first(r, kind):
        return next((i for i, e in enumerate(r["events"]) if e["e"] == kind), None)

    def mut(kind, field, fn):
        def go(r):
            i = first(r, kind)
            if i is None:
                return False
            r["events"][i][field] = fn(r["events"][i][field])
        return go

    variant("dec-key", mut("Decrypt", "key", lambda k: "new"))
    variant("dec-ct", mut("Decrypt", "ct", lambda c: {"key": c["key"], "pt": c["pt"] + 1}))
    variant("dec-ok", mut("Decrypt", "ok", lambda b: not b))
    variant("enc-key", mut("Encrypt", "key", lambda k: "old"))
    variant("enc-pt", mut("Encrypt", "pt", lambda p: p + 1))
    variant("enc-fmt", mut("Encrypt", "fmt", lambda f: "block" if f == "string" else "string"))
    variant("node-pos", mut("Node", "pos", lambda p: p + 1))
    variant("node-anc", mut("Node", "anc", lambda a: a + "Z"))
    variant("store-key", mut("Store", "after", lambda a: [dict(x, key="old") if x["key"] == "new" else x for x in a]))
    variant("exit", mut("Exit", "status", lambda s: 3 - s))

    def drop(kind):
        def go(r):
            i = first(r, kind)
            if i is None:
                return False
            del r["events"][i]
        return go
    for k in ("NextFile", "Find", "Node", "Decrypt", "Encrypt", "Store", "Write", "Backup"):
        variant("drop-" + k, drop(k))
    variant("nextfile-index", mut("NextFile", "fi", lambda i: i + 1))

    def late_second_file(r):      # the second file's NextFile moved behind its first Find
        idx = [i for i, e in enumerate(r["events"]) if e["e"] == "NextFile"]
        if len(idx) < 2 or idx[1] + 1 >= len(r["events"]) or r["events"][idx[1] + 1]["e"] != "Find":
            return False
        i = idx[1]
        r["events"][i], r["events"][i + 1] = r["events"][i + 1], r["events"][i]
    variant("nextfile-late", late_second_file)

    def dup(kind):
        def go(r):
            i = first(r, kind)
            if i is None:
                return False
            r["events"].insert(i, copy.deepcopy(r["events"][i]))
        return go
    for k in ("Decrypt", "Encrypt", "Write", "Backup"):
        variant("dup-" + k, dup(k))

    def swap_bw(r):
        i, j = first(r, "Backup"), first(r, "Write")
        if i is None or j is None:
            return False
        r["events"][i], r["events"][j] = r["events"][j], r["events"][i]
    variant("write-before-backup", swap_bw)

    def file_key(r):
        for k, v in enumerate(r["views"]):
            if r["filecheck"][k] and any(x["key"] == "new" for x in v):
                next(x for x in v if x["key"] == "new")["key"] = "old"
                return None
        return False
    variant("file-key", file_key)

    def file_pt(r):
        for k, v in enumerate(r["views"]):
            if r["filecheck"][k] and any(x["key"] == "new" for x in v):
                x = next(x for x in v if x["key"] == "new")
                x["pt"] = 0 - x["pt"]
                return None
        return False
    variant("file-plaintext", file_pt)

    def flip_backup(r):
        if not any(e["e"] == "Write" for e in ev):
            return False
        r["backup"] = not r["backup"]
    variant("backup-opt", flip_backup)
    return out


# --------------------------------------------------------------------------- the check
PREDICTIONS = {"MC_YRotate_pinned.cfg": "AllNew", "MC_YRotate_pinned_rstrip.cfg": "PlaintextKept",
               "MC_YRotate_noreset.cfg": "AllNew", "MC_YRotate_leakyguard.cfg": "AllNew",
               "MC_YRotate_guard_perfile.cfg": None}      # None: this alternative design must satisfy every clause
# family -> (cfg quick, cfg thorough, replay everything up to this many positions in all files together (quick,
# thorough), budget for the bigger ones (quick, thorough))
FAMILIES = {
    "shape":  ("MC_YRotate_q.cfg", "MC_YRotate_t.cfg", (3, 4), (300, 4000)),
    "marker": ("MC_YRotate_marker.cfg", "MC_YRotate_marker.cfg", (1, 1), (150, 1500)),
    "fid":    ("MC_YRotate_fid.cfg", "MC_YRotate_fid3.cfg", (1, 2), (200, 10 ** 9)),
    "files":  ("MC_YRotate_files.cfg", "MC_YRotate_files3.cfg", (2, 2), (250, 3000)),
    "boxes":  ("MC_YRotate_boxes.cfg", "MC_YRotate_boxes3.cfg", (2, 2), (200, 3000)),
}


def build_cases(ctx, rng):
    """TLC runs (in parallel JVMs) + the list of invocations to replay.  Returns (cases, model stats)."""
    from concurrent.futures import ThreadPoolExecutor
    from harness import rotobs as ro
    tier = 0 if ctx.quick else 1
    jobs = [(cfg, None) for cfg in PREDICTIONS] + [(FAMILIES[f][tier], f) for f in FAMILIES]
    per = max(2, core.NCPU // 4)

    def go(job):
        cfg, fam = job
        out = ctx.path(cfg + ".cases")
        return job, core.run_tlc(ctx, "MC_YRotate", cfg, env={"CASES_OUT": out}, timeout=7200, workers=per), out

    with ThreadPoolExecutor(max_workers=4) as ex:
        results = list(ex.map(go, jobs))
    predictions = {}
    emitted = {}
    for (cfg, fam), r, out in results:
        if fam is None:
            predictions[cfg.replace("MC_YRotate_", "").replace(".cfg", "")] = r["violated"] or "holds"
            if r["violated"] != PREDICTIONS[cfg]:
                raise core.MachineryError("%s: TLC was expected to violate %s, got %s" % (cfg, PREDICTIONS[cfg], r["violated"]))
        else:
            if r["violated"]:
                raise core.MachineryError("%s: the property's design violates %s (log %s)" % (cfg, r["violated"], r["log"]))
            emitted[fam] = core.read_csv_json_lines(out)
            if not emitted[fam]:
                raise core.MachineryError("%s emitted no cases" % cfg)
        if os.path.exists(out):
            os.remove(out)
    chosen = []
    ndocs = {}
    for fam in sorted(emitted):
        small, budget = FAMILIES[fam][2][tier], FAMILIES[fam][3][tier]
        by_doc = {}
        for c in emitted[fam]:
            c["fam"] = fam
            by_doc.setdefault(json.dumps(c["files"], sort_keys=True), []).append(c)      # the --backup variants
        ndocs[fam] = len(by_doc)
        big = []
        for k in sorted(by_doc):
            cs = by_doc[k]
            n = sum(len(d["slots"]) for d in cs[0]["files"])
            if n > small:
                big.append(cs)
            elif ctx.quick and n > 2:
                chosen.append(cs[rng.randrange(len(cs))])
            else:
                chosen.extend(cs)
        rng.shuffle(big)
        for cs in big[:budget]:
            chosen.append(cs[rng.randrange(len(cs))])
    cases = []
    for c in chosen:
        texts = [ro.to_yaml(case_tree(d)) for d in c["files"]]
        cases.append({"id": len(cases), "texts": texts, "backup": bool(c["backup"]), "src": "model:" + c["fam"],
                      "exe": c["fam"] == "fid",
                      "model": {"status": c["status"], "finals": c["finals"], "written": c["written"], "backed": c["backed"]}})
    stats = {"emitted": {f: len(v) for f, v in emitted.items()}, "emitted_invocations": ndocs,
             "replayed_model_cases": len(cases),
             "exhaustive_upto_positions": {f: FAMILIES[f][2][tier] for f in FAMILIES},
             "deviating_designs_refuted_by_tlc": predictions}
    return cases, stats


def random_cases(ctx, rng, start):
    n = 400 if ctx.quick else 4000
    from harness import rotobs as ro
    cases = []
    for i in range(n):
        nfiles = (1, 1, 2, 1, 3, 2)[i % 6] if i % 5 != 3 else (2, 3, 1)[(i // 5) % 3]
        trees, odd = [], False
        for k in range(nfiles):
            # every file draws its anchors from the same pool, so files of one invocation reuse anchor names;
            # in a multi-file invocation some files hold no secret at all
            want = (i % 10 != 0) if nfiles == 1 else rng.random() < 0.7
            # i % 5 == 3: secrets inside anchored Hashes/Arrays, the container anchors reused by every file of the
            # invocation; sometimes such a container is referenced again (`copy: *box`)
            tree, o = gen_tree(rng, want_secrets=want, odd_keys=(i % 25 == 7), foreign=(i % 4 == 0),
                               fidelity=(0.5 if i % 3 == 1 else 0.0), boxes=(0.7 if i % 5 == 3 else 0.0),
                               box_alias=(0.12 if i % 10 == 3 else 0.0))
            trees.append(tree)
            odd = odd or o
        texts = [ro.to_yaml(t) for t in trees]
        cases.append({"id": start + i, "texts": texts, "backup": rng.random() < 0.5,
                      "src": "random-oddkeys" if odd else "random", "exe": i % 3 == 1 or i % 10 == 2})
    return cases


def run(ctx):
    rng = random.Random(ctx.seed)
    cases, stats = build_cases(ctx, rng)
    cases += random_cases(ctx, rng, len(cases))
    recs = run_cases(ctx, cases)
    shutil.rmtree(ctx.path("w"), ignore_errors=True)

    # ---- verdicts from the projection
    odd = [r for r in recs if r["src"] == "random-oddkeys"]     # informational only (see KEYS_ODD)
    odd_dev = [{"texts": r["texts"], "rc": r["rc"], "crash": r["crash"], "bad": r["bad"]} for r in odd if r["bad"] or r["rc"] != 0]
    recs = [r for r in recs if r["src"] != "random-oddkeys"]
    for r in recs:
        for sig, desc in r["bad"]:
            ctx.violation(sig, desc, {"kind": "invocation", "texts": r["texts"], "backup": r["backup"], "src": r["src"],
                                      "after_texts": r["after_texts"], "log": r["rawlog"]})
    # ---- C->S: every run must be a behaviour of YRotate
    verdicts = {}
    crashed = [r for r in recs if r["crash"]]       # an uncaught exception is not a behaviour the machine models
    traced = [r for r in recs if not r["crash"]]
    for k, part in enumerate(_chunks(traced, 3000)):
        verdicts.update(validate(ctx, part, "trace_%d" % k))
    rejected = [r for r in traced if not verdicts[r["id"]]["ok"]]
    mirrored = validate(ctx, rejected, "trace_mirrored", "Trace_YRotate_mirrored.cfg") if rejected else {}
    drift, drift_samples, follows_pinned = 0, [], 0
    for r in rejected:
        v = verdicts[r["id"]]
        pinned_ok = mirrored[r["id"]]["ok"]
        follows_pinned += bool(pinned_ok)
        if not r["bad"] and not pinned_ok:      # rejected, projection fine, and not explained by a named deviation either
            drift += 1
            if len(drift_samples) < 5:
                drift_samples.append({"texts": r["texts"], "why": v["why"], "at": v["at"], "rc": r["rc"],
                                      "expected": v["expect"], "got": r["events"][v["at"] - 1] if v["at"] else None})
    # ---- S->C: the model's predicted outcome for its own invocations (projection: status, which files were
    # rewritten / backed up, key and sharing per position of every rewritten file)
    s2c_mismatch = 0
    for r in recs:
        m = r.get("model")
        if not m or r["bad"] or (verdicts.get(r["id"]) and not verdicts[r["id"]]["ok"] and mirrored[r["id"]]["ok"]):
            continue
        agree = r["rc"] == m["status"] and r["rewritten"] == m["written"] and [b is not None for b in r["bak"]] == m["backed"]
        for k, fin in enumerate(m["finals"]):
            if agree and m["written"][k] and not r["reload_error"][k]:
                agree = [(x["o"], x["key"]) for x in r["views"][k]] == [(x["o"], x["key"]) for x in fin]
        if not agree:
            s2c_mismatch += 1
            if len(drift_samples) < 8:
                drift_samples.append({"texts": r["texts"], "why": "model outcome", "model": m, "rc": r["rc"], "views": r["views"]})
    # ---- binding self-test: corrupt one field of accepted traces; all must be rejected
    good = [r for r in traced if verdicts[r["id"]]["ok"] and sum(r["nsecret"]) >= 1 and r["rc"] == 0]
    multi = [r for r in good if len(r["files"]) > 1 and sum(1 for n in r["nsecret"] if n) > 1]
    pick = ([r for r in good if r["backup"] and any(c.startswith("alias") for c in r["classes"])][:5]
            + [r for r in good if not r["backup"]][:5] + [r for r in good if r["src"] == "random"][:5] + multi[:6])
    corr = [c for r in pick for c in corruptions(r)]
    if not corr or not multi:
        raise core.MachineryError("binding self-test: no accepted (multi-file) trace to corrupt")
    cver = validate(ctx, corr, "selftest")
    accepted = [c["id"] for c in corr if cver[c["id"]]["ok"]]
    if accepted:
        raise core.MachineryError("binding self-test: corrupted traces were accepted: %s" % accepted[:5])

    failed_runs = [r for r in recs if r["rc"] != 0]
    notes = [n for r in recs for n in r["notes"]]
    ctx.informational += len(failed_runs) + len(odd) + len(notes)
    nontrivial = {"\n".join(r["texts"]) for r in recs if sum(r["nsecret"]) >= 1 and r["rc"] == 0}
    classes, trails = {}, {}
    for r in recs:
        for c in r["classes"]:
            classes[c] = classes.get(c, 0) + 1
        for c in r["trails"]:
            trails[c or "non-blank"] = trails.get(c or "non-blank", 0) + 1
    multi_all = [r for r in recs if len(r["files"]) > 1]
    sample = next((r for r in recs if r["src"] == "random" and len(r["files"]) > 1 and min(r["nsecret"]) >= 1 and r["rc"] == 0), recs[0])
    ctx.coverage.update(stats)
    ctx.coverage.update({
        "evaluations": len(recs),
        "distinct_nontrivial": len(nontrivial),
        "rule": "distinct invocations (file texts) holding at least one ENC[ value on which the real main() exited 0",
        "traces_validated_against_impl": len(traced),
        "traces_rejected": len(rejected),
        "rejected_but_explained_by_named_deviation(rstrip)": follows_pinned,
        "model_drift": drift,
        "model_outcome_mismatches_without_violation": s2c_mismatch,
        "drift_samples": drift_samples,
        "binding_selftest": {"corrupted_traces": len(corr), "rejected": len(corr) - len(accepted)},
        "multi_file_invocations": len(multi_all),
        "multi_file_invocations_with_secrets_in_several_files": sum(1 for r in multi_all if sum(1 for n in r["nsecret"] if n) > 1),
        "multi_file_invocations_mixing_files_without_secrets": sum(1 for r in multi_all if 0 in r["nsecret"] and any(r["nsecret"])),
        "files_without_secrets": sum(1 for r in recs for n in r["nsecret"] if n == 0),
        "plaintext_endings": trails,
        "plaintexts_ending_in_line_break_not_judged": len(notes),
        "failed_runs_informational": len(failed_runs),
        "failed_runs_although_every_secret_was_under_the_old_keys": sum(
            1 for r in failed_runs if r["all_old"] and not r["crash"] and not r["revisit"] and not ({"allws", "empty"} & set(r["trails"]))),
        # a secret inside a Hash/Array that is referenced twice is reported twice by the path generator; the second
        # decryption (of the already re-keyed value) fails: exit 3 - not a successful run, so not judged, but named
        "aliased_container_double_decrypt_exit3": sum(1 for r in failed_runs if r["revisit"] and r["all_old"]),
        "invocations_with_secrets_inside_anchored_containers": sum(1 for r in recs if r["boxed"]),
        "of_which_several_files_with_secrets": sum(1 for r in recs if r["boxed"] and sum(1 for n in r["nsecret"] if n) > 1),
        "odd_key_documents_informational": len(odd),
        "odd_key_documents_failed_or_deviating": len(odd_dev),
        "odd_key_samples": odd_dev[:2],
        "crashes_informational": len(crashed),
        "crash_kinds": sorted({r["crash"].split(":")[0] for r in crashed}),
        "secret_position_classes": classes,
        "protocol_decrypt_via_executable": sum(1 for c in cases if c.get("exe")),
        "exhaustive": True,
        "samples": [{"texts": sample["texts"], "backup": sample["backup"], "rc": sample["rc"],
                     "events": [e["e"] for e in sample["events"]]}],
        "trusted_base": ["TLC 1.8", "harness/fake_eyaml/eyaml (keyed reversible cipher; wrong key => exit 1)",
                         "ruamel.yaml loader used to reload the rewritten file", "harness/rotobs.py position walk"],
    })
    ctx.assumptions += [
        "plaintexts are ASCII (eyamlprocessor encodes as ASCII) and do not themselves begin with ENC[; every white space "
        "shape is judged exactly except a plaintext ENDING in a line break (the command protocol appends a line break of its "
        "own - the real eyaml prints with `puts` - so it cannot be told apart) and white-space-only / empty plaintexts (the "
        "tool refuses the decryption and exits 3: not a successful run)",
        "containers are not aliased (a secret inside an aliased hash is reachable by two paths and makes the tool fail: "
        "not a successful run, outside the statement)",
        "white space inside encrypted values is spaces and line breaks (what the marker rule names)",
        "runs that exit non-zero (third-party / corrupt tokens, refused plaintexts) are counted as informational: the "
        "statement speaks about successful runs; only the no-secret clause is checked for them"]


def replay(path):
    from harness import rotobs as ro
    with open(path) as fh:
        rp = json.load(fh)["replay"]
    work = os.path.join(core.VERIF, "out", "C19-replay")
    keys = ro.make_keys(os.path.join(work, "keys"))
    texts = rp["texts"] if "texts" in rp else [rp["text"]]
    obs = ro.run_case(texts, rp["backup"], os.path.join(work, "w"), keys)
    bad, notes = ro.judge(obs, use_executable=True)
    print("exit status %s%s" % (obs["rc"], (" crash " + obs["crash"]) if obs["crash"] else ""))
    for k, f in enumerate(obs["files"], 1):
        print("--- file %d before\n%s--- file %d after (rewritten=%s)\n%s" % (k, f["text"], k, f["rewritten"], f["after_text"]))
    for e in obs["events"]:
        print("  ", {k: v for k, v in e.items() if k != "after"})
    for sig, desc in bad:
        print("  %s :: %s" % (sig, desc))
    for n in notes:
        print("  note: " + n)
    shutil.rmtree(work, ignore_errors=True)
    print("VIOLATION property=C19 replay=%s" % path if bad else "no violation")
    return 1 if bad else 0
