"""C19 - EYAML key rotation re-keys every secret once and touches nothing else.

Design level: spec/YRotate.tla (step machine RStep over secret cells) is model-checked by TLC over every
document of a small shape space (MC_YRotate): with the Store the property demands every clause is an invariant;
with the Store of the pinned code (MC_YRotate_pinned) TLC is expected to find the foreign-sequence alias
counterexample - a *prediction*, turned into a verdict only by the replay below.

S->C: every document TLC emitted (a seeded sample of the largest size class in the quick tier) is written as a
YAML file whose secrets are encrypted by the stand-in eyaml under the OLD keys, and the real
`yamlpath.commands.eyaml_rotate_keys.main()` runs on it in-process with the stand-in on PATH.
C->S: the same for seeded random documents (nesting, flow containers, nine scalar styles, anchored/aliased
secrets and plaintext, duplicate plaintexts, third-party and corrupt tokens).  For every run the merged log of
the stand-in (Decrypt/Encrypt) and of recording wrappers in the command module's namespace
(Find/Node/Store/Backup/Write/Exit) is validated by Trace_YRotate folding RStep.

Verdict (projection, harness/rotobs.judge): after a successful run every marker-recognised value decrypts under
the new keys to its old plaintext and not under the old keys; sharing partition unchanged; each shared value
decrypted and encrypted once; the non-secret frame (keys, values, order, anchors) unchanged on reload; a file
without ENC[ values is untouched (bytes, mtime, directory listing) and the external command never runs.
A trace the specification rejects while the projection holds is model drift (reported, no alarm).
"""
import copy
import json
import multiprocessing as mp
import os
import random
import shutil

from harness import core

LEVEL = "model_checking"
PLAINTEXTS = ["s3cr3t", "password with spaces", "two\nlines", "p@$$:w0rd#{}[]", "x",
              "a long plaintext that makes the token wrap over several lines of sixty characters each, twice",
              "0", "another secret value 1234567890"]
PLAIN_VALUES = ["plain", "42", "-7", "1.50", "true", "null", "~", '"quoted"', "'single'", '"ENC"', '"not ENC[really]"',
                '"e n c["', '""', "2020-01-01", '"x ENC[PKCS7,abc]"', "Enc"]
BLOCK_ONLY_PLAIN = ["xENC[PKCS7,abc]", "enc[PKCS7,abc]", "ENC PKCS7,abc]"]
KEYS_OK = ["k%d", "key%d.dot", "sl%d/ash", '"sp ace %d"', "%d", '"%d"', "hash%d#", "br[ack%d]et", "'q''uote%d'"]
# keys that escape_path_section does not turn into a path addressing exactly that key (leading &, backslash, * acting
# as a wildcard): a key-escaping matter (C08 family), not this property's - such documents are run and counted only
KEYS_ODD = ['"&amp%d"', "a%d\\\\b", "a%d*b"]
ANCHORS = ["A", "B", "sec1", "x_y"]
BLOCK_FORMS = ["plain", "dq", "sq", "spaced", "nl", "folded", "foldedstrip", "literal", "plainml", "foldedsp", "foldednl"]
FLOW_FORMS = ["dq", "sq", "spaced", "nl"]


# --------------------------------------------------------------------------- documents
def model_plaintext(pt):
    return ("secret %02d " % pt) + ("0123456789 abcdefghij " * 3 if pt % 2 else "s")[: 60 if pt % 2 else 1] + "end"


def case_tree(case):
    """A document emitted by MC_YRotate -> tree.  Containers: 1 root hash, 2/3 sequences, 4 nested hash."""
    slots, objs = case["doc"]["slots"], case["doc"]["objs"]
    root = {"t": "map", "flow": False, "items": []}
    conts = {1: root}
    seen = set()
    for p, s in enumerate(slots, 1):
        c = s["cont"]
        if c not in conts:
            conts[c] = {"t": "seq" if c in (2, 3) else "map", "flow": False, "items": []}
            root["items"].append(({2: "s2", 3: "s3", 4: "m4"}[c], conts[c]))
        o = objs[s["o"] - 1]
        head = o["head"]
        if s["o"] in seen:
            leaf = {"t": "alias", "anchor": o["anc"]}
        elif head.replace("\n", "").replace(" ", "").startswith("ENC["):
            base = "plain" if head.startswith("ENC[") else "spaced" if head.startswith(" ") else "nl"
            form = {"plain": "folded", "spaced": "foldedsp", "nl": "foldednl"}[base] if o["folded"] else base
            leaf = {"t": "secret", "pt": model_plaintext(o["pt"]), "key": o["key"], "form": form, "anchor": o["anc"]}
        else:
            leaf = {"t": "plain", "yaml": {"plain": "plain"}.get(head, head + "abc]"), "anchor": o["anc"]}
        seen.add(s["o"])
        if conts[c]["t"] == "map":
            conts[c]["items"].append(("k%d" % p, leaf))
        else:
            conts[c]["items"].append(leaf)
    return root


def gen_tree(rng, want_secrets=True, odd_keys=False, foreign=True):
    """Seeded random document: nesting <= 3, block and flow containers, all forms, anchors and aliases."""
    anchors = []          # names defined so far (document order)
    free = list(ANCHORS)
    counter = [0]
    odd = [False]

    def leaf(flow):
        counter[0] += 1
        r = rng.random()
        if anchors and r < 0.18:
            return {"t": "alias", "anchor": rng.choice(anchors)}
        if want_secrets and r < 0.6:
            key = "old"
            if foreign and rng.random() < 0.04:
                key = rng.choice(["other", "none"])
            lf = {"t": "secret", "pt": rng.choice(PLAINTEXTS), "key": key,
                  "form": rng.choice(FLOW_FORMS if flow else BLOCK_FORMS), "anchor": ""}
            if free and rng.random() < 0.45:
                lf["anchor"] = free.pop(0)
                anchors.append(lf["anchor"])
            return lf
        lf = {"t": "plain", "yaml": rng.choice(PLAIN_VALUES if flow else PLAIN_VALUES + BLOCK_ONLY_PLAIN), "anchor": ""}
        if free and rng.random() < 0.15 and lf["yaml"] not in ("null", "~"):
            lf["anchor"] = free.pop(0)
            anchors.append(lf["anchor"])
        return lf

    def cont(depth, flow):
        t = "map" if rng.random() < 0.55 else "seq"
        node = {"t": t, "flow": flow, "items": []}
        for i in range(rng.randint(1, 4)):
            if depth < 3 and rng.random() < 0.3:
                child = cont(depth + 1, flow or rng.random() < 0.2)
            else:
                child = leaf(flow)
            if t == "map":
                counter[0] += 1
                pool = KEYS_ODD if (odd_keys and not flow and rng.random() < 0.3) else KEYS_OK
                odd[0] = odd[0] or pool is KEYS_ODD
                node["items"].append((rng.choice(pool if not flow else KEYS_OK[:2]) % counter[0], child))
            else:
                node["items"].append(child)
        return node

    tree = cont(1, False)
    return tree, odd[0]


# --------------------------------------------------------------------------- running cases (pool workers)
_W = {}


def _init_worker(outdir):
    from harness import rotobs
    _W["ro"] = rotobs
    _W["dir"] = os.path.join(outdir, "w", str(os.getpid()))
    _W["keys"] = rotobs.make_keys(os.path.join(outdir, "keys"))


def _run_chunk(chunk):
    ro = _W["ro"]
    out = []
    for c in chunk:
        try:
            obs = ro.run_case(c["text"], c["backup"], _W["dir"], _W["keys"])
        except Exception as ex:        # the generated text must load: anything else is machinery
            out.append({"id": c["id"], "machinery": "%s: %s" % (type(ex).__name__, str(ex)[:300]), "text": c["text"]})
            continue
        bad = ro.judge(obs, use_executable=c.get("exe", False))
        info = obs["info"]
        rec = {"id": c["id"], "text": c["text"], "backup": c["backup"], "src": c["src"], "doc": obs["doc"], "events": obs["events"],
               "file": obs["file"], "rc": obs["rc"], "crash": obs["crash"], "bad": bad, "rewritten": obs["rewritten"],
               "bak": obs["bak_ok"], "nsecret": sum(1 for x in info if x["secret"]), "npos": len(info),
               "all_old": all(x["key"] == "old" for x in info if x["secret"]),
               "classes": sorted({ro.slot_class(info, i) for i, x in enumerate(info) if x["secret"]}),
               "after_text": obs["after_text"] if bad else "", "rawlog": obs["rawlog"] if bad else [],
               "reload_error": obs["reload_error"]}
        if "model" in c:
            rec["model"] = c["model"]
        out.append(rec)
    shutil.rmtree(_W["dir"], ignore_errors=True)
    return out


def _chunks(seq, n):
    for i in range(0, len(seq), n):
        yield seq[i:i + n]


def run_cases(ctx, cases):
    out = []
    with mp.Pool(core.NCPU, initializer=_init_worker, initargs=(ctx.out,)) as pool:
        for part in pool.imap_unordered(_run_chunk, list(_chunks(cases, 8))):
            out.extend(part)
    mach = [r for r in out if "machinery" in r]
    if mach:
        raise core.MachineryError("case could not be prepared: %s\n%s" % (mach[0]["machinery"], mach[0]["text"]))
    out.sort(key=lambda r: r["id"])
    return out


# --------------------------------------------------------------------------- C->S validation
def validate(ctx, recs, name, cfg="Trace_YRotate.cfg"):
    rin, rout = ctx.path(name + ".records.json"), ctx.path(name + ".verdicts.json")
    with open(rin, "w") as fh:
        json.dump([{"id": r["id"], "doc": r["doc"], "backup": r["backup"], "events": r["events"], "file": r["file"],
                    "filecheck": bool(r["rewritten"] and not r["reload_error"])}
                   for r in recs], fh)
    core.run_tlc(ctx, "Trace_YRotate", cfg, env={"RECORDS_IN": rin, "VERDICTS_OUT": rout}, workers=1, name=name)
    if not os.path.exists(rout):
        raise core.MachineryError("Trace_YRotate wrote no verdicts (%s)" % name)
    with open(rout) as fh:
        ver = json.load(fh)
    if len(ver) != len(recs):
        raise core.MachineryError("Trace_YRotate: %d verdicts for %d records" % (len(ver), len(recs)))
    os.remove(rin)
    return {v["id"]: v for v in ver}


def corruptions(rec):
    """Binding self-test: single-field corruptions of an accepted record; each must be rejected."""
    out = []
    ev = rec["events"]

    def variant(tag, f):
        r = copy.deepcopy(rec)
        if f(r) is not False:
            r["id"] = "%s#%s" % (rec["id"], tag)
            out.append(r)

    def first(r, kind):
        return next((i for i, e in enumerate(r["events"]) if e["e"] == kind), None)

    def mut(kind, field, fn):
        def go(r):
            i = first(r, kind)
            if i is None:
                return False
            r["events"][i][field] = fn(r["events"][i][field])
        return go

    variant("dec-key", mut("Decrypt", "key", lambda k: "new"))
    variant("dec-ct", mut("Decrypt", "ct", lambda c: {"key": c["key"], "pt": c["pt"] + 1}))
    variant("dec-ok", mut("Decrypt", "ok", lambda b: not b))
    variant("enc-key", mut("Encrypt", "key", lambda k: "old"))
    variant("enc-pt", mut("Encrypt", "pt", lambda p: p + 1))
    variant("enc-fmt", mut("Encrypt", "fmt", lambda f: "block" if f == "string" else "string"))
    variant("node-pos", mut("Node", "pos", lambda p: p + 1))
    variant("node-anc", mut("Node", "anc", lambda a: a + "Z"))
    variant("store-key", mut("Store", "after", lambda a: [dict(x, key="old") if x["key"] == "new" else x for x in a]))
    variant("exit", mut("Exit", "status", lambda s: 3 - s))

    def drop(kind):
        def go(r):
            i = first(r, kind)
            if i is None:
                return False
            del r["events"][i]
        return go
    for k in ("Find", "Node", "Decrypt", "Encrypt", "Store", "Write", "Backup"):
        variant("drop-" + k, drop(k))

    def dup(kind):
        def go(r):
            i = first(r, kind)
            if i is None:
                return False
            r["events"].insert(i, copy.deepcopy(r["events"][i]))
        return go
    for k in ("Decrypt", "Encrypt", "Write", "Backup"):
        variant("dup-" + k, dup(k))

    def swap_bw(r):
        i, j = first(r, "Backup"), first(r, "Write")
        if i is None or j is None:
            return False
        r["events"][i], r["events"][j] = r["events"][j], r["events"][i]
    variant("write-before-backup", swap_bw)

    def file_key(r):
        if not r["file"] or all(x["key"] != "new" for x in r["file"]):
            return False
        i = next(i for i, x in enumerate(r["file"]) if x["key"] == "new")
        r["file"][i]["key"] = "old"
    variant("file-key", file_key)

    def flip_backup(r):
        if not any(e["e"] == "Write" for e in ev):
            return False
        r["backup"] = not r["backup"]
    variant("backup-opt", flip_backup)
    return out


# --------------------------------------------------------------------------- the check
def build_cases(ctx, rng):
    """TLC runs + case lists.  Returns (cases, model stats)."""
    pinned = core.run_tlc(ctx, "MC_YRotate", "MC_YRotate_pinned.cfg", env={"CASES_OUT": ctx.path("pinned.txt")})
    emitted = []
    for cfg in (["MC_YRotate_q.cfg", "MC_YRotate_marker.cfg"] if ctx.quick else ["MC_YRotate_t.cfg", "MC_YRotate_marker.cfg"]):
        f = ctx.path(cfg + ".cases")
        r = core.run_tlc(ctx, "MC_YRotate", cfg, env={"CASES_OUT": f}, timeout=7200)
        if r["violated"]:
            ctx.coverage.setdefault("model_predictions", []).append("%s violated in %s" % (r["violated"], cfg))
        for c in core.read_csv_json_lines(f):
            c["cfg"] = cfg
            emitted.append(c)
        os.remove(f)
    if not emitted:
        raise core.MachineryError("MC_YRotate emitted no cases")
    # group the backup variants of one document; small documents are all replayed, the biggest size class of a
    # configuration is sampled in the quick tier (thorough: everything, one backup variant per big document)
    by_doc = {}
    for c in emitted:
        by_doc.setdefault((c["cfg"], json.dumps(c["doc"], sort_keys=True)), []).append(c)
    groups = [by_doc[k] for k in sorted(by_doc)]
    small_upto = {"shape": 3, "marker": 1} if ctx.quick else {"shape": 4, "marker": 2}
    budget = {"shape": 450, "marker": 250} if ctx.quick else {"shape": 10000, "marker": 10 ** 9}
    chosen, big = [], {"shape": [], "marker": []}
    for cs in groups:
        fam = "marker" if "marker" in cs[0]["cfg"] else "shape"
        n = len(cs[0]["doc"]["slots"])
        if n > small_upto[fam]:
            big[fam].append(cs)
        elif ctx.quick and n > 2:
            chosen.append(cs[rng.randrange(len(cs))])
        else:
            chosen.extend(cs)
    for fam in ("shape", "marker"):
        rng.shuffle(big[fam])
        for cs in big[fam][:budget[fam]]:
            chosen.append(cs[rng.randrange(len(cs))])
    exhaustive_upto = dict(small_upto)
    from harness import rotobs as ro
    cases = []
    for c in chosen:
        text = ro.to_yaml(case_tree(c))
        cases.append({"id": len(cases), "text": text, "backup": bool(c["backup"]), "src": "model:" + c["cfg"],
                      "model": {"status": c["status"], "final": c["final"], "written": c["written"], "backed": c["backed"]}})
    stats = {"emitted": len(emitted), "emitted_docs": len(groups), "replayed_model_cases": len(cases),
             "exhaustive_upto_positions": exhaustive_upto, "pinned_model_predicts": pinned["violated"]}
    return cases, stats


def random_cases(ctx, rng, start):
    n = 500 if ctx.quick else 6000
    from harness import rotobs as ro
    cases = []
    for i in range(n):
        tree, odd = gen_tree(rng, want_secrets=(i % 10 != 0), odd_keys=(i % 25 == 7), foreign=(i % 3 == 0))
        cases.append({"id": start + i, "text": ro.to_yaml(tree), "backup": rng.random() < 0.5,
                      "src": "random-oddkeys" if odd else "random", "exe": i % 10 == 1})
    return cases


def run(ctx):
    rng = random.Random(ctx.seed)
    cases, stats = build_cases(ctx, rng)
    cases += random_cases(ctx, rng, len(cases))
    recs = run_cases(ctx, cases)
    shutil.rmtree(ctx.path("w"), ignore_errors=True)

    # ---- verdicts from the projection
    odd = [r for r in recs if r["src"] == "random-oddkeys"]     # informational only (see KEYS_ODD)
    odd_dev = [{"text": r["text"], "rc": r["rc"], "crash": r["crash"], "bad": r["bad"]} for r in odd if r["bad"] or r["rc"] != 0]
    recs = [r for r in recs if r["src"] != "random-oddkeys"]
    for r in recs:
        for sig, desc in r["bad"]:
            ctx.violation(sig, desc, {"kind": "doc", "text": r["text"], "backup": r["backup"], "src": r["src"],
                                      "after_text": r["after_text"], "log": r["rawlog"]})
    # ---- C->S: every run must be a behaviour of YRotate
    verdicts = {}
    crashed = [r for r in recs if r["crash"]]       # an uncaught exception is not a behaviour the machine models
    traced = [r for r in recs if not r["crash"]]
    for k, part in enumerate(_chunks(traced, 3000)):
        verdicts.update(validate(ctx, part, "trace_%d" % k))
    rejected = [r for r in traced if not verdicts[r["id"]]["ok"]]
    mirrored = validate(ctx, rejected, "trace_mirrored", "Trace_YRotate_mirrored.cfg") if rejected else {}
    drift, drift_samples, follows_pinned = 0, [], 0
    for r in rejected:
        v = verdicts[r["id"]]
        pinned_ok = mirrored[r["id"]]["ok"]
        follows_pinned += bool(pinned_ok)
        if not r["bad"] and not pinned_ok:      # rejected, projection fine, and not explained by the pinned Store either
            drift += 1
            if len(drift_samples) < 5:
                drift_samples.append({"text": r["text"], "why": v["why"], "at": v["at"], "rc": r["rc"], "crash": r["crash"],
                                      "expected": v["expect"], "got": r["events"][v["at"] - 1] if v["at"] else None,
                                      "accepted_by_pinned_store": pinned_ok})
    # ---- S->C: the model's predicted outcome for its own documents
    s2c_mismatch = 0
    for r in recs:
        m = r.get("model")
        if not m:
            continue
        agree = r["rc"] == m["status"] and r["rewritten"] == m["written"] and (r["bak"] is not None) == m["backed"] \
            and (not m["written"] or r["reload_error"] or [(x["o"], x["key"]) for x in r["file"]] == [(x["o"], x["key"]) for x in m["final"]])
        if not agree and not r["bad"]:
            s2c_mismatch += 1
            if len(drift_samples) < 8:
                drift_samples.append({"text": r["text"], "why": "model outcome", "model": m, "rc": r["rc"], "file": r["file"]})
    # ---- binding self-test: corrupt one field of accepted traces; all must be rejected
    good = [r for r in traced if verdicts[r["id"]]["ok"] and r["nsecret"] >= 1 and r["rc"] == 0]
    pick = ([r for r in good if r["backup"] and any(c.startswith("alias") for c in r["classes"])][:6]
            + [r for r in good if not r["backup"]][:6] + [r for r in good if r["src"] == "random"][:6])
    corr = [c for r in pick for c in corruptions(r)]
    if not corr:
        raise core.MachineryError("binding self-test: no accepted trace to corrupt")
    cver = validate(ctx, corr, "selftest")
    accepted = [c["id"] for c in corr if cver[c["id"]]["ok"]]
    if accepted:
        raise core.MachineryError("binding self-test: corrupted traces were accepted: %s" % accepted[:5])

    failed_runs = [r for r in recs if r["rc"] != 0]
    ctx.informational += len(failed_runs) + len(odd)
    nontrivial = {r["text"] for r in recs if r["nsecret"] >= 1 and r["rc"] == 0}
    classes = {}
    for r in recs:
        for c in r["classes"]:
            classes[c] = classes.get(c, 0) + 1
    sample = next((r for r in recs if r["src"] == "random" and r["nsecret"] >= 2 and r["rc"] == 0), recs[0])
    ctx.coverage.update(stats)
    ctx.coverage.update({
        "evaluations": len(recs),
        "distinct_nontrivial": len(nontrivial),
        "rule": "distinct YAML files holding at least one ENC[ value on which the real main() exited 0",
        "traces_validated_against_impl": len(traced),
        "traces_rejected": len(rejected),
        "rejected_but_accepted_by_pinned_store_model": follows_pinned,
        "model_drift": drift,
        "model_outcome_mismatches_without_violation": s2c_mismatch,
        "drift_samples": drift_samples,
        "binding_selftest": {"corrupted_traces": len(corr), "rejected": len(corr) - len(accepted)},
        "odd_key_documents_informational": len(odd),
        "odd_key_documents_failed_or_deviating": len(odd_dev),
        "odd_key_samples": odd_dev[:2],
        "files_without_secrets": sum(1 for r in recs if r["nsecret"] == 0),
        "failed_runs_informational": len(failed_runs),
        "failed_runs_although_every_secret_was_under_the_old_keys": sum(1 for r in failed_runs if r["all_old"] and not r["crash"]),
        "crashes_informational": len(crashed),
        "crash_kinds": sorted({r["crash"].split(":")[0] for r in crashed}),
        "secret_position_classes": classes,
        "protocol_decrypt_via_executable": sum(1 for c in cases if c.get("exe")),
        "exhaustive": True,
        "samples": [{"text": sample["text"], "backup": sample["backup"], "rc": sample["rc"],
                     "events": [e["e"] for e in sample["events"]]}],
        "trusted_base": ["TLC 1.8", "harness/fake_eyaml/eyaml (keyed reversible cipher; wrong key => exit 1)",
                         "ruamel.yaml loader used to reload the rewritten file", "harness/rotobs.py position walk"],
    })
    ctx.assumptions += [
        "plaintexts are non-empty ASCII without leading/trailing whitespace and do not themselves begin with ENC[ "
        "(the command protocol strips trailing whitespace; eyamlprocessor encodes as ASCII)",
        "containers are not aliased (a secret inside an aliased hash is reachable by two paths and makes the tool fail: "
        "not a successful run, outside the statement)",
        "one YAML_FILE per invocation; whitespace inside values is spaces and line breaks (what the marker rule names)",
        "runs that exit non-zero (third-party / corrupt tokens, keys the path builder cannot address) are counted as "
        "informational: the statement speaks about successful runs; only the no-secret clause is checked for them"]


def replay(path):
    from harness import rotobs as ro
    with open(path) as fh:
        rp = json.load(fh)["replay"]
    work = os.path.join(core.VERIF, "out", "C19-replay")
    keys = ro.make_keys(os.path.join(work, "keys"))
    obs = ro.run_case(rp["text"], rp["backup"], os.path.join(work, "w"), keys)
    bad = ro.judge(obs, use_executable=True)
    print(rp["text"])
    print("exit status %s%s; rewritten=%s" % (obs["rc"], (" crash " + obs["crash"]) if obs["crash"] else "", obs["rewritten"]))
    print(obs["after_text"])
    for e in obs["events"]:
        print("  ", {k: v for k, v in e.items() if k != "after"})
    for sig, desc in bad:
        print("  %s :: %s" % (sig, desc))
    shutil.rmtree(work, ignore_errors=True)
    print("VIOLATION property=C19 replay=%s" % path if bad else "no violation")
    return 1 if bad else 0
