"""The (document x path) corpus emitted by MC_Query, and a parallel map over it."""
import collections
import multiprocessing as mp
import os

from harness import core


def load_corpus(path):
    docs = collections.OrderedDict()
    for l in core.read_csv_json_lines(path):
        docs.setdefault(l["key"], [l["doc"], []])[1].extend(l["cases"])
    return [(d, cs) for d, cs in docs.values()]


def tlc_corpus(ctx, module, cfgs, timeout=7200):
    """Run the generator model(s); return the list of (doc, cases)."""
    out = []
    for cfg in cfgs:
        f = ctx.path(cfg + ".cases")
        r = core.run_tlc(ctx, module, cfg, env={"CASES_OUT": f}, timeout=timeout)
        if r["violated"]:
            # a design theorem failing stops TLC before the space is enumerated: the corpus would be
            # silently truncated.  That is a defect of the model (or a predicted defect to investigate), never a pass.
            raise core.MachineryError("%s violated in %s (see %s)" % (r["violated"], cfg, r["log"]))
        out.extend(load_corpus(f))
        os.remove(f)
    return out


def stream_corpus(ctx, module, cfgs, batch_lines=20000, timeout=7200):
    """Like tlc_corpus, but memory-bounded: yields lists of (doc, cases) built from `batch_lines` emitted lines at a time
    (a document whose chunks fall into two batches is simply met twice, each time with part of its cases)."""
    import json
    for cfg in cfgs:
        f = ctx.path(cfg + ".cases")
        r = core.run_tlc(ctx, module, cfg, env={"CASES_OUT": f}, timeout=timeout)
        if r["violated"]:
            raise core.MachineryError("%s violated in %s (see %s)" % (r["violated"], cfg, r["log"]))
        docs = collections.OrderedDict()
        n = 0
        with open(f) as fh:
            for line in fh:
                line = line.strip()
                if not line:
                    continue
                v = json.loads(line)
                if isinstance(v, str):
                    v = json.loads(v)
                docs.setdefault(v["key"], [v["doc"], []])[1].extend(v["cases"])
                n += 1
                if n >= batch_lines:
                    yield [(d, cs) for d, cs in docs.values()]
                    docs = collections.OrderedDict()
                    n = 0
        if docs:
            yield [(d, cs) for d, cs in docs.values()]
        os.remove(f)


def _chunks(seq, n):
    for i in range(0, len(seq), n):
        yield seq[i:i + n]


def pmap(fn, items, chunk=20):
    """fn(list_of_items) -> list of results; run over chunks in a process pool, results concatenated."""
    res = []
    with mp.Pool(core.NCPU) as pool:
        for part in pool.imap_unordered(fn, list(_chunks(items, chunk))):
            res.extend(part)
    return res


def variant_of(doc, seed, quick):
    """Concretisation variants to replay: one (seeded) in the quick tier, all four in the thorough tier."""
    allv = [("block", False), ("flow", False), ("block", True), ("flow", True)]
    if any(n["k"] == "set" or any(n.get("kanch") or []) for n in doc):
        # (the same holds for an Alias used as a mapping key: the flow-style dump "*A: 1" does not reload)
        # ruamel.yaml cannot re-serialise a flow-style !!set (independent of yamlpath): block style only
        allv = [("block", False), ("block", True)]
    if not quick:
        return allv
    h = (len(doc) * 7 + sum(len(n["v"]) + len(n["kids"]) for n in doc) + seed) % len(allv)
    return [allv[h]]
