"""Replay of (document, path) cases into Processor.get_nodes / exists, observed as hits."""
from yamlpath import Processor
from yamlpath.exceptions import YAMLPathException
from yamlpath.wrappers import NodeCoords

from harness import absdoc


class Hit:
    """One designated node: the object, the coordinates it came with, and whether it is a member of a virtual result."""
    __slots__ = ("node", "parent", "ref", "nc", "member")

    def __init__(self, node, parent, ref, nc, member):
        self.node, self.parent, self.ref, self.nc, self.member = node, parent, ref, nc, member


def hits_of(loc, nc, out):
    """Expand one yielded NodeCoords into hits; returns True when it was a virtual result."""
    node = nc.node
    if isinstance(node, NodeCoords):
        # a member of a virtual list handed on as data: it designates the wrapped node
        return hits_of(loc, node, out)
    if isinstance(node, list) and not loc.find_identity(node):
        # not a node of the document: a virtual list (slice / collector output)
        for m in node:
            if isinstance(m, NodeCoords):
                if hits_of(loc, m, out):
                    pass
            else:
                out.append(Hit(m, nc.parent, nc.parentref, nc, True))
        return True
    out.append(Hit(node, nc.parent, nc.parentref, nc, False))
    return False


def run_query(data, loc, text, mode, default=None, proc=None):
    """mode: 'must' | 'opt' | 'exists'.

    Returns dict(out = 'ok' | 'unmatched' | 'yperr' | 'crash:<Exc>', hits, n, virt, exists, msg).
    proc: a Processor to reuse (a query's answer must not depend on what the same Processor was asked before).
    """
    if proc is None:
        proc = Processor(absdoc.LOG, data)
    hits = []
    n = 0
    virt = False
    try:
        if mode == "exists":
            return {"out": "ok", "exists": bool(proc.exists(text)), "hits": [], "n": 0, "virt": False}
        kw = {"mustexist": True} if mode == "must" else {"mustexist": False, "default_value": default}
        for nc in proc.get_nodes(text, **kw):
            n += 1
            if hits_of(loc, nc, hits):
                virt = True
        return {"out": "ok", "hits": hits, "n": n, "virt": virt}
    except YAMLPathException as ex:
        unmatched = type(ex).__name__ == "UnmatchedYAMLPathException"
        return {"out": "unmatched" if unmatched and n == 0 else "yperr", "hits": hits, "n": n, "virt": virt,
                "msg": str(ex)[:200]}
    except RecursionError:
        return {"out": "crash:RecursionError", "hits": hits, "n": n, "virt": virt, "msg": "RecursionError"}
    except Exception as ex:  # pylint: disable=broad-except
        import traceback
        tb = traceback.extract_tb(ex.__traceback__)
        where = next((f for f in reversed(tb) if "/yamlpath/" in f.filename), tb[-1])
        return {"out": "crash:" + type(ex).__name__, "hits": hits, "n": n, "virt": virt,
                "msg": "%s: %s @ %s:%d %s" % (type(ex).__name__, ex, where.filename.split("/yamlpath/")[-1],
                                             where.lineno, where.name)}


def same_nodes(loc, hits, ids):
    """C01 projection: the hits are exactly the objects at the expected positions, in that order."""
    return len(hits) == len(ids) and all(loc.holds(i, h.node) for h, i in zip(hits, ids))


def describe(loc, hits):
    out = []
    for h in hits:
        c = loc.find_identity(h.node)
        out.append(c[0] if len(c) == 1 else (c if c else repr(h.node)[:20]))
    return out
