"""Seeded random documents (node tables) and paths (segment records) beyond the exhaustive bounds."""
from harness import absdoc

KEYS = ["a", "b", "c", "name", "id", "k1", "x y", "a.b"]
STRS = ["a", "ab", "b", "x", "zz", "1", "true", "Hello"]


def rand_doc(rng, max_nodes=25, max_depth=4, anchor_names=None, anchor_p=0.1, alias_p=0.15, container_anchor=None):
    """anchor_names: None = at most one anchor "A" (the default corpus); else the pool of names, each defined at most once.
    container_anchor: a name given to one non-root Hash / Array (never aliased), so scalar anchors may live inside an anchored container."""
    doc = _rand_doc(rng, max_nodes, max_depth, anchor_names, anchor_p, alias_p)
    if container_anchor:
        conts = [i for i, n in enumerate(doc) if n["k"] in ("map", "seq") and n["par"] != 0 and n["kids"]]
        if conts:
            doc[rng.choice(conts)]["anchor"] = container_anchor
    return doc


def _rand_doc(rng, max_nodes, max_depth, anchor_names, anchor_p, alias_p):
    doc = []
    budget = [rng.randint(3, max_nodes)]
    anchors = []

    def scalar(par):
        r = rng.random()
        if r < 0.12:
            n = absdoc.node("s", "null", "", par)
        elif r < 0.2:
            n = absdoc.node("s", "bool", rng.choice(["true", "false"]), par)
        elif r < 0.45:
            n = absdoc.node("s", "int", str(rng.choice([0, 1, 2, 3, 10, -1, 42])), par)
        elif r < 0.55:
            n = absdoc.node("s", "float", rng.choice(["1.5", "0.5", "2.0", "-1.5"]), par)
        else:
            n = absdoc.node("s", "str", rng.choice(STRS), par)
        return n

    def add(par, depth, in_set=False):
        budget[0] -= 1
        r = rng.random()
        if in_set or depth >= max_depth or budget[0] <= 0 or r < 0.45:
            if not in_set and anchors and rng.random() < alias_p:
                tgt = rng.choice(anchors)
                n = dict(doc[tgt - 1])
                n.update({"par": par, "alias": tgt, "kids": [], "keys": []})
            else:
                n = scalar(par)
                if in_set:
                    n["t"], n["v"] = "str", rng.choice(STRS)
                elif anchor_names is None and n["t"] == "str" and not anchors and rng.random() < 0.1:   # (ruamel drops the anchor of a 0 / false scalar)
                    n["anchor"] = "A"
                elif anchor_names is not None and n["t"] == "str" and len(anchors) < len(anchor_names) and rng.random() < anchor_p:
                    n["anchor"] = [a for a in anchor_names if a not in {doc[x - 1]["anchor"] for x in anchors}][0]
            doc.append(n)
            if n["anchor"] and not n["alias"]:
                anchors.append(len(doc))
            return len(doc)
        kind = "map" if r < 0.72 else ("seq" if r < 0.95 else "set")
        n = absdoc.node(kind, par=par)
        doc.append(n)
        me = len(doc)
        cnt = rng.randint(0, 4)
        if kind == "map":
            for k in rng.sample(KEYS, min(cnt, len(KEYS))):
                if budget[0] <= 0:
                    break
                if rng.random() < 0.1:
                    kr = {"t": "int", "v": str(rng.randint(0, 3))}
                    if kr in n["keys"]:
                        continue
                else:
                    kr = {"t": "str", "v": k}
                n["keys"].append(kr)
                n["kids"].append(add(me, depth + 1))
        elif kind == "seq":
            aoh = rng.random() < 0.4
            for _ in range(cnt):
                if budget[0] <= 0:
                    break
                n["kids"].append(add(me, depth + 1) if not aoh else add_record(me, depth + 1))
        else:
            seen = set()
            for _ in range(min(cnt, 3)):
                v = rng.choice(STRS)
                if v in seen or budget[0] <= 0:
                    continue
                seen.add(v)
                budget[0] -= 1
                m = absdoc.node("s", "str", v, me)
                doc.append(m)
                n["kids"].append(len(doc))
        return me

    def add_record(par, depth):
        budget[0] -= 1
        n = absdoc.node("map", par=par)
        doc.append(n)
        me = len(doc)
        for k in rng.sample(["name", "id", "a"], rng.randint(0, 3)):
            n["keys"].append({"t": "str", "v": k})
            n["kids"].append(add(me, depth + 1))
        return me

    root_kind = rng.random()
    if root_kind < 0.7:
        doc.append(absdoc.node("map"))
        for k in rng.sample(KEYS, rng.randint(1, 4)):
            doc[0]["keys"].append({"t": "str", "v": k})
            doc[0]["kids"].append(add(1, 1))
    else:
        doc.append(absdoc.node("seq"))
        for _ in range(rng.randint(1, 4)):
            doc[0]["kids"].append(add(1, 1))
    return doc


def seg(ty, v="", inv=False, op="", attr="", term="", kw="", cop=""):
    return {"ty": ty, "v": v, "inv": inv, "op": op, "attr": attr, "term": term, "kw": kw, "cop": cop}


OPS = ["=", "^", "$", "%", "<", ">", "<=", ">=", "=~"]


def rand_path(rng, doc, maxlen=4):
    keys = sorted({k["v"] for n in doc for k in n["keys"]}) or ["a"]
    vals = sorted({n["v"] for n in doc if n["k"] == "s" and n["t"] not in ("null",)}) or ["a"]
    out = []
    for i in range(rng.randint(1, maxlen)):
        r = rng.random()
        if r < 0.4:
            out.append(seg("KEY", rng.choice(keys + ["zz", "0", "-1"])))
        elif r < 0.52:
            out.append(seg("INDEX", str(rng.randint(-4, 4))))
        elif r < 0.58:
            out.append(seg("SLICE", "%d:%d" % (rng.randint(-3, 2), rng.randint(-2, 5))))
        elif r < 0.62:
            out.append(seg("ANCHOR", "A"))
        elif r < 0.82:
            op = rng.choice(OPS)
            term = rng.choice(["^a", "b$", "a.*", "1"]) if op == "=~" else rng.choice(vals + ["a", "1"])
            out.append(seg("SEARCH", inv=rng.random() < 0.3, op=op, attr=rng.choice([".", "."] + keys), term=term))
        elif r < 0.92:
            out.append(seg("MATCH_ALL"))
        elif not out or out[-1]["ty"] != "TRAVERSE":
            out.append(seg("TRAVERSE"))
        else:
            out.append(seg("KEY", rng.choice(keys)))
    return out
