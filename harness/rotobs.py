"""C19 helper: documents holding secrets <-> YAML text <-> the YRotate abstraction, and recorded runs of
the real eyaml-rotate-keys main() against the stand-in eyaml executable (harness/fake_eyaml/eyaml).

Document trees (python literals):
  {"t": "map", "flow": bool, "items": [(key text, node), ...]}      {"t": "seq", "flow": bool, "items": [node, ...]}
  {"t": "plain", "yaml": scalar source text, "anchor": name|""}
  {"t": "secret", "pt": plaintext, "key": "old"|"other"|"none", "form": FORM, "anchor": name|""}
  {"t": "alias", "anchor": name}
FORM: plain | dq | sq | spaced | nl | folded | foldedstrip | literal | plainml | foldedsp | foldednl  (flow containers need dq/sq/spaced/nl)

The abstraction (spec/YRotate.tla): slots[p] = {cont, ct, o}, objs[o] = {head, key, pt, anc, folded}.
"""
import builtins
import contextlib
import importlib.util
import io
import json
import os
import shutil
import sys
from importlib.machinery import SourceFileLoader

from ruamel.yaml.comments import CommentedMap, CommentedSeq
from ruamel.yaml.scalarstring import FoldedScalarString

from harness import absdoc, core

FAKE_DIR = os.path.join(core.VERIF, "harness", "fake_eyaml")
FAKE = os.path.join(FAKE_DIR, "eyaml")


def _load_fake():
    old = sys.dont_write_bytecode
    sys.dont_write_bytecode = True
    try:
        loader = SourceFileLoader("fake_eyaml", FAKE)
        spec = importlib.util.spec_from_loader("fake_eyaml", loader)
        mod = importlib.util.module_from_spec(spec)
        loader.exec_module(mod)
        return mod
    finally:
        sys.dont_write_bytecode = old


fe = _load_fake()
KEYNAMES = ("old", "new", "other")


def key_id(name):
    return "FAKE-EYAML-KEY %s" % name


KEYNAME_OF = {key_id(n): n for n in KEYNAMES}
FLOW_FORMS = ("dq", "sq", "spaced", "nl")
BLOCK_FORMS = ("plain", "dq", "sq", "spaced", "nl", "folded", "foldedstrip", "literal", "plainml", "foldedsp", "foldednl")


def make_keys(directory):
    os.makedirs(directory, exist_ok=True)
    return {n: fe.make_keys(directory, n) for n in KEYNAMES}     # name -> (public path, private path)


def token_for(leaf):
    if leaf["key"] == "none":
        return "ENC[PKCS7,corrupt%s]" % fe.digest(leaf["pt"])[:4]
    return fe.cipher_encrypt(key_id(leaf["key"]), leaf["pt"].encode("ascii"))      # any ASCII text, the empty one too


# --------------------------------------------------------------------------- tree -> YAML text
def _chunks(tok, n=60):
    return [tok[i:i + n] for i in range(0, len(tok), n)]


def _secret_text(leaf, pad):
    """Scalar source text of a secret; continuation lines are indented by `pad`."""
    tok = token_for(leaf)
    form = leaf["form"]
    if form == "plain":
        return tok
    if form == "dq":
        return '"%s"' % tok
    if form == "sq":
        return "'%s'" % tok
    if form == "spaced":
        return '" %s %s %s "' % (tok[:1], tok[1:17], tok[17:])
    if form == "nl":
        return '"\\n%s\\n%s"' % (tok[:4], tok[4:])
    if form in ("folded", "foldedstrip", "literal"):
        ind = {"folded": ">", "foldedstrip": ">-", "literal": "|"}[form]
        return ind + "\n" + "\n".join(pad + c for c in _chunks(tok))
    if form == "foldedsp":       # a folded scalar whose lines hold spaces inside the marker
        parts = _chunks(tok[17:])
        return ">\n" + pad + tok[:1] + " " + tok[1:17] + "".join("\n" + pad + c for c in parts)
    if form == "foldednl":       # a folded scalar with empty lines (line breaks inside the value, also before the marker)
        parts = _chunks(tok[4:])
        return ">\n\n" + pad + tok[:4] + "\n\n" + "\n".join(pad + c for c in parts)
    if form == "plainml":
        parts = _chunks(tok, 40)
        return parts[0] + "".join("\n" + pad + c for c in parts[1:])
    raise ValueError(form)


def _leaf_text(leaf, pad, flow):
    if leaf["t"] == "alias":
        return "*" + leaf["anchor"]
    pre = ("&%s " % leaf["anchor"]) if leaf.get("anchor") else ""
    if leaf["t"] == "plain":
        return pre + leaf["yaml"]
    if flow and leaf["form"] not in FLOW_FORMS:
        raise ValueError("form %s in a flow container" % leaf["form"])
    return pre + _secret_text(leaf, pad)


def _flow(node):
    pre = ("&%s " % node["anchor"]) if node["t"] in ("map", "seq") and node.get("anchor") else ""
    if node["t"] == "map":
        return pre + "{" + ", ".join("%s: %s" % (k, _flow(v)) for k, v in node["items"]) + "}"
    if node["t"] == "seq":
        return pre + "[" + ", ".join(_flow(v) for v in node["items"]) + "]"
    return _leaf_text(node, "", True)


def _block(node, ind, lines):
    pad = "  " * ind
    entries = node["items"] if node["t"] == "map" else [(None, v) for v in node["items"]]
    for k, v in entries:
        lead = pad + ("%s:" % k if node["t"] == "map" else "-")
        if v["t"] in ("map", "seq"):
            if v.get("flow") or not v["items"]:
                lines.append(lead + " " + _flow(v))
            else:
                lines.append(lead + ((" &%s" % v["anchor"]) if v.get("anchor") else ""))
                _block(v, ind + 1, lines)
        else:
            lines.append(lead + " " + _leaf_text(v, pad + "    ", False))


def to_yaml(tree):
    if tree.get("flow") or not tree["items"]:
        return "---\n" + _flow(tree) + "\n"
    lines = ["---"]
    _block(tree, 0, lines)
    return "\n".join(lines) + "\n"


# --------------------------------------------------------------------------- loaded data -> abstraction
def is_marker(v):
    """The statement's (and eyamlprocessor.py:379-395's) recognition of an encrypted value."""
    return isinstance(v, str) and v.replace("\n", "").replace(" ", "").startswith("ENC[")


WS = " \t\n\r\x0b\x0c\x1c\x1d\x1e\x1f"      # what str.rstrip() removes from ASCII text


def trail_class(plain):
    """Shape of a plaintext's end (spec/YRotate.tla objs[].trail)."""
    if plain == "":
        return "empty"
    if plain.strip(WS) == "":
        return "allws"
    return "ws" if plain[-1] in WS else ""


class Tables:
    """Identities of plaintexts / plain values within one invocation.

    After freeze(), a plaintext that is not one of the originals but equals an original without its trailing white
    space gets the NEGATIVE identity of that original (spec/YRotate.tla Taken)."""

    def __init__(self):
        self.ids = {}
        self.stripped = None

    def pt(self, key):
        if self.stripped is not None and key not in self.ids and key[0] == "s" and key[1] in self.stripped:
            return self.stripped[key[1]]
        return self.ids.setdefault(key, len(self.ids) + 1)

    def freeze(self):
        self.stripped = {}
        for key, pid in list(self.ids.items()):
            if key[0] == "s":
                r = key[1].rstrip(WS.encode("ascii"))
                if r != key[1] and ("s", r) not in self.ids:
                    self.stripped.setdefault(r, -pid)

    def decode(self, v):
        """(key class, plaintext identity, plaintext or None) of a scalar value."""
        if is_marker(v):
            for name in KEYNAMES:
                try:
                    plain = fe.cipher_decrypt(key_id(name), str(v))
                    return name, self.pt(("s", plain)), plain.decode("ascii", "replace")
                except fe.CipherError:
                    pass
            return "none", self.pt(("raw", fe.clean_token(str(v)))), None
        return "none", self.pt(("p",) + absdoc.scalar_tv(v)), None


def walk_ext(data):
    """Scalar positions in the order the path generator visits them: list of
    (container object, container id, ct, ref, value, visit number, loc, container anchor).

    A container that is referenced more than once (`copy: *box`) is visited once per reference; loc is the number of
    the first position that designates the same physical place (container, ref)."""
    out = []
    conts = {}
    visits = [0]
    first = {}

    def rec(x, depth):
        if depth > 20:
            raise ValueError("self-referencing container")
        cid = conts.setdefault(id(x), len(conts) + 1)
        visits[0] += 1
        vis = visits[0]
        canc = absdoc.anchor_of(x)
        if isinstance(x, CommentedMap):
            items = [("map", k, v) for k, v in x.items()]
        else:
            items = [("seq", i, v) for i, v in enumerate(x)]
        for ct, ref, v in items:
            if isinstance(v, (CommentedMap, CommentedSeq)):
                rec(v, depth + 1)
            else:
                loc = first.setdefault((cid, ct, ref if ct == "seq" else repr(ref)), len(out) + 1)
                out.append((x, cid, ct, ref, v, vis, loc, canc))

    if isinstance(data, (CommentedMap, CommentedSeq)):
        rec(data, 0)
    return out


def walk(data):
    """As walk_ext, the first five fields only."""
    return [t[:5] for t in walk_ext(data)]


def _classes(positions):
    """Identity class per position = least position holding the same anchored object / the same physical place."""
    first = {}
    cls = []
    for p, (cont, _, ct, ref, v) in enumerate(positions, 1):
        k = ("a", id(v)) if absdoc.anchor_of(v) else ("u", id(cont), ct, ref if ct == "seq" else repr(ref))
        cls.append(first.setdefault(k, p))
    return cls


def view(data, tables):
    pos = walk(data)
    cls = _classes(pos)
    out = []
    for c, (_, _, _, _, v) in zip(cls, pos):
        k, pt, _ = tables.decode(v)
        out.append({"o": c, "key": k, "pt": pt})
    return out


def abstract_rot(data, tables):
    """Loaded data -> ({"slots", "objs"}, per-slot info list)."""
    ext = walk_ext(data)
    pos = [t[:5] for t in ext]
    cls = _classes(pos)
    objs = []
    obj_of_class = {}
    slots = []
    info = []
    for p, (c, (_, cid, ct, ref, v, vis, loc, canc)) in enumerate(zip(cls, ext), 1):
        if c not in obj_of_class:
            k, pt, plain = tables.decode(v)
            head = (v if isinstance(v, str) else absdoc.scalar_tv(v)[1])[:16]
            objs.append({"head": str(head), "key": k, "pt": pt, "anc": absdoc.anchor_of(v),
                         "folded": isinstance(v, FoldedScalarString),
                         "trail": trail_class(plain) if plain is not None else ""})
            obj_of_class[c] = len(objs)
        o = obj_of_class[c]
        slots.append({"cont": cid, "ct": ct, "o": o, "vis": vis, "loc": loc, "canc": canc})
        k, pt, plain = tables.decode(v)
        info.append({"pos": p, "cont": cid, "ct": ct, "ref": str(ref), "secret": is_marker(v), "key": k, "pt": pt,
                     "plain": plain, "cls": c, "anchor": absdoc.anchor_of(v), "loc": loc, "canc": canc})
    return {"slots": slots, "objs": objs}, info


def frame_table(data, drop_unreferenced=False):
    """absdoc node table with the text of marker-recognised values masked (the non-secret frame + anchors).

    drop_unreferenced: erase the anchor of every Hash/Array that nothing refers to (used to NAME one deviation)."""
    doc = absdoc.abstract(data)
    refs = {}            # anchor name of a Hash/Array -> number of places that hold that very object
    seen = set()

    def rec(x):
        for v in (x.values() if isinstance(x, CommentedMap) else x):
            if isinstance(v, (CommentedMap, CommentedSeq)):
                a = absdoc.anchor_of(v)
                if a:
                    refs[a] = refs.get(a, 0) + 1
                if id(v) not in seen:
                    seen.add(id(v))
                    rec(v)

    if isinstance(data, (CommentedMap, CommentedSeq)):
        rec(data)
    for n in doc:
        if n["k"] == "s" and n["t"] == "str" and is_marker(n["v"]):
            n["v"] = "<secret>"
        if drop_unreferenced and n["k"] != "s" and n["anchor"] and refs.get(n["anchor"], 0) <= 1:
            n["anchor"] = ""
    return doc


# --------------------------------------------------------------------------- recording wrappers
class Recorder:
    def __init__(self, logpath, tables, names):
        self.logpath = logpath
        self.tables = tables
        self.names = names            # basenames of the YAML files in argv order
        self.depth = 0
        self.slotmap = None

    def log(self, rec):
        with open(self.logpath, "a") as fh:
            fh.write(json.dumps(rec) + "\n")

    def index(self, data):
        self.slotmap = {}
        for p, (cont, _, ct, ref, _) in enumerate(walk(data), 1):
            self.slotmap.setdefault((id(cont), ct, ref if ct == "seq" else repr(ref)), p)     # = loc

    def locate(self, nc):
        par = nc.parent
        if isinstance(par, CommentedMap):
            return self.slotmap.get((id(par), "map", repr(nc.parentref)), 0)
        if isinstance(par, CommentedSeq):
            return self.slotmap.get((id(par), "seq", nc.parentref), 0)
        return 0


def _install(rk, rec):
    """Replace names in the command module's namespace by recording versions; returns an undo function."""
    base = rk.EYAMLProcessor
    base_parsers = rk.Parsers
    real_copy2 = rk.copy2

    class RecordingProcessor(base):
        def find_eyaml_paths(self):
            rec.index(self.data)
            for p in super().find_eyaml_paths():
                rec.log({"op": "Find", "path": str(p)})
                yield p

        def get_nodes(self, yaml_path, **kwargs):
            for nc in super().get_nodes(yaml_path, **kwargs):
                if rec.depth == 0:
                    rec.log({"op": "Node", "pos": rec.locate(nc), "anc": absdoc.anchor_of(nc.node)})
                yield nc

        def set_eyaml_value(self, *args, **kwargs):
            rec.depth += 1
            try:
                super().set_eyaml_value(*args, **kwargs)
            finally:
                rec.depth -= 1
            rec.log({"op": "Store", "after": view(self.data, rec.tables)})

    class RecordingParsers(base_parsers):
        @staticmethod
        def get_yaml_data(parser, logger, source, **kwargs):
            name = os.path.basename(str(source))
            rec.log({"op": "NextFile", "fi": rec.names.index(name) + 1 if name in rec.names else 0})
            return base_parsers.get_yaml_data(parser, logger, source, **kwargs)

    def copy2(src, dst, *a, **k):
        rec.log({"op": "Backup", "src": os.path.basename(str(src)), "dst": os.path.basename(str(dst))})
        return real_copy2(src, dst, *a, **k)

    def open_(file, mode="r", *a, **k):
        if "w" in mode or "a" in mode or "+" in mode:
            rec.log({"op": "Write", "file": os.path.basename(str(file))})
        return builtins.open(file, mode, *a, **k)

    rk.EYAMLProcessor = RecordingProcessor
    rk.Parsers = RecordingParsers
    rk.copy2 = copy2
    rk.open = open_

    def undo():
        rk.EYAMLProcessor = base
        rk.Parsers = base_parsers
        rk.copy2 = real_copy2
        del rk.open
    return undo


def _events(loglines, tables, ctmap, ptd):
    """Merged log -> YRotate event records (exact field sets of spec/YRotate.tla Expect)."""
    ev = []
    raw = []
    for r in loglines:
        op = r["op"]
        if op == "NextFile":
            ev.append({"e": "NextFile", "fi": r["fi"]})
        elif op == "Find":
            ev.append({"e": "Find"})
        elif op == "Node":
            ev.append({"e": "Node", "pos": r["pos"], "anc": r["anc"]})
        elif op == "Store":
            ev.append({"e": "Store", "after": r["after"]})
        elif op == "Backup":
            ev.append({"e": "Backup"})
        elif op == "Write":
            ev.append({"e": "Write"})
        elif op == "decrypt":
            ct = ctmap.get(r["ct"], ("?", -1))
            ev.append({"e": "Decrypt", "key": KEYNAME_OF.get(r["key"], "?"), "ct": {"key": ct[0], "pt": ct[1]},
                       "ok": bool(r["ok"]), "pt": ptd.get(r["pt"], 0) if r["ok"] else 0})
        elif op == "encrypt":
            ev.append({"e": "Encrypt", "key": KEYNAME_OF.get(r["key"], "?"), "pt": ptd.get(r["pt"], 0),
                       "fmt": r["output"], "ok": bool(r["ok"])})
        else:
            ev.append({"e": "Other:" + str(op)})
        raw.append({k: r[k] for k in r if k not in ("argv", "after", "pid")})
    return ev, raw


def run_case(texts, backup, work, keys, eyaml_arg=None):
    """Run the real eyaml-rotate-keys main() ONCE on the files `texts` (a str = one file).

    Returns {"backup", "rc", "crash", "events", "rawlog", "stray", "keys", "files": [per file: text, doc, info,
    rewritten, touched, after_text, bak_ok, view, filecheck, reload_error, frame_ok, after_info]}."""
    from yamlpath.commands import eyaml_rotate_keys as rk
    if isinstance(texts, str):
        texts = [texts]
    shutil.rmtree(work, ignore_errors=True)
    os.makedirs(work)
    past = 1_500_000_000_000_000_000
    logpath = os.path.join(work, "eyaml.log")
    open(logpath, "w").close()
    tables = Tables()
    files = []
    for k, text in enumerate(texts, 1):
        path = os.path.join(work, "doc%d.yaml" % k)
        with open(path, "w", newline="") as fh:
            fh.write(text)
        os.utime(path, ns=(past, past))
        data0 = absdoc.load(text)
        doc, info = abstract_rot(data0, tables)
        files.append({"text": text, "path": path, "data0": data0, "doc": doc, "info": info,
                      "mtime": os.stat(path).st_mtime_ns})
    tables.freeze()
    # digests -> identities: plaintext digests as the stand-in logs them; token digests per (plaintext, key)
    ptd, ctmap = {}, {}
    for (kind, *rest), pid in list(tables.ids.items()):
        if kind == "s":
            ptd[fe.digest(rest[0])] = pid
            for n in KEYNAMES:
                ctmap[fe.digest(fe.cipher_encrypt(key_id(n), rest[0]))] = (n, pid)
        elif kind == "raw":
            ctmap[fe.digest(rest[0])] = ("none", pid)
    for plain, neg in tables.stripped.items():
        ptd.setdefault(fe.digest(plain), neg)
    argv = ["eyaml-rotate-keys", "--oldprivatekey=" + keys["old"][1], "--oldpublickey=" + keys["old"][0],
            "--newprivatekey=" + keys["new"][1], "--newpublickey=" + keys["new"][0]]
    if backup:
        argv.append("--backup")
    if eyaml_arg:
        argv.append("--eyaml=" + eyaml_arg)
    argv += [f["path"] for f in files]
    rec = Recorder(logpath, tables, [os.path.basename(f["path"]) for f in files])
    undo = _install(rk, rec)
    old_argv, old_path, old_log = sys.argv, os.environ.get("PATH", ""), os.environ.get("FAKE_EYAML_LOG")
    sys.argv = argv
    os.environ["PATH"] = FAKE_DIR + os.pathsep + old_path
    os.environ["FAKE_EYAML_LOG"] = logpath
    out, err = io.StringIO(), io.StringIO()
    crash = ""
    rc = 0
    sys.stderr.flush()
    saved_fd2 = os.dup(2)             # the stand-in's own stderr (a child process) is silenced at fd level
    devnull = os.open(os.devnull, os.O_WRONLY)
    os.dup2(devnull, 2)
    try:
        with contextlib.redirect_stdout(out), contextlib.redirect_stderr(err):
            try:
                rk.main()
            except SystemExit as ex:
                rc = ex.code if isinstance(ex.code, int) else (0 if ex.code is None else 1)
            except Exception as ex:       # a crash is a failed run (not this property's business), recorded
                crash = "%s: %s" % (type(ex).__name__, ex)
                rc = 70
    finally:
        os.dup2(saved_fd2, 2)
        os.close(saved_fd2)
        os.close(devnull)
        undo()
        sys.argv = old_argv
        os.environ["PATH"] = old_path
        if old_log is None:
            os.environ.pop("FAKE_EYAML_LOG", None)
        else:
            os.environ["FAKE_EYAML_LOG"] = old_log
    with open(logpath) as fh:
        loglines = [json.loads(line) for line in fh if line.strip()]
    events, rawlog = _events(loglines, tables, ctmap, ptd)
    events.append({"e": "Exit", "status": rc})
    expected_names = {"eyaml.log"}
    for f in files:
        path = f["path"]
        expected_names |= {os.path.basename(path), os.path.basename(path) + ".bak"}
        with open(path, "rb") as fh:
            after_bytes = fh.read()
        f["rewritten"] = after_bytes != f["text"].encode("utf-8") or os.stat(path).st_mtime_ns != f["mtime"]
        f["bak_ok"] = None
        if os.path.exists(path + ".bak"):
            with open(path + ".bak", "rb") as fh:
                f["bak_ok"] = fh.read() == f["text"].encode("utf-8")
        f["touched"] = f["rewritten"] or f["bak_ok"] is not None
        f.update({"after_text": after_bytes.decode("utf-8", "replace") if f["rewritten"] else "", "view": [],
                  "reload_error": "", "frame_ok": None, "frame_ok_but_unreferenced_container_anchors": None,
                  "after_info": []})
        if f["rewritten"]:
            noise = io.StringIO()
            try:
                with contextlib.redirect_stdout(noise), contextlib.redirect_stderr(noise):
                    data1 = absdoc.load(f["after_text"])
                f["view"] = view(data1, tables)
                _, f["after_info"] = abstract_rot(data1, tables)
                f["frame_ok"] = absdoc.same_table(frame_table(f["data0"]), frame_table(data1), anchors=True)
                f["frame_ok_but_unreferenced_container_anchors"] = f["frame_ok"] or absdoc.same_table(
                    frame_table(f["data0"], True), frame_table(data1, True), anchors=True)
            except Exception as ex:
                msg = " ".join(noise.getvalue().split())
                f["reload_error"] = "%s: %s" % (type(ex).__name__, msg[:160] or str(ex)[:160])
        f["filecheck"] = bool(f["rewritten"] and not f["reload_error"])
        del f["data0"], f["mtime"]
    stray = sorted(set(os.listdir(work)) - expected_names)
    return {"backup": bool(backup), "rc": rc, "crash": crash, "stderr": err.getvalue()[-400:], "events": events,
            "rawlog": rawlog, "files": files, "stray": stray, "keys": keys}


def standin_decrypt(value, keypair):
    """Decrypt through the stand-in *executable* (the protocol): (status, exactly the plaintext it printed)."""
    import subprocess
    env = dict(os.environ)
    env.pop("FAKE_EYAML_LOG", None)
    p = subprocess.run([FAKE, "decrypt", "--quiet", "--stdin", "--pkcs7-public-key=" + keypair[0],
                        "--pkcs7-private-key=" + keypair[1]], input=str(value).encode("ascii"),
                       stdout=subprocess.PIPE, stderr=subprocess.PIPE, env=env)
    out = p.stdout.decode("ascii")
    return p.returncode, out[:-1] if out.endswith("\n") else out       # the protocol appends exactly one line break


# --------------------------------------------------------------------------- the projection (verdict)
def slot_class(info, i):
    """Input class of position i (0-based) for signatures: single|anchor|alias - in - map|seq [- same|foreign]."""
    me = info[i]
    ct = ("anchored-" if me.get("canc") else "") + me["ct"]
    if me.get("loc", me["pos"]) != me["pos"]:
        return "revisited-in-aliased-%s" % me["ct"]
    group = [x for x in info if x["cls"] == me["cls"] and x.get("loc", x["pos"]) == x["pos"]]
    if len(group) == 1:
        return "%s-in-%s" % ("anchored-single" if me["anchor"] else "single", ct)
    first = group[0]
    if me is first:
        return "anchor-in-%s" % ct
    return "alias-in-%s-%s" % ("same" if me["cont"] == first["cont"] else "foreign", ct)


def _segments(events):
    """Events of each file: the stretch from its NextFile to the next one."""
    seg = {}
    cur = None
    for e in events:
        if e["e"] == "NextFile":
            cur = e["fi"]
            seg.setdefault(cur, [])
        elif cur is not None:
            seg[cur].append(e)
    return seg


def judge(obs, use_executable=False):
    """Compare the observable outcome with the C19 statement, file by file.

    Returns (violations [(signature, description)], informational notes [str])."""
    bad, notes = [], []
    nfiles = len(obs["files"])
    seg = _segments(obs["events"])
    if obs["stray"]:
        bad.append(("rotate:stray-file", "unexpected files appeared next to the YAML files: %s" % obs["stray"]))
    for k, f in enumerate(obs["files"], 1):
        tag = "" if nfiles == 1 else ("@first-file" if k == 1 else "@later-file")
        fname = "file %d of %d: " % (k, nfiles)
        info = f["info"]
        secrets = [i for i, x in enumerate(info) if x["secret"]]
        mine = seg.get(k, [])
        if not secrets:
            if f["touched"]:
                bad.append(("rotate:no-secret-file-touched" + tag, fname + "a file holding no ENC[ value was rewritten or backed up"))
            if any(e["e"] in ("Decrypt", "Encrypt") for e in mine):
                bad.append(("rotate:no-secret-command-run" + tag, fname + "the external command was run for a file holding no ENC[ value"))
            continue
        if obs["rc"] != 0:
            continue                     # the statement speaks about successful runs only
        if not f["rewritten"]:
            bad.append(("rotate:not-rewritten" + tag, fname + "exit 0, %d encrypted value(s), but the file was not rewritten" % len(secrets)))
            continue
        if f["reload_error"]:
            # name the input class from the last in-memory document the tool held (the final Store's view)
            last = next((e["after"] for e in reversed(mine) if e["e"] == "Store"), [])
            left = sorted({slot_class(info, i) for i in secrets if i < len(last) and last[i]["key"] == "old"})
            bad.append(("rotate:unreadable-result:" + ("+".join(left) or "other") + tag,
                        fname + "exit 0 but the rewritten file does not load with yamlpath's own loader (%s); value(s) left "
                        "under the old keys in memory: %s" % (f["reload_error"], left)))
            continue
        after = f["after_info"]
        if len(after) != len(info):
            bad.append(("rotate:frame:positions" + tag, fname + "the rewritten file has %d scalar positions, the original %d" % (len(after), len(info))))
            continue
        vals1 = [v for (_, _, _, _, v) in walk(absdoc.load(f["after_text"]))]
        for i in secrets:
            v = vals1[i]
            cls = slot_class(info, i)
            where = fname + "position %d (%s, container %d ref %s)" % (i + 1, cls, info[i]["cont"], info[i]["ref"])
            if not is_marker(v):
                bad.append(("rotate:not-encrypted:" + cls + tag, where + " no longer holds an ENC[ value: %r" % str(v)[:40]))
                continue
            if use_executable:
                rc_new, pt_new = standin_decrypt(v, obs["keys"]["new"])
                rc_old, _ = standin_decrypt(v, obs["keys"]["old"])
                new_ok, old_ok = rc_new == 0, rc_old == 0
            else:
                new_ok = after[i]["key"] == "new"
                old_ok = after[i]["key"] == "old"
                pt_new = after[i]["plain"] if new_ok else None
            if info[i]["key"] != "old":
                continue                 # was not decryptable under the old keys: the statement does not cover it
            was = info[i]["plain"]
            if old_ok:
                bad.append(("rotate:still-old:" + cls + tag, where + " still decrypts under the OLD keys after a successful run"))
            elif not new_ok:
                bad.append(("rotate:not-new:" + cls + tag, where + " does not decrypt under the new keys"))
            elif pt_new != was:
                if was[-1:] in ("\n", "\r"):
                    # the command protocol ends the plaintext with a line break of its own (the real eyaml prints with
                    # `puts`): a plaintext that itself ends in a line break cannot be told apart - not judged
                    notes.append("plaintext ending in a line break changed: %r -> %r" % (was, pt_new))
                elif pt_new == was.rstrip(WS):
                    kind = {" ": "space", "\t": "tab"}.get(was[-1], "other")
                    bad.append(("rotate:plaintext:trailing-whitespace-lost:" + kind,
                                where + " decrypts to %r, was %r (white space at the end of the plaintext lost)" % (pt_new, was)))
                elif pt_new in (was.lstrip(WS), was.strip(WS)):
                    bad.append(("rotate:plaintext:leading-whitespace-lost",
                                where + " decrypts to %r, was %r (white space at the start of the plaintext lost)" % (pt_new, was)))
                else:
                    bad.append(("rotate:plaintext:" + cls + tag, where + " decrypts to %r, was %r" % (pt_new, was)))
        # sharing: same partition of positions into shared values
        for i in secrets:
            if after[i]["cls"] != info[i]["cls"]:
                bad.append(("rotate:sharing:" + slot_class(info, i) + tag,
                            fname + "position %d shared its value with position %d, now with %d" % (i + 1, info[i]["cls"], after[i]["cls"])))
        # rotated once: successful decrypt runs per plaintext = number of distinct old-key cells holding it in this
        # file, and every decryption is followed by exactly one encryption
        cells = {}
        for i in secrets:
            if info[i]["key"] == "old":
                cells.setdefault(info[i]["pt"], set()).add(info[i]["cls"])
        ndec = {}
        for e in mine:
            if e["e"] == "Decrypt" and e["ok"]:
                ndec[e["pt"]] = ndec.get(e["pt"], 0) + 1
        nenc = sum(1 for e in mine if e["e"] == "Encrypt" and e["ok"])
        for pt, cs in sorted(cells.items()):
            if ndec.get(pt, 0) != len(cs):
                kinds = sorted({slot_class(info, i) for i in secrets if info[i]["pt"] == pt})
                bad.append(("rotate:not-once:" + "+".join(kinds) + tag,
                            fname + "plaintext #%d is held by %d value(s) but was decrypted %d time(s)" % (pt, len(cs), ndec.get(pt, 0))))
        if nenc != sum(ndec.values()):
            bad.append(("rotate:not-once:encryptions" + tag, fname + "%d decryptions but %d encryptions" % (sum(ndec.values()), nenc)))
        if f["frame_ok"] is False:
            if f["frame_ok_but_unreferenced_container_anchors"]:
                bad.append(("rotate:frame:unreferenced-container-anchor-dropped",
                            fname + "the anchor of a Hash/Array that no alias refers to is gone from the rewritten file"))
            else:
                bad.append(("rotate:frame:changed" + tag, fname + "a non-encrypted key, value, ordering or anchor differs after the run"))
    return bad, notes
