"""C17 observation layer: run the real main() of yaml-set / yaml-merge / eyaml-rotate-keys
in-process in a scratch directory with recording (and fault-injecting) wrappers installed in
the command modules' own namespaces.  No source change: only module attributes are replaced
for the duration of one run.

Every intercepted I/O call appends one event
    {"op", "role" in {target, backup, output, tmp, other}, "res" in {ok, fail, true, false, assert},
     "eff" in {-, none, empty, partial}, "post": {target, backup, output -> model fs value}}
(post = the directory classified right after the call); the run ends with an "exit" event.
A fault {"k", "kind" in {fail, assert}, "eff"} makes the k-th intercepted call raise OSError
(ENOSPC) - or AssertionError for the dump call - after leaving `eff` behind in the file being
written.  Byte-level facts (what the verdict is about) are computed independently of the
model vocabulary: equality of file bytes with the pre-image, directory listing.
"""
import builtins
import errno
import importlib.machinery
import io
import json as _json
import os
import re
import shutil
import sys
import tempfile as _tempfile

HERE = os.path.dirname(os.path.abspath(__file__))
FAKE_DIR = os.path.join(HERE, "fake_eyaml")
FAKE_EYAML = os.path.join(FAKE_DIR, "eyaml")

STALE_BAK = b"# stale backup left by an earlier run\nold: true\n"
STALE_OUT = b"# existing output file\nkeep: me\n"
ROLES = ("target", "backup", "output")

_fake = None


def fake_eyaml():
    """The stand-in eyaml as a module (cipher_encrypt, make_keys)."""
    global _fake
    if _fake is None:
        if not os.access(FAKE_EYAML, os.X_OK):
            raise RuntimeError("stand-in eyaml missing: " + FAKE_EYAML)
        loader = importlib.machinery.SourceFileLoader("fake_eyaml_mod", FAKE_EYAML)
        import types
        mod = types.ModuleType(loader.name)
        loader.exec_module(mod)
        _fake = mod
    return _fake


def key_id(name):
    return "FAKE-EYAML-KEY %s" % name


class Tty(io.StringIO):
    def isatty(self):
        return True


class FileProxy:
    """A file object handed to the tool; close() is an intercepted I/O call."""

    def __init__(self, fobj, rec, role):
        object.__setattr__(self, "_f", fobj)
        object.__setattr__(self, "_rec", rec)
        object.__setattr__(self, "_role", role)
        object.__setattr__(self, "_done", False)

    def __getattr__(self, name):
        return getattr(self._f, name)

    def __iter__(self):
        return iter(self._f)

    def __enter__(self):
        return self

    def __exit__(self, *exc):
        self.close()
        return False

    def close(self):
        if self._done:
            return
        object.__setattr__(self, "_done", True)
        self._rec.call("close", self._role, self._f.close, cleanup=self._f.close)


def unwrap(f):
    return f._f if isinstance(f, FileProxy) else f


class Recorder:
    def __init__(self, paths, pre, new, fault):
        self.paths = {r: os.path.abspath(p) for r, p in paths.items()}
        self.pre = pre
        self.new = new
        self.fault = fault
        self.fired = False
        self.n = 0
        self.events = []
        self.facts = []          # per event: byte-level facts (target intact, backup intact, output kept)

    # ---- classification of the directory into the model's values
    def role_of(self, path):
        try:
            ap = os.path.abspath(os.fspath(path))
        except TypeError:
            return "other"
        for r, p in self.paths.items():
            if ap == p:
                return r
        return "other"

    def read(self, role):
        p = self.paths[role]
        if not os.path.lexists(p):
            return None
        with builtins.open(p, "rb") as fh:
            return fh.read()

    def aliased(self):
        """The .bak is another name (symbolic or hard link) of the file the target path reads."""
        t, b = self.paths["target"], self.paths["backup"]
        try:
            return os.path.lexists(b) and os.path.exists(t) and os.path.exists(b) and os.path.samefile(t, b)
        except OSError:
            return False

    def classify(self):
        out = {}
        for r in ROLES:
            try:
                b = self.read(r)
            except OSError:
                b = b"\x00unreadable"
            if b is None:
                out[r] = "absent"
            elif r == "backup" and self.aliased():
                out[r] = "ALIAS"
            elif b == self.pre and r != "output":
                out[r] = "ORIG"
            elif (r == "backup" and b == STALE_BAK) or (r == "output" and b == STALE_OUT):
                out[r] = "STALE"
            elif b == b"":
                out[r] = "EMPTY"
            elif self.new is None or b == self.new:
                out[r] = "NEW"
            else:
                out[r] = "PARTIAL"
        return out

    def event(self, op, role, res, eff):
        self.events.append({"op": op, "role": role, "res": res, "eff": eff, "post": self.classify()})
        alias = self.aliased()
        self.facts.append({"t": self.read("target") == self.pre, "b": self.read("backup") == self.pre and not alias,
                           "o": self.read("output"), "alias": alias})

    # ---- one intercepted call
    def call(self, op, role, real, effect=None, cleanup=None):
        self.n += 1
        f = self.fault
        if f and f["k"] == self.n and not self.fired:
            self.fired = True
            if cleanup:
                cleanup()
            eff = f.get("eff", "none")
            if effect:
                effect(eff)
            elif eff != "none":
                raise RuntimeError("fault effect %s not applicable to %s" % (eff, op))
            if f.get("kind") == "assert":
                self.event(op, role, "assert", eff)
                raise AssertionError("injected assertion at call %d (%s %s)" % (self.n, op, role))
            self.event(op, role, "fail", eff)
            raise OSError(errno.ENOSPC, "injected fault at call %d (%s %s)" % (self.n, op, role))
        before = self.read(role) if role in ROLES else None
        try:
            r = real()
        except Exception:                 # a genuine failure of the call: record what it left behind
            after = self.read(role) if role in ROLES else None
            eff = "none" if after == before else ("empty" if after == b"" else "partial")
            self.fired = True
            self.event(op, role, "fail", eff)
            raise
        res = ("true" if r else "false") if op == "exists" else "ok"
        self.event(op, role, res, "-")
        return r


def _mode_op(mode):
    m = mode.replace("t", "")
    return {"r": "open_r", "rb": "open_rb", "w": "open_w", "wb": "open_wb"}.get(m, "open_" + m)


def install(mod, rec):
    """Replace the I/O names in a command module's namespace; returns an undo function."""
    import yamlpath.common.parsers as parsers_mod
    from yamlpath.common import Parsers as RealParsers
    saved = []
    missing = object()

    def setn(m, name, val):
        saved.append((m, name, m.__dict__.get(name, missing)))
        setattr(m, name, val)

    def w_open(file, mode="r", *a, **k):
        role = rec.role_of(file)
        fobj = rec.call(_mode_op(mode), role, lambda: builtins.open(file, mode, *a, **k))
        return FileProxy(fobj, rec, role)

    def w_open_load(file, mode="r", *a, **k):      # yamlpath.common.parsers: loading an input file
        role = rec.role_of(file)
        return rec.call(_mode_op(mode), role, lambda: builtins.open(file, mode, *a, **k))

    def w_exists(path):
        return rec.call("exists", rec.role_of(path), lambda: os.path.exists(path))

    def w_remove(path):
        return rec.call("remove", rec.role_of(path), lambda: os.remove(path))

    def w_copy2(src, dst, *a, **k):
        def effect(eff):
            if eff == "none":
                return
            with builtins.open(src, "rb") as fh:
                data = fh.read()
            with builtins.open(dst, "wb") as fh:
                if eff == "partial":
                    fh.write(data[:max(1, len(data) // 2)])
                elif eff == "full":
                    fh.write(data)
        return rec.call("copy2", rec.role_of(dst), lambda: shutil.copy2(src, dst, *a, **k), effect=effect)

    def w_copyfileobj(src, dst, *a, **k):
        role = dst._role if isinstance(dst, FileProxy) else "other"

        def real():
            shutil.copyfileobj(unwrap(src), unwrap(dst), *a, **k)
            unwrap(dst).flush()        # observation aid: make the copied bytes visible to classify()
        return rec.call("copyfileobj", role, real)

    class TempfileProxy:
        def __getattr__(self, name):
            return getattr(_tempfile, name)

        @staticmethod
        def TemporaryFile(*a, **k):
            fobj = rec.call("tmpfile", "tmp", lambda: _tempfile.TemporaryFile(*a, **k))
            return FileProxy(fobj, rec, "tmp")

    def wrap_dump(real_dump, render):
        def w_dump(data, stream=None, *a, **k):
            if not isinstance(stream, FileProxy):
                return real_dump(data, stream, *a, **k)
            raw = stream._f

            def real():
                try:
                    real_dump(data, raw, *a, **k)
                finally:
                    raw.flush()        # observation aid (the bytes reach the file at close() anyway)

            def effect(eff):
                # dump-partial: the emitter delivered a strict prefix of the new document and then failed.
                #   "partial":  the prefix is already in the file (flushed);
                #   "buffered": the prefix still sits in the handle's buffer - nothing is flushed here, it reaches the
                #               file whenever the tool (or the unwinding with-block) closes THIS handle.
                if eff in ("partial", "full", "buffered"):
                    text = render(data, *a, **k)
                    cut = (rec.fault or {}).get("cut", "half")
                    n = {"one": 1, "third": len(text) // 3, "half": len(text) // 2, "most": len(text) - 1}[cut]
                    n = max(1, min(n, len(text) - 1))
                    if eff == "buffered":
                        n = min(n, 4000)        # stays below the io buffer size: nothing reaches the file yet
                    raw.write(text if eff == "full" else text[:n])
                    if eff != "buffered":
                        raw.flush()
            return rec.call("dump", stream._role, real, effect=effect)
        return w_dump

    def render_with(real_dump):
        def render(data, *a, **k):
            buf = io.StringIO()
            real_dump(data, buf, *a, **k)
            return buf.getvalue()
        return render

    class ParsersProxy(RealParsers):
        @staticmethod
        def get_yaml_editor(*a, **k):
            y = RealParsers.get_yaml_editor(*a, **k)
            y.dump = wrap_dump(y.dump, render_with(y.dump))
            y.dump_all = wrap_dump(y.dump_all, render_with(y.dump_all))
            return y

    class JsonProxy:
        def __getattr__(self, name):
            return getattr(_json, name)

        dump = staticmethod(wrap_dump(_json.dump, render_with(_json.dump)))

    setn(mod, "open", w_open)
    setn(parsers_mod, "open", w_open_load)
    for name, val in (("exists", w_exists), ("remove", w_remove), ("copy2", w_copy2),
                      ("copyfileobj", w_copyfileobj), ("tempfile", TempfileProxy()),
                      ("Parsers", ParsersProxy), ("json", JsonProxy())):
        if name in mod.__dict__:
            setn(mod, name, val)

    def undo():
        for m, name, old in reversed(saved):
            if old is missing:
                delattr(m, name)
            else:
                setattr(m, name, old)
    return undo


def tool_module(tool):
    from yamlpath.commands import yaml_set, yaml_merge, eyaml_rotate_keys
    return {"set": yaml_set, "merge_out": yaml_merge, "merge_ow": yaml_merge, "rotate": eyaml_rotate_keys}[tool]


def run_main(mod, argv, rec):
    """Run mod.main() with argv; returns (status, stdout, stderr); status 0 / int / 'crash:<Type>'."""
    import yamlpath.common.parsers as parsers_mod
    undo = install(mod, rec) if rec is not None else (lambda: None)
    old = (sys.argv, sys.stdin, sys.stdout, sys.stderr, parsers_mod.stdin)
    out, err = io.StringIO(), io.StringIO()
    sys.argv = list(argv)
    sys.stdin = Tty("")
    parsers_mod.stdin = sys.stdin
    sys.stdout, sys.stderr = out, err
    try:
        try:
            mod.main()
            status = 0
        except SystemExit as ex:
            status = ex.code if ex.code is not None else 0
            if not isinstance(status, int):
                status = 1
        except BaseException as ex:      # uncaught exception = the interpreter would exit 1 with a traceback
            status = "crash:%s" % type(ex).__name__
            err.write("%s: %s\n" % (type(ex).__name__, ex))
    finally:
        sys.argv, sys.stdin, sys.stdout, sys.stderr, parsers_mod.stdin = old
        undo()
    return status, out.getvalue(), err.getvalue()


# ---------------------------------------------------------------------------------------------
# scenarios

def setup_dir(d, sc):
    """Create the scratch directory of a scenario; returns (paths by role, pre-image bytes, argv)."""
    os.makedirs(d)
    for name, text in sc["files"].items():
        with builtins.open(os.path.join(d, name), "wb") as fh:
            fh.write(text.encode("utf-8"))
    target = os.path.join(d, sc["target"])
    if sc.get("link"):
        # file kind: the target path is a symbolic link (absolute or relative) to a regular file kept elsewhere
        os.makedirs(os.path.join(d, "store"))
        os.rename(target, os.path.join(d, "store", sc["target"]))
        os.symlink(os.path.join(d, "store", sc["target"]) if sc["link"] == "abs" else os.path.join("store", sc["target"]),
                   target)
    paths = {"target": target, "backup": target + ".bak",
             "output": os.path.join(d, sc.get("output") or "out.yaml")}
    o = sc["o"]
    if o["stale"]:
        with builtins.open(paths["backup"], "wb") as fh:
            fh.write(STALE_BAK)
    if o["outx"]:
        with builtins.open(paths["output"], "wb") as fh:
            fh.write(STALE_OUT)
    if sc["tool"] == "rotate":
        fk = fake_eyaml()
        fk.make_keys(d, "old")
        fk.make_keys(d, "new")
    with builtins.open(target, "rb") as fh:
        pre = fh.read()
    argv = [a.replace("{d}", d) for a in sc["argv"]]
    return paths, pre, argv


def snapshot(d):
    """name -> bytes read through that name (None for directories and dangling links); store/ is listed as store/<name>."""
    out = {}
    names = sorted(os.listdir(d))
    if os.path.isdir(os.path.join(d, "store")):
        names += ["store/" + n for n in sorted(os.listdir(os.path.join(d, "store")))]
    for name in names:
        p = os.path.join(d, name)
        if os.path.isfile(p):
            with builtins.open(p, "rb") as fh:
                out[name] = fh.read()
        else:
            out[name] = None
    return out


def run_scenario(sc, fault, new, scratch):
    """One run of the real tool.  Returns the recorded trace and the byte-level facts."""
    d = os.path.join(scratch, "run")
    shutil.rmtree(d, ignore_errors=True)
    paths, pre, argv = setup_dir(d, sc)
    before = snapshot(d)
    rec = Recorder(paths, pre, new, fault)
    env_path = os.environ.get("PATH", "")
    os.environ["PATH"] = FAKE_DIR + os.pathsep + env_path
    try:
        status, out, err = run_main(tool_module(sc["tool"]), argv, rec)
    finally:
        os.environ["PATH"] = env_path
    after = snapshot(d)
    fs = rec.classify()
    code = "ok" if status == 0 else "fail"
    if code == "ok":
        cause = "none"
    elif rec.fired:
        cause = "assert" if (fault or {}).get("kind") == "assert" else "io"
    else:
        cause = sc.get("cause") or "unexpected"
    events = rec.events + [{"op": "exit", "role": cause, "res": code, "eff": "-", "post": fs}]
    tname = sc["target"]
    bname = tname + ".bak"
    oname = sc.get("output") or "out.yaml"
    facts = {
        "target_unchanged": after.get(tname) == pre,
        "backup_present": bname in after,
        "backup_is_preimage": after.get(bname) == pre,
        "backup_same_as_before": after.get(bname) == before.get(bname) and (bname in after) == (bname in before),
        "output_same_as_before": after.get(oname) == before.get(oname) and (oname in after) == (oname in before),
        "new_names": sorted(set(after) - set(before)),
        "lost_names": sorted(set(before) - set(after)),
        "others_changed": sorted(n for n in before if n not in (tname, bname, oname) and after.get(n) != before[n]),
        "steps": [{"t": f["t"], "b": f["b"], "o_kept": f["o"] == before.get(oname)} for f in rec.facts],
        "copied_at": next((i for i, e in enumerate(rec.events) if e["op"] == "copy2" and e["res"] == "ok"), None),
        "backup_aliases_target": rec.aliased() or any(f["alias"] for f in rec.facts),
        "target_kind_kept": os.path.islink(paths["target"]) == bool(sc.get("link")),
    }
    if rec.aliased():
        facts["backup_is_preimage"] = False      # it reads the pre-image only as long as nobody writes the target
    written = after.get(oname if sc["tool"] == "merge_out" else tname)
    shutil.rmtree(d, ignore_errors=True)
    return {"events": events, "status": status, "code": code, "fs": fs, "facts": facts, "fired": rec.fired,
            "stderr": err[-600:], "ncalls": rec.n,
            "written": written.decode("latin-1") if (new is None and written is not None) else None}
