--------------------------- MODULE Batch_Compare ---------------------------
(* C12 beyond the grid: seeded random scalars and terms chosen by the harness; TLC answers with
   the documented comparison and whether the cell is one the documentation determines. *)
EXTENDS YCompare, Json, IOUtils
Recs == JsonDeserialize(IOEnv.RECORDS_IN)
Out(r) == [id |-> r.id, m |-> Matches(r.op, r.needle, Hay(r.t, r.v)), silent |-> Silent(r.op, r.needle, Hay(r.t, r.v))]
ASSUME JsonSerialize(IOEnv.VERDICTS_OUT, [i \in 1..Len(Recs) |-> Out(Recs[i])])
=============================================================================
