----------------------------- MODULE Batch_Edit -----------------------------
(* C04 beyond the model's selection semantics: the positions a path matched are taken from
   the real query (whatever the path is: informational rules, repeated matches, nested
   matches) and the specification says what deleting exactly those positions leaves. *)
EXTENDS YEdit, Json, IOUtils
Recs == JsonDeserialize(IOEnv.RECORDS_IN)
Out(r) == LET S == {r.ids[j] : j \in 1..Len(r.ids)} IN
  [id |-> r.id, root |-> 1 \in S, doc |-> IF 1 \in S THEN r.doc ELSE DeleteNodes(r.doc, S)]
ASSUME JsonSerialize(IOEnv.VERDICTS_OUT, [i \in 1..Len(Recs) |-> Out(Recs[i])])
=============================================================================
