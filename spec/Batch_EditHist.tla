--------------------------- MODULE Batch_EditHist ---------------------------
(* C03/C04/C09 beyond the depth bound of MC_Edit: seeded random histories chosen by the
   harness are folded through the SAME step function EStep; the expected document after
   every step (until the first step outside the modelled domain) is written for replay. *)
EXTENDS YEdit, Json, IOUtils
Recs == JsonDeserialize(IOEnv.RECORDS_IN)
RECURSIVE Fold(_, _, _, _)
Fold(s, evs, i, acc) ==
  IF i > Len(evs) THEN acc
  ELSE LET e == evs[i] n == EStep(s, e) IN
       IF n.out = "skip" THEN acc
       ELSE Fold([doc |-> n.doc, out |-> "ok"], evs, i + 1,
                 Append(acc, [out |-> n.out, doc |-> n.doc, dot |-> Write(e.segs, "."), sl |-> Write(e.segs, "/")]))
Out(r) == [id |-> r.id, steps |-> Fold([doc |-> r.doc, out |-> "ok"], r.events, 1, <<>>)]
ASSUME JsonSerialize(IOEnv.VERDICTS_OUT, [i \in 1..Len(Recs) |-> Out(Recs[i])])
=============================================================================
