---------------------------- MODULE Batch_Merge ----------------------------
(* C05 / C10 beyond the enumerated bound: seeded random pairs of larger documents (chosen by the harness)
   x random policy configurations; the specification says what MergeDocs defines for each. *)
EXTENDS YMerge, Json, IOUtils
Recs == JsonDeserialize(IOEnv.RECORDS_IN)
CfgOf(r) == [hashes |-> r.h, arrays |-> r.a, aoh |-> r.o, sets |-> r.s, idkey |-> "", amode |-> r.am]
Out(r) == LET m == MergeDocs(TreeOf(r.l, 1), TreeOf(r.r, 1), CfgOf(r), r.am) IN
  [id |-> r.id, ok |-> m.ok, info |-> m.info, out |-> IF m.ok THEN TabOf(m.tr) ELSE <<>>]
ASSUME JsonSerialize(IOEnv.VERDICTS_OUT, [i \in 1..Len(Recs) |-> Out(Recs[i])])
=============================================================================
