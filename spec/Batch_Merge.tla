---------------------------- MODULE Batch_Merge ----------------------------
(* C05 / C10 beyond the enumerated bound: seeded random pairs of larger documents (chosen by the harness)
   x random policy configurations; the specification says what MergeDocs defines for each. *)
EXTENDS YMerge, Json, IOUtils
Recs == JsonDeserialize(IOEnv.RECORDS_IN)
CfgOf(r) == [hashes |-> r.h, arrays |-> r.a, aoh |-> r.o, sets |-> r.s, idkey |-> "", amode |-> r.am]
\* a record may carry a second right-hand document r2 (else <<>>): ONE merger merges r, then r2 - the second merge starts
\* from the result of the first and from nothing else
Has2(r) == "r2" \in DOMAIN r /\ Len(r.r2) > 0
Out(r) == LET m1 == MergeDocs(TreeOf(r.l, 1), TreeOf(r.r, 1), CfgOf(r), r.am)
              m == IF ~Has2(r) \/ ~m1.ok THEN m1
                   ELSE LET m2 == MergeDocs(m1.tr, TreeOf(r.r2, 1), CfgOf(r), r.am) IN [m2 EXCEPT !.info = @ \/ m1.info] IN
  [id |-> r.id, ok |-> m.ok, info |-> m.info, out |-> IF m.ok THEN TabOf(m.tr) ELSE <<>>,
   ok1 |-> m1.ok]
ASSUME JsonSerialize(IOEnv.VERDICTS_OUT, [i \in 1..Len(Recs) |-> Out(Recs[i])])
=============================================================================
