---------------------------- MODULE Batch_Query ----------------------------
(* Evaluates the selection semantics on (document, segments) pairs chosen by the harness
   (seeded random documents and paths beyond the exhaustive bound of MC_Query) and writes
   the same replayable case records that MC_Query emits. *)
EXTENDS YQueryCases
Recs == JsonDeserialize(IOEnv.RECORDS_IN)
Out(r) == [id |-> r.id, c |-> Case(r.doc, r.segs)]
ASSUME JsonSerialize(IOEnv.VERDICTS_OUT, [i \in 1..Len(Recs) |-> Out(Recs[i])])
=============================================================================
