-------------------------- MODULE Batch_RoundTrip --------------------------
(* Evaluates the C08 relations of YRoundTrip on segment sequences chosen by the
   harness (seeded random, longer than the exhaustive bound) and writes, for each,
   the texts to feed the real YAMLPath class and the model's verdict per relation. *)
EXTENDS YRoundTrip, Json, IOUtils
Cases == JsonDeserialize(IOEnv.RECORDS_IN)
Out(c) == [id |-> c.id, quirk |-> Quirk(c.segs), r |-> EvalOf(c.segs)]
ASSUME JsonSerialize(IOEnv.VERDICTS_OUT, [i \in 1..Len(Cases) |-> Out(Cases[i])])
=============================================================================
