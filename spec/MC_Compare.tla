----------------------------- MODULE MC_Compare -----------------------------
(***************************************************************************)
(* C12: the complete grid operator x haystack x needle over a finite pool  *)
(* of representative scalars.  Every cell is an initial state (there are   *)
(* no transitions); the invariants are the algebraic laws the documented   *)
(* comparison must satisfy on the cells the documentation determines, and  *)
(* Emit writes the expected answer of each cell for replay into            *)
(* Searches.search_matches.                                                *)
(***************************************************************************)
EXTENDS YCompare, Json, CSV, IOUtils

VARIABLES op, ni, hi
S(t, v) == [t |-> t, v |-> v]
Pool == << S("null", ""), S("bool", "true"), S("bool", "false"), S("bool", "True"), S("bool", "FALSE"),
           S("int", "0"), S("int", "1"), S("int", "-1"), S("int", "2"), S("int", "10"), S("int", "100"),
           S("float", "1.5"), S("float", "0.5"), S("float", "2.0"), S("float", "1.0"), S("float", "0.0"), S("float", "-1.5"), S("float", "1.50"), S("float", "10.25"),
           S("str", "1"), S("str", "10"), S("str", "1.5"), S("str", "01"), S("str", "+1"), S("str", "2.0"),
           S("str", ""), S("str", "a"), S("str", "ab"), S("str", "b"), S("str", "abc"), S("str", "A"), S("str", "B"),
           S("str", "true"), S("str", "True"), S("str", "None"), S("str", "null"), S("str", "1a"), S("str", "a b"),
           S("str", "'a'"), S("str", "[1]"), S("str", "a.b"), S("str", "a*") >>
\* needles are always text; regular-expression needles are added for the =~ operator
ReNeedles == << "a", "^a", "b$", "a.c", "ab*", "^a.*c$", "1", "^1", "\\.", ".", "a*", "x*", "(", "[a", "a+" >>
Ops == <<"=", "^", "$", "%", "<", ">", "<=", ">=", "=~">>
NeedleText(o, i) == IF Ops[o] = "=~" THEN (IF i <= Len(ReNeedles) THEN ReNeedles[i] ELSE Pool[i].v) ELSE Pool[i].v

Init == op \in 1..Len(Ops) /\ ni \in 1..Len(Pool) /\ hi \in 1..Len(Pool)
Next == UNCHANGED <<op, ni, hi>>
Spec == Init /\ [][Next]_<<op, ni, hi>>

N == NeedleText(op, ni)
H == Pool[hi]
M(o) == Matches(o, N, H)
Det(o) == ~Silent(o, N, H)

\* laws on determined cells
BothNum == IsNum(TypedHay(H)) /\ IsNum(TypedNeedle(N))
Trichotomy == (Ops[op] # "=~" /\ BothNum /\ Det("<") /\ Det(">") /\ TypedHay(H).ty # "bool" /\ TypedNeedle(N).ty # "bool") =>
                 /\ (M("<") \/ M(">") \/ NumEQ(TypedHay(H), TypedNeedle(N)))
                 /\ ~(M("<") /\ M(">"))
                 /\ (M("<=") <=> ~M(">")) /\ (M(">=") <=> ~M("<"))
NumVsText == (Ops[op] \in {"<", ">", "<=", ">="} /\ IsNum(TypedHay(H)) /\ TypedNeedle(N).ty = "text") => ~M(Ops[op])
PrefixImpliesContains == (Ops[op] # "=~") => ((M("^") => M("%")) /\ (M("$") => M("%")))
TextEquality == (Ops[op] = "=" /\ TypedHay(H).ty = "text" /\ TypedNeedle(N).ty = "text") => (M("=") <=> LitStr(TypedHay(H)) = N)
BoolSpelling == (Ops[op] = "=" /\ H.t = "bool" /\ Lower(N) \in {"true", "false"}) => (M("=") <=> Lower(H.v) = Lower(N))
TextOrder == (Ops[op] # "=~" /\ TypedHay(H).ty = "text") => ((M("<=") <=> ~M(">")) /\ (M(">=") <=> ~M("<")))
Laws == Trichotomy /\ NumVsText /\ PrefixImpliesContains /\ TextEquality /\ BoolSpelling /\ TextOrder

Emit == CSVWrite("%1$s", <<ToJson([op |-> Ops[op], needle |-> N, hay |-> H, m |-> M(Ops[op]), silent |-> ~Det(Ops[op])])>>, IOEnv.CASES_OUT)
=============================================================================
