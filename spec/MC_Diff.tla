------------------------------ MODULE MC_Diff ------------------------------
(***************************************************************************)
(* C06: pairs of documents for the differ.  The left document is built by  *)
(* the generator machine; at each complete document the machine forks into *)
(* the pair phase, whose right document starts as a copy and is then       *)
(* changed by up to MaxEdits edit steps (replace a scalar, change the kind *)
(* of a node, delete, insert, swap two neighbours of a list or hash) or    *)
(* replaced by an unrelated document.  States of the pair phase are the    *)
(* pairs (l, r).                                                           *)
(*                                                                         *)
(* In every pair state, for every mode that can matter for the pair:       *)
(*   Emit        writes the pair, the report of the MIRRORED differ and    *)
(*               the verdict of every clause of the statement on it (a     *)
(*               failing clause is a predicted defect of the pinned code;  *)
(*               the harness counts them per clause and lets the real      *)
(*               Differ decide);                                           *)
(*   Theorems    the REPAIRED differ (all fixes) satisfies every clause -  *)
(*               an ordinary invariant: TLC stops when it fails;           *)
(*   Reflexive   the repaired differ reports no change for (l, l).         *)
(***************************************************************************)
EXTENDS YDiff, YEdit, YDocGen, Json, CSV, IOUtils, SequencesExt

CONSTANTS MaxEdits,      \* edit steps applied to the copy
          UseUnrelated,  \* BOOLEAN: also pair every left document with the unrelated documents
          RecordSubs,    \* BOOLEAN: edits may insert a one-key record (for lists of hashes)
          UseCurated,    \* BOOLEAN: left documents are the curated lists of records instead of the generator's
          AllGlobals,    \* BOOLEAN (config family): every rule under both global settings, or only under the one it departs from
          Family,        \* "modes": the modes given globally; "config": modes and identity keys given per path ([rules] / [keys])
          Repaired       \* the deviations (YDiff: "A".."E") already repaired in the code the mirrored differ follows
VARIABLES phase, rd, ne

dvars == <<doc, open, fresh, phase, rd, ne>>

S(t, v) == [t |-> t, v |-> v]
ScalarsD == <<S("null", ""), S("int", "1"), S("str", "a")>>
ScalarsD4 == <<S("null", ""), S("int", "1"), S("int", "2"), S("str", "a")>>
ScalarsN1 == <<S("null", ""), S("int", "1")>>
ScalarsR == <<S("int", "1"), S("int", "2")>>
ScalarsRN == <<S("null", ""), S("int", "1"), S("int", "2")>>
KeysD == <<S("str", "a"), S("str", "b")>>
KeysR == <<S("str", "n"), S("str", "v")>>
KeysRC == <<S("str", "n"), S("str", "v"), S("str", "a")>>
MembersD == <<S("str", "a"), S("str", "b")>>
\* keys and set members that are integers, and strings spelled like them (one path text, two positions)
KeysI == <<S("str", "a"), S("int", "0"), S("str", "0")>>
MembersI == <<S("int", "1"), S("str", "1")>>
ScalarsI == <<S("int", "1"), S("str", "a")>>
Members1 == <<S("str", "a")>>


(* ---- edits of the right document ---- *)
RECURSIVE Rebuild(_, _, _, _)
Rebuild(d, i, at, nt) ==        \* the tree of d below i, with the tree nt in place of position `at`
  IF i = at THEN nt ELSE [TreeOf(d, i) EXCEPT !.kids = [x \in 1..Len(d[i].kids) |-> Rebuild(d, d[i].kids[x], at, nt)]]
With(d, at, nt) == TabOf(Rebuild(d, Root, at, nt))
InsAt(s, pos, x) == SubSeq(s, 1, pos) \o <<x>> \o SubSeq(s, pos + 1, Len(s))      \* pos = number of elements before x
SwapNb(s, x) == [k \in 1..Len(s) |-> IF k = x THEN s[x + 1] ELSE IF k = x + 1 THEN s[x] ELSE s[k]]
ScalarTrees == {NewScalar(ScalarPool[k].t, ScalarPool[k].v) : k \in 1..Len(ScalarPool)}
RecordTree == [NewCont("map") EXCEPT !.keys = <<KeyPool[1]>>, !.kids = <<NewScalar(ScalarPool[Len(ScalarPool)].t, ScalarPool[Len(ScalarPool)].v)>>]
Subs == ScalarTrees \cup {NewCont("map"), NewCont("seq")} \cup (IF RecordSubs THEN {RecordTree} ELSE {})
InSetPos(d, i) == d[i].par # 0 /\ d[d[i].par].k = "set"

EditReplace(d) == {[d EXCEPT ![i].t = ScalarPool[k].t, ![i].v = ScalarPool[k].v] :
                     i \in {x \in LeafIds(d) : ~InSetPos(d, x)}, k \in 1..Len(ScalarPool)}
EditRetype(d) == {With(d, i, nt) : i \in {x \in 1..Len(d) : ~InSetPos(d, x)}, nt \in Subs}
EditDelete(d) == {DeleteNodes(d, {i}) : i \in 2..Len(d)}
EditInsert(d) == UNION {
  IF d[c].k = "seq" THEN {With(d, c, [TreeOf(d, c) EXCEPT !.kids = InsAt(@, pos, nt)]) : pos \in 0..Len(d[c].kids), nt \in Subs}
  ELSE IF d[c].k = "map" THEN {With(d, c, [TreeOf(d, c) EXCEPT !.kids = Append(@, nt), !.keys = Append(@, KeyPool[k])]) :
                                 k \in {x \in 1..Len(KeyPool) : \A y \in 1..Len(d[c].keys) : d[c].keys[y] # KeyPool[x]}, nt \in Subs}
  ELSE IF d[c].k = "set" THEN {With(d, c, [TreeOf(d, c) EXCEPT !.kids = Append(@, NewScalar(SetPool[k].t, SetPool[k].v))]) :
                                 k \in {x \in 1..Len(SetPool) : \A y \in 1..Len(d[c].kids) : ~ScalarEq(d[d[c].kids[y]], SetPool[x])}}
  ELSE {} : c \in 1..Len(d)}
EditSwap(d) == UNION {
  IF d[c].k \in {"seq", "map"} /\ Len(d[c].kids) > 1
  THEN {With(d, c, [TreeOf(d, c) EXCEPT !.kids = SwapNb(@, x), !.keys = IF d[c].k = "map" THEN SwapNb(@, x) ELSE @]) : x \in 1..(Len(d[c].kids) - 1)}
  ELSE {} : c \in 1..Len(d)}

(* ---- unrelated right documents ---- *)
N(k, t, v, par, kids, keys) == [k |-> k, t |-> t, v |-> v, par |-> par, kids |-> kids, keys |-> keys, anchor |-> "", alias |-> 0]
Sc(t, v, par) == N("s", t, v, par, <<>>, <<>>)
Unrelated == {
  <<Sc("null", "", 0)>>, <<Sc("int", "1", 0)>>, <<Sc("str", "a", 0)>>,
  <<N("map", "", "", 0, <<>>, <<>>)>>, <<N("seq", "", "", 0, <<>>, <<>>)>>,
  <<N("map", "", "", 0, <<2>>, <<S("str", "a")>>), Sc("int", "1", 1)>>,                                           \* {a: 1}
  <<N("seq", "", "", 0, <<2>>, <<>>), Sc("int", "1", 1)>>,                                                       \* [1]
  <<N("seq", "", "", 0, <<2, 3>>, <<>>), Sc("str", "a", 1), Sc("null", "", 1)>>,                                 \* [a, null]
  <<N("seq", "", "", 0, <<2>>, <<>>), N("map", "", "", 1, <<3>>, <<S("str", "a")>>), Sc("int", "1", 2)>>,       \* [{a: 1}]
  <<N("map", "", "", 0, <<2>>, <<S("str", "b")>>), N("seq", "", "", 1, <<3, 4>>, <<>>), Sc("int", "2", 2), Sc("int", "1", 2)>>,   \* {b: [2, 1]}
  <<N("set", "", "", 0, <<2>>, <<>>), Sc("str", "a", 1)>> }                                                      \* !!set {a}

(* ---- curated left documents: lists of records with the identity key n ---- *)
I1(par) == Sc("int", "1", par)
I2(par) == Sc("int", "2", par)
NV == <<S("str", "n"), S("str", "v")>>
Curated == {
  \* [{n: 1, v: 1}, {n: 2, v: 2}]
  <<N("seq", "", "", 0, <<2, 5>>, <<>>), N("map", "", "", 1, <<3, 4>>, NV), I1(2), I1(2), N("map", "", "", 1, <<6, 7>>, NV), I2(5), I2(5)>>,
  \* [{n: 1, v: 1}, {v: 2}]                    a record without the identity key
  <<N("seq", "", "", 0, <<2, 5>>, <<>>), N("map", "", "", 1, <<3, 4>>, NV), I1(2), I1(2), N("map", "", "", 1, <<6>>, <<S("str", "v")>>), I2(5)>>,
  \* [{n: 1, v: [1, 2]}, {n: 2, v: []}]        lists inside records
  <<N("seq", "", "", 0, <<2, 7>>, <<>>), N("map", "", "", 1, <<3, 4>>, NV), I1(2), N("seq", "", "", 2, <<5, 6>>, <<>>), I1(4), I2(4),
    N("map", "", "", 1, <<8, 9>>, NV), I2(7), N("seq", "", "", 7, <<>>, <<>>)>>,
  \* {a: [{n: 1}, {n: 2}], b: [1, 2]}          both kinds of list under a hash
  <<N("map", "", "", 0, <<2, 7>>, <<S("str", "a"), S("str", "b")>>), N("seq", "", "", 1, <<3, 5>>, <<>>), N("map", "", "", 2, <<4>>, <<S("str", "n")>>), I1(3),
    N("map", "", "", 2, <<6>>, <<S("str", "n")>>), I2(5), N("seq", "", "", 1, <<8, 9>>, <<>>), I1(7), I2(7)>>,
  \* [{n: 1, v: null}, {n: 1, v: 2}]           a repeated identity, a null
  <<N("seq", "", "", 0, <<2, 5>>, <<>>), N("map", "", "", 1, <<3, 4>>, NV), I1(2), Sc("null", "", 2), N("map", "", "", 1, <<6, 7>>, NV), I1(5), I2(5)>>,
  \* [[1, 2], [2, 1]]
  <<N("seq", "", "", 0, <<2, 5>>, <<>>), N("seq", "", "", 1, <<3, 4>>, <<>>), I1(2), I2(2), N("seq", "", "", 1, <<6, 7>>, <<>>), I2(5), I1(5)>>,
  \* [{n: {a: 1}}, {n: {a: 2}}]                identities that are hashes
  <<N("seq", "", "", 0, <<2, 5>>, <<>>), N("map", "", "", 1, <<3>>, <<S("str", "n")>>), N("map", "", "", 2, <<4>>, <<S("str", "a")>>), I1(3),
    N("map", "", "", 1, <<6>>, <<S("str", "n")>>), N("map", "", "", 5, <<7>>, <<S("str", "a")>>), I2(6)>>,
  \* {a: [1, 2, 1], b: !!set {a}}              repeated members
  <<N("map", "", "", 0, <<2, 6>>, <<S("str", "a"), S("str", "b")>>), N("seq", "", "", 1, <<3, 4, 5>>, <<>>), I1(2), I2(2), I1(2),
    N("set", "", "", 1, <<7>>, <<>>), Sc("str", "a", 6)>> }

(* ---- curated left documents of the per-path configuration family ---- *)
CuratedConfig == {
  \* {p: {k: [1, 2]}, q: {k: [1, 2]}}          equal lists under equal parents under the same key
  <<N("map", "", "", 0, <<2, 6>>, <<S("str", "p"), S("str", "q")>>), N("map", "", "", 1, <<3>>, <<S("str", "k")>>), N("seq", "", "", 2, <<4, 5>>, <<>>), I1(3), I2(3),
    N("map", "", "", 1, <<7>>, <<S("str", "k")>>), N("seq", "", "", 6, <<8, 9>>, <<>>), I1(7), I2(7)>>,
  \* {p: [1, 2], q: [1, 2], s: 1}              sibling lists (a wildcard matches both, and a scalar)
  <<N("map", "", "", 0, <<2, 5, 8>>, <<S("str", "p"), S("str", "q"), S("str", "s")>>), N("seq", "", "", 1, <<3, 4>>, <<>>), I1(2), I2(2),
    N("seq", "", "", 1, <<6, 7>>, <<>>), I1(5), I2(5), I1(1)>>,
  \* {p: [{v: 1, n: 1}, {v: 1, n: 2}], q: [{v: 1, n: 1}, {v: 1, n: 2}]}     records whose first field is not an identity
  <<N("map", "", "", 0, <<2, 9>>, <<S("str", "p"), S("str", "q")>>),
    N("seq", "", "", 1, <<3, 6>>, <<>>), N("map", "", "", 2, <<4, 5>>, <<S("str", "v"), S("str", "n")>>), I1(3), I1(3),
                                         N("map", "", "", 2, <<7, 8>>, <<S("str", "v"), S("str", "n")>>), I1(6), I2(6),
    N("seq", "", "", 1, <<10, 13>>, <<>>), N("map", "", "", 9, <<11, 12>>, <<S("str", "v"), S("str", "n")>>), I1(10), I1(10),
                                           N("map", "", "", 9, <<14, 15>>, <<S("str", "v"), S("str", "n")>>), I1(13), I2(13)>>,
  \* [[1, 2], [1, 2]]                          lists held in a list
  <<N("seq", "", "", 0, <<2, 5>>, <<>>), N("seq", "", "", 1, <<3, 4>>, <<>>), I1(2), I2(2), N("seq", "", "", 1, <<6, 7>>, <<>>), I1(5), I2(5)>>,
  \* {x: [{n: 1}, {n: 2}], y: [1, 2]}          both kinds of list
  <<N("map", "", "", 0, <<2, 7>>, <<S("str", "x"), S("str", "y")>>), N("seq", "", "", 1, <<3, 5>>, <<>>), N("map", "", "", 2, <<4>>, <<S("str", "n")>>), I1(3),
    N("map", "", "", 2, <<6>>, <<S("str", "n")>>), I2(5), N("seq", "", "", 1, <<8, 9>>, <<>>), I1(7), I2(7)>> }

(* ---- the machine ---- *)
Init == GInit /\ phase = "gen" /\ rd = <<>> /\ ne = 0
Build == ~UseCurated /\ phase = "gen" /\ GNext /\ UNCHANGED <<phase, rd, ne>>
Fork == ~UseCurated /\ phase = "gen" /\ fresh /\ phase' = "pair" /\ rd' = doc /\ ne' = 0 /\ UNCHANGED gvars
ForkCurated == UseCurated /\ phase = "gen" /\ \E d \in (IF Family = "config" THEN CuratedConfig ELSE Curated) : doc' = d /\ rd' = d /\ open' = <<>> /\ fresh' = FALSE /\ phase' = "pair" /\ ne' = 0
Edited(DS) == phase = "pair" /\ ne < MaxEdits /\ \E d \in DS \ {rd} : rd' = d /\ ne' = ne + 1 /\ UNCHANGED <<doc, open, fresh, phase>>
EdReplace == Edited(EditReplace(rd))
EdRetype == Edited(EditRetype(rd))
EdDelete == Edited(EditDelete(rd))
EdInsert == Edited(EditInsert(rd))
EdSwap == Edited(EditSwap(rd))
Unrelate == UseUnrelated /\ phase = "pair" /\ ne = 0 /\ \E d \in Unrelated : rd' = d /\ ne' = 9 /\ UNCHANGED <<doc, open, fresh, phase>>
\* the per-path lookups read the RIGHT document: also compare the edited document (left) with the curated one (right)
Flip == Family = "config" /\ phase = "pair" /\ ne \in 1..MaxEdits /\ doc' = rd /\ rd' = doc /\ ne' = ne + 10 /\ UNCHANGED <<open, fresh, phase>>
Next == Build \/ Fork \/ ForkCurated \/ Flip \/ EdReplace \/ EdRetype \/ EdDelete \/ EdInsert \/ EdSwap \/ Unrelate
Spec == Init /\ [][Next]_dvars

(* ---- the modes that can matter for a pair: the code consults them for a non-empty right list only ---- *)
CfgOf(m, fx) == [arrays |-> m.ar, aoh |-> m.ao, rules |-> m.rules, keys |-> m.keys, fixed |-> fx]
GCase(a, h) == [ar |-> a, ao |-> h, rules |-> <<>>, keys |-> <<>>]
ArrayModes == {"position", "value"}
AoHModes == {"position", "dpos", "value", "key", "deep"}
FullSeqs(d) == {i \in 1..Len(d) : d[i].k = "seq" /\ Len(d[i].kids) > 0}
ModesOf(l, r) ==
  IF FullSeqs(r) = {} THEN {<<"position", "position">>}
  ELSE IF \A i \in FullSeqs(r) : r[r[i].kids[1]].k # "map" THEN {<<a, "position">> : a \in ArrayModes}
  ELSE ArrayModes \X AoHModes

(* ---- the per-path configurations of a pair: one [rules] line and/or one [keys] line naming a list of the right
   document by its path or by that path with one hash key replaced by the wildcard ---- *)
SeqIds(d) == {i \in 1..Len(d) : d[i].k = "seq"}
PathsFor(d, j) == LET q == PathOf(d, j) IN {q} \cup {[q EXCEPT ![k] = WildStep] : k \in {x \in 1..Len(q) : q[x].i = -1}}
RuleModes(d, j) == IF SeqKind(d, j) = "aoh" THEN AoHModes ELSE ArrayModes
ConfigGlobals == {<<"position", "position">>, <<"value", "deep">>}
One(p, v) == <<[p |-> p, v |-> v]>>
ConfigsOf(l, r) ==
  {c \in {[ar |-> g[1], ao |-> g[2], rules |-> One(q, m), keys |-> <<>>] : g \in ConfigGlobals, q \in UNION {PathsFor(r, j) : j \in SeqIds(r)}, m \in AoHModes} :
     AllGlobals \/ (c.ar = "position" <=> c.rules[1].v \in {"value", "key", "deep"})}
  \cup {[ar |-> "position", ao |-> h, rules |-> <<>>, keys |-> One(q, kk)] :
          h \in {"key", "deep"}, q \in UNION {PathsFor(r, j) : j \in {x \in SeqIds(r) : SeqKind(r, x) = "aoh"}}, kk \in {"n", "v"}}
  \cup {[ar |-> "position", ao |-> "position", rules |-> One(q, h), keys |-> One(q, "n")] :
          h \in {"key", "deep"}, q \in UNION {PathsFor(r, j) : j \in {x \in SeqIds(r) : SeqKind(r, x) = "aoh"}}}
\* a rule must name a mode the list's kind has (else the code refuses the configuration: no verdict, not generated)
RuleFits(r, m) == \A k \in 1..Len(m.rules) : \A j \in SeqIds(r) :
  j \in MatchFrom(r, {Root}, m.rules[k].p, 1) => m.rules[k].v \in RuleModes(r, j)
CasesOf(l, r) == IF Family = "config" THEN {m \in ConfigsOf(l, r) : RuleFits(r, m)}
                 ELSE {GCase(m[1], m[2]) : m \in ModesOf(l, r)}

(* ---- design theorems on the repaired differ ---- *)
FixedOK(l, r, m) ==
  LET cfg == CfgOf(m, AllFixes) df == Diff(l, r, cfg) IN
  df.dom => (~df.crash /\ VerdictOK(Verdict(Valued(df.es, l, r), l, r, cfg)))
Theorems == phase = "pair" => \A m \in CasesOf(doc, rd) : FixedOK(doc, rd, m)
Reflexive == (phase = "pair" /\ ne = 0) => \A m \in ArrayModes \X AoHModes :
  LET df == Diff(doc, doc, CfgOf(GCase(m[1], m[2]), AllFixes)) IN df.dom => (~df.crash /\ NoChange(Valued(df.es, doc, doc)))

\* the same clauses on the MIRRORED differ: expected to fail (zip_longest reading null as absent, the skipped empty
\* right list, ...); kept as an invariant of its own so that a small cfg can show the counterexample
MirroredTheorems == phase = "pair" => \A m \in CasesOf(doc, rd) :
  LET cfg == CfgOf(m, Repaired) df == Diff(doc, rd, cfg) IN
  df.dom => (~df.crash /\ VerdictOK(Verdict(Valued(df.es, doc, rd), doc, rd, cfg)))

(* ---- emission of every pair with the mirrored report and its verdicts ---- *)
CStep(st) == IF st.i = -1 THEN st.s ELSE st.i
CPath(p) == [k \in 1..Len(p) |-> CStep(p[k])]
CDoc(d) == [n \in 1..Len(d) |-> <<d[n].k, d[n].t, d[n].v, d[n].par, [k \in 1..Len(d[n].keys) |-> <<d[n].keys[k].t, d[n].keys[k].v>>]>>]
CEnt(e) == <<SubSeq(e.a, 1, 1), CPath(e.p), e.li, e.ri>>
ModeCase(l, r, m) ==
  LET cfg == CfgOf(m, Repaired) df == Diff(l, r, cfg)
      v == IF df.crash THEN [truthful |-> FALSE, covers |-> FALSE, accounted |-> FALSE, nochange |-> FALSE, expect |-> Expect(cfg, l, r)]
           ELSE Verdict(Valued(df.es, l, r), l, r, cfg)
  IN [ar |-> m.ar, ao |-> m.ao, ru |-> [k \in 1..Len(m.rules) |-> <<CPath(m.rules[k].p), m.rules[k].v>>],
      ky |-> [k \in 1..Len(m.keys) |-> <<CPath(m.keys[k].p), m.keys[k].v>>], es |-> [k \in 1..Len(df.es) |-> CEnt(df.es[k])], crash |-> df.crash, dom |-> df.dom,
      t |-> v.truthful, c |-> v.covers, a |-> v.accounted, n |-> v.nochange, x |-> v.expect]
RECURSIVE WriteCases(_, _, _, _)
WriteCases(l, r, cs, from) ==           \* a few cases per line: lines stay below the size at which concurrent appends interleave
  IF from > Len(cs) THEN TRUE
  ELSE /\ CSVWrite("%1$s", <<ToJson([l |-> CDoc(l), r |-> CDoc(r), ne |-> ne,
                                      ms |-> [k \in 1..(IF from + 4 > Len(cs) THEN Len(cs) - from + 1 ELSE 5) |-> ModeCase(l, r, cs[from + k - 1])]])>>, IOEnv.CASES_OUT)
       /\ WriteCases(l, r, cs, from + 5)
EmitPair(l, r) == WriteCases(l, r, SetToSeq(CasesOf(l, r)), 1)
Emit == phase = "pair" => EmitPair(doc, rd)
=============================================================================
