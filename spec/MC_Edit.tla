------------------------------ MODULE MC_Edit ------------------------------
(***************************************************************************)
(* C03 / C04 / C09: edit histories.  Phase 1 builds an initial document    *)
(* with the generator machine (or takes a curated one); phase 2 applies up *)
(* to Depth edits - set on existing scalars, optional-match set that       *)
(* creates a missing straight tail, delete - drawn from the vocabulary of  *)
(* the CURRENT document.  Frame / alias / well-formedness properties are   *)
(* checked on every edit step; each history is emitted with the expected   *)
(* document after every step for replay on ONE Processor instance.         *)
(***************************************************************************)
EXTENDS YEdit, YDocGen, Json, CSV, IOUtils, SequencesExt

CONSTANTS EditDepth, UseCurated,
          AliasOps      \* TRUE: alias_nodes events join the edit vocabulary (MC_Edit_alias.cfg)
VARIABLES phase, doc0, cur, hist

evars == <<doc, open, fresh, phase, doc0, cur, hist>>

S(t, v) == [t |-> t, v |-> v]
Scalars3 == <<S("null", ""), S("int", "1"), S("str", "a")>>
Scalars2 == <<S("int", "1"), S("str", "a")>>
Keys2 == <<S("str", "a"), S("str", "b")>>
Members2 == <<S("str", "a"), S("int", "1")>>

(* ---- curated initial documents (repeated equal scalars, values spelled like keys, aliases in sequences) ---- *)
N(k, t, v, par, kids, keys, anchor, alias) == [k |-> k, t |-> t, v |-> v, par |-> par, kids |-> kids, keys |-> keys, anchor |-> anchor, alias |-> alias]
Sc(t, v, par) == N("s", t, v, par, <<>>, <<>>, "", 0)
Curated == {
  \* [1, 1, 2]
  <<N("seq", "", "", 0, <<2, 3, 4>>, <<>>, "", 0), Sc("int", "1", 1), Sc("int", "1", 1), Sc("int", "2", 1)>>,
  \* [a, a, b]
  <<N("seq", "", "", 0, <<2, 3, 4>>, <<>>, "", 0), Sc("str", "a", 1), Sc("str", "a", 1), Sc("str", "b", 1)>>,
  \* {a: b, b: a}
  <<N("map", "", "", 0, <<2, 3>>, <<S("str", "a"), S("str", "b")>>, "", 0), Sc("str", "b", 1), Sc("str", "a", 1)>>,
  \* {a: &A x, b: [*A, x], c: *A}
  <<N("map", "", "", 0, <<2, 3, 6>>, <<S("str", "a"), S("str", "b"), S("str", "c")>>, "", 0),
    N("s", "str", "x", 1, <<>>, <<>>, "A", 0), N("seq", "", "", 1, <<4, 5>>, <<>>, "", 0),
    N("s", "str", "x", 3, <<>>, <<>>, "A", 2), Sc("str", "x", 3), N("s", "str", "x", 1, <<>>, <<>>, "A", 2)>>,
  \* {a: [&A 1, 1], b: [*A, []], c: {}}
  <<N("map", "", "", 0, <<2, 5, 8>>, <<S("str", "a"), S("str", "b"), S("str", "c")>>, "", 0),
    N("seq", "", "", 1, <<3, 4>>, <<>>, "", 0), N("s", "int", "1", 2, <<>>, <<>>, "A", 0), Sc("int", "1", 2),
    N("seq", "", "", 1, <<6, 7>>, <<>>, "", 0), N("s", "int", "1", 5, <<>>, <<>>, "A", 3), N("seq", "", "", 5, <<>>, <<>>, "", 0),
    N("map", "", "", 1, <<>>, <<>>, "", 0)>>,
  \* {a: &A x, m: {*A : 1, b: 2}, c: *A}   - an Alias used as a mapping key, first in its Hash
  <<N("map", "", "", 0, <<2, 3, 6>>, <<S("str", "a"), S("str", "m"), S("str", "c")>>, "", 0),
    N("s", "str", "x", 1, <<>>, <<>>, "A", 0),
    N("map", "", "", 1, <<4, 5>>, <<S("str", "x"), S("str", "b")>>, "", 0) @@ [kanch |-> <<"A", "">>],
    Sc("int", "1", 3), Sc("int", "2", 3), N("s", "str", "x", 1, <<>>, <<>>, "A", 2)>>,
  \* {a: &A x, m: {b: 2, *A : 1, c: 3}}     - ... in the middle of its Hash
  <<N("map", "", "", 0, <<2, 3>>, <<S("str", "a"), S("str", "m")>>, "", 0),
    N("s", "str", "x", 1, <<>>, <<>>, "A", 0),
    N("map", "", "", 1, <<4, 5, 6>>, <<S("str", "b"), S("str", "x"), S("str", "c")>>, "", 0) @@ [kanch |-> <<"", "A", "">>],
    Sc("int", "2", 3), Sc("int", "1", 3), Sc("int", "3", 3)>>,
  \* [[1, 2], [1, 2], {a: 1}]
  <<N("seq", "", "", 0, <<2, 5, 8>>, <<>>, "", 0), N("seq", "", "", 1, <<3, 4>>, <<>>, "", 0), Sc("int", "1", 2), Sc("int", "2", 2),
    N("seq", "", "", 1, <<6, 7>>, <<>>, "", 0), Sc("int", "1", 5), Sc("int", "2", 5),
    N("map", "", "", 1, <<9>>, <<S("str", "a")>>, "", 0), Sc("int", "1", 8)>>,
  \* {a: {a: a, b: true}, b: [null, a]}
  <<N("map", "", "", 0, <<2, 5>>, <<S("str", "a"), S("str", "b")>>, "", 0),
    N("map", "", "", 1, <<3, 4>>, <<S("str", "a"), S("str", "b")>>, "", 0), Sc("str", "a", 2), Sc("bool", "true", 2),
    N("seq", "", "", 1, <<6, 7>>, <<>>, "", 0), Sc("null", "", 5), Sc("str", "a", 5)>>
}

Init == GInit /\ phase = "build" /\ doc0 = <<>> /\ cur = <<>> /\ hist = <<>>

Build == phase = "build" /\ GNext /\ UNCHANGED <<phase, doc0, cur, hist>>
StartEdit == /\ phase = "build" /\ fresh
             /\ phase' = "edit" /\ doc0' = doc /\ cur' = doc /\ hist' = <<>> /\ UNCHANGED <<doc, open, fresh>>
StartCurated == /\ UseCurated /\ phase = "build" /\ Len(doc) = 1 /\ doc[1].k = "map"
                /\ \E c \in Curated : doc0' = c /\ cur' = c
                /\ phase' = "edit" /\ hist' = <<>> /\ UNCHANGED <<doc, open, fresh>>

(* ---- edit vocabulary of the current document ---- *)
StrKeysOf(d) == UNION {{d[i].keys[j].v : j \in 1..Len(d[i].keys)} : i \in 1..Len(d)}
PathVocab(d) ==
  {<<Seg("KEY", k)>> : k \in StrKeysOf(d) \cup {"zz", "0", "-1"}}
  \cup {<<Seg("INDEX", k)>> : k \in {"0", "1", "-1", "3"}}
  \cup {<<Seg("SLICE", "0:2")>>, <<Seg("MATCH_ALL", "")>>, <<Seg("TRAVERSE", "")>>, <<Seg("ANCHOR", "A")>>,
        <<SearchSeg(FALSE, "=", ".", "1")>>, <<SearchSeg(TRUE, "=", ".", "a")>>, <<SearchSeg(FALSE, "=", "a", "a")>>}
  \cup {<<Seg("KEY", k1), Seg("KEY", k2)>> : k1 \in StrKeysOf(d), k2 \in StrKeysOf(d) \cup {"zz"}}
  \cup {<<Seg("KEY", k1), Seg("INDEX", k2)>> : k1 \in StrKeysOf(d), k2 \in {"0", "1", "3", "-1"}}
  \cup {<<Seg("INDEX", k1), Seg("KEY", k2)>> : k1 \in {"0", "1"}, k2 \in StrKeysOf(d) \cup {"zz"}}
  \cup {<<Seg("KEY", "zz"), Seg("KEY", "y"), Seg("INDEX", "1")>>, <<Seg("KEY", "zz"), Seg("INDEX", "1"), Seg("KEY", "y")>>,
        <<Seg("MATCH_ALL", ""), Seg("INDEX", "0")>>, <<Seg("TRAVERSE", ""), Seg("KEY", "a")>>}
Values == {S("int", "7"), S("str", "zz"), S("float", "2.5"), S("bool", "true")}
NoA == <<>>
BaseEvents(d) == {[op |-> "set_must", segs |-> p, t |-> x.t, v |-> x.v, asegs |-> NoA, name |-> ""] : p \in PathVocab(d), x \in (IF AliasOps THEN {S("int", "7")} ELSE Values)}
             \cup {[op |-> "set_opt", segs |-> p, t |-> "str", v |-> "zz", asegs |-> NoA, name |-> ""] : p \in {q \in PathVocab(d) : Straight(q) /\ ~AliasOps}}
             \cup {[op |-> "delete", segs |-> p, t |-> "", v |-> "", asegs |-> NoA, name |-> ""] : p \in PathVocab(d)}
\* alias_nodes: targets from a reduced vocabulary, the anchor path a straight one- or two-step path, the name given or not
AliasTargets(d) == {<<Seg("KEY", k)>> : k \in StrKeysOf(d) \cup {"zz"}} \cup {<<Seg("INDEX", k)>> : k \in {"0", "1"}}
                   \cup {<<Seg("MATCH_ALL", "")>>, <<Seg("ANCHOR", "A")>>, <<Seg("TRAVERSE", "")>>}
                   \cup {<<Seg("KEY", k1), Seg("INDEX", "0")>> : k1 \in StrKeysOf(d)}
AnchorPaths(d) == {<<Seg("KEY", k)>> : k \in StrKeysOf(d) \cup {"zz"}} \cup {<<Seg("INDEX", k)>> : k \in {"0", "1"}} \cup {<<Seg("MATCH_ALL", "")>>}
                  \cup {<<Seg("KEY", k1), Seg("INDEX", "0")>> : k1 \in StrKeysOf(d)} \cup {<<Seg("KEY", k1), Seg("KEY", k2)>> : k1, k2 \in StrKeysOf(d)}
AliasEvents(d) == IF ~AliasOps THEN {} ELSE
  {[op |-> "alias", segs |-> p, t |-> "", v |-> "", asegs |-> q, name |-> n] : p \in AliasTargets(d), q \in AnchorPaths(d), n \in {"", "A", "B"}}
Events(d) == BaseEvents(d) \cup AliasEvents(d)
\* one deterministic, document-changing set (alias mode only)
Warm(d) == IF ~AliasOps \/ (\E i \in 1..Len(d) : d[i].anchor # "") THEN {} ELSE
  LET WS == {e \in BaseEvents(d) : e.op = "set_must" /\ Len(e.segs) = 1 /\ e.segs[1].ty \in {"KEY", "INDEX"}
                                 /\ LET n == EStep([doc |-> d, out |-> "ok"], e) IN n.out = "ok" /\ ~PlainEq(n.doc, d)} IN
  IF WS = {} THEN {} ELSE {CHOOSE e \in WS : TRUE}

\* an event is worth a transition when it is in the modelled domain and either changes the document or is refused
Interesting(s, e) == LET n == EStep(s, e) IN
  \/ n.out \in {"ok", "nodoc"} /\ (n.out = "nodoc" \/ ~PlainEq(n.doc, s.doc) \/ (e.op = "alias" /\ n.doc # s.doc))
  \/ e.op = "alias" /\ n.out = "yperr"        \* refusals of alias_nodes (several anchors, a name in use, ...) are replayed too

Edit == /\ phase = "edit" /\ Len(hist) < EditDepth
        /\ (AliasOps /\ Len(hist) > 0) => \A j \in 1..Len(hist) : hist[j].out = "ok"      \* nothing follows a refused alias_nodes (the document is unchanged)
        /\ \E e \in (IF ~AliasOps THEN Events(cur)
                     \* alias mode: [alias_nodes, set / delete] and [one "warming" set, alias_nodes, set / delete] - in the second
                     \* shape the Processor has already edited an alias-free document when the alias comes into being
                     ELSE IF Len(hist) = 0 THEN AliasEvents(cur) \cup Warm(cur)
                     ELSE IF Len(hist) = 1 /\ hist[1].op = "set_must" THEN AliasEvents(cur)
                     ELSE IF hist[Len(hist)].op = "alias" THEN BaseEvents(cur)
                     ELSE {}) :
             LET n == EStep([doc |-> cur, out |-> "ok"], e) IN
             /\ Interesting([doc |-> cur, out |-> "ok"], e)
             /\ cur' = n.doc
             /\ hist' = Append(hist, [op |-> e.op, dot |-> Write(e.segs, "."), sl |-> Write(e.segs, "/"), t |-> e.t, v |-> e.v, out |-> n.out,
                                      adot |-> Write(e.asegs, "."), name |-> e.name, grew |-> Len(n.doc) > Len(cur)])
        /\ UNCHANGED <<doc, open, fresh, phase, doc0>>

Next == Build \/ StartEdit \/ StartCurated \/ Edit
Spec == Init /\ [][Next]_evars

(* ---- properties of edit steps (C03 / C04 / C09 on the model) ---- *)
\* every edit keeps anchors well formed: each alias follows its definition and reads its value
WellFormed == phase = "edit" => AnchorsWellFormed(cur)
\* action properties: frames
SetFrame == [][(phase = "edit" /\ ~HasSet(cur) /\ Len(hist') > Len(hist) /\ hist'[Len(hist')].op = "set_must") =>
                 /\ Len(cur') = Len(cur)
                 /\ \A i \in 1..Len(cur) : cur'[i].k = cur[i].k /\ cur'[i].kids = cur[i].kids /\ Len(cur'[i].keys) = Len(cur[i].keys)
                                           \* a key changes only where it is an Alias of an Anchor (it then reads the new value)
                                           /\ (\A j \in 1..Len(cur[i].keys) : cur'[i].keys[j] # cur[i].keys[j] => KAOf(cur[i], j) # "")
                                           /\ KA(cur'[i]) = KA(cur[i])
                                           /\ cur'[i].anchor = cur[i].anchor /\ cur'[i].alias = cur[i].alias
                 /\ \A i \in 1..Len(cur) : (cur'[i].t # cur[i].t \/ cur'[i].v # cur[i].v) =>
                       \E j \in 1..Len(cur) : i \in AliasGroup(cur, j) /\ cur'[j].t = cur'[i].t /\ cur'[j].v = cur'[i].v]_evars
DeleteShrinks == [][(phase = "edit" /\ Len(hist') > Len(hist) /\ hist'[Len(hist')].op = "delete" /\ hist'[Len(hist')].out = "ok") =>
                     Len(cur') < Len(cur)]_evars
RootRefusal == [][(phase = "edit" /\ Len(hist') > Len(hist) /\ hist'[Len(hist')].out = "nodoc") => cur' = cur]_evars
CreateKeepsOld == [][(phase = "edit" /\ Len(hist') > Len(hist) /\ hist'[Len(hist')].op = "set_opt" /\ Len(cur') > Len(cur)) =>
                     \* every old scalar value is still present, in order (the old document is a subsequence)
                     LET old == SelectSeq(cur, LAMBDA n : n.k = "s") new == SelectSeq(cur', LAMBDA n : n.k = "s") IN
                     Len(new) >= Len(old)]_evars

\* alias_nodes: data change only at the targets, which then read the anchor's value; the anchor keeps its value
AliasFrame == [][(phase = "edit" /\ Len(hist') > Len(hist) /\ hist'[Len(hist')].op = "alias" /\ hist'[Len(hist')].out = "ok") =>
                  /\ AnchorsWellFormed(cur')
                  /\ \E nm \in AnchorNamesOf(cur') : Cardinality({i \in 1..Len(cur') : cur'[i].anchor = nm}) >= 1]_evars
AliasRefusal == [][(phase = "edit" /\ Len(hist') > Len(hist) /\ hist'[Len(hist')].op = "alias" /\ hist'[Len(hist')].out = "yperr") =>
                  PlainEq(cur', cur)]_evars

Emit == (phase = "edit" /\ Len(hist) > 0) =>
  CSVWrite("%1$s", <<ToJson([doc0 |-> doc0, hist |-> hist, final |-> cur])>>, IOEnv.CASES_OUT)
=============================================================================
