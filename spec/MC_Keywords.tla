---------------------------- MODULE MC_Keywords ----------------------------
(***************************************************************************)
(* C13: collections built one member at a time - a list of scalars, an     *)
(* Array-of-Hashes, a Hash-of-Hashes - with a shared attribute that is     *)
(* present, absent, repeated or null; in every state each keyword (with    *)
(* and without inversion and parameter) is evaluated by the declarative    *)
(* definitions of YQuery.KwStep, the set-theoretic laws of C13 are checked *)
(* as invariants, and the expected members are emitted for replay.         *)
(***************************************************************************)
EXTENDS YQueryCases

CONSTANTS MaxList, MaxRec     \* bounds on the number of members
VARIABLES shape, mem

S(t, v) == [t |-> t, v |-> v]
\* list members; record members are [has, t, v]: {"v": value} when has, else {"w": 1}
ListPool == {S("int", "0"), S("int", "1"), S("int", "2"), S("float", "1.5"), S("str", "a"), S("str", "b"), S("null", "")}
RecPool == {[has |-> TRUE, t |-> "int", v |-> "0"], [has |-> TRUE, t |-> "int", v |-> "1"], [has |-> TRUE, t |-> "str", v |-> "a"],
            [has |-> TRUE, t |-> "str", v |-> "b"], [has |-> TRUE, t |-> "null", v |-> ""], [has |-> FALSE, t |-> "", v |-> ""]}

Init == shape \in {"list", "aoh", "hoh", "wrapped"} /\ mem = <<>>
Next == /\ UNCHANGED shape
        /\ IF shape \in {"list", "wrapped"} THEN Len(mem) < MaxList /\ \E x \in ListPool : mem' = Append(mem, x)
           ELSE Len(mem) < MaxRec /\ \E x \in RecPool : mem' = Append(mem, x)
Spec == Init /\ [][Next]_<<shape, mem>>

(* ---- the document of a state ---- *)
KeyName(j) == SubSeq("k1k2k3k4k5", 2 * j - 1, 2 * j)
RecNodes(rootkind, off) ==   \* root container at id off+1, member j is a map at off+2j with one child at off+2j+1
  LET n == Len(mem) IN
  <<[Node(rootkind, "", "", off) EXCEPT !.kids = [j \in 1..n |-> off + 2 * j],
                                        !.keys = IF rootkind = "map" THEN [j \in 1..n |-> S("str", KeyName(j))] ELSE <<>>]>>
  \o Flatten([j \in 1..n |->
       <<[Node("map", "", "", off + 1) EXCEPT !.kids = <<off + 2 * j + 1>>,
                                              !.keys = <<S("str", IF mem[j].has THEN "v" ELSE "w")>>],
         IF mem[j].has THEN Node("s", mem[j].t, mem[j].v, off + 2 * j) ELSE Node("s", "int", "1", off + 2 * j)>>])
ListNodes(off) == LET n == Len(mem) IN
  <<[Node("seq", "", "", off) EXCEPT !.kids = [j \in 1..n |-> off + 1 + j]]>>
  \o [j \in 1..n |-> Node("s", mem[j].t, mem[j].v, off + 1)]
Doc == IF shape = "list" THEN ListNodes(0)
       ELSE IF shape = "aoh" THEN RecNodes("seq", 0)
       ELSE IF shape = "hoh" THEN RecNodes("map", 0)
       ELSE <<[Node("map", "", "", 0) EXCEPT !.kids = <<2>>, !.keys = <<S("str", "c")>>]>> \o ListNodes(1)

(* ---- keyword paths ---- *)
Params == {"", "v", "w", "zz", "v,w", "'v'", "'v,w'"}
KwSegs == {KeywordSeg(inv, kw, p) : inv \in BOOLEAN, kw \in {"max", "min", "unique", "distinct", "has_child"}, p \in Params}
          \cup {KeywordSeg(FALSE, "name", ""), KeywordSeg(FALSE, "parent", ""), KeywordSeg(FALSE, "parent", "0"), KeywordSeg(FALSE, "parent", "2")}
Paths == IF shape = "wrapped" THEN {<<Seg("KEY", "c"), s>> : s \in KwSegs} \cup {<<Seg("KEY", "c"), Seg("MATCH_ALL", ""), s>> : s \in {KeywordSeg(FALSE, "name", ""), KeywordSeg(FALSE, "parent", "")} \cup {KeywordSeg(FALSE, "parent", n) : n \in {"1", "2", "3"}}}
         ELSE {<<s>> : s \in KwSegs} \cup {<<Seg("MATCH_ALL", ""), s>> : s \in {KeywordSeg(FALSE, "name", ""), KeywordSeg(FALSE, "parent", ""), KeywordSeg(FALSE, "parent", "1"), KeywordSeg(FALSE, "parent", "2")}}

(* ---- laws of C13 on the declarative definitions (determined cases only) ---- *)
R(kw, inv, p) == Sel(Doc, (IF shape = "wrapped" THEN <<Seg("KEY", "c")>> ELSE <<>>) \o <<KeywordSeg(inv, kw, p)>>)
IdSet(r) == {FlatIds(r.res)[j] : j \in 1..Len(FlatIds(r.res))}
Members == LET c == IF shape = "wrapped" THEN 2 ELSE 1 IN {Doc[c].kids[j] : j \in 1..Len(Doc[c].kids)}
PFor == IF shape \in {"aoh", "hoh"} THEN "v" ELSE ""
Determined(r) == r.err = "" /\ ~r.info
Laws ==
  LET mx == R("max", FALSE, PFor) nmx == R("max", TRUE, PFor) mn == R("min", FALSE, PFor) nmn == R("min", TRUE, PFor)
      un == R("unique", FALSE, PFor) nun == R("unique", TRUE, PFor) di == R("distinct", FALSE, PFor)
  IN /\ (Determined(mx) /\ Determined(nmx)) => (IdSet(mx) \cup IdSet(nmx) = Members /\ IdSet(mx) \cap IdSet(nmx) = {})
     /\ (Determined(mn) /\ Determined(nmn)) => (IdSet(mn) \cup IdSet(nmn) = Members /\ IdSet(mn) \cap IdSet(nmn) = {})
     /\ (Determined(un) /\ Determined(nun)) => IdSet(un) \cap IdSet(nun) = {}
     /\ (Determined(un) /\ Determined(di)) => IdSet(un) \subseteq IdSet(di)
     /\ (Determined(di) /\ Determined(un) /\ Determined(nun)) => Cardinality(IdSet(di)) <= Cardinality(IdSet(un)) + Cardinality(IdSet(nun))
     /\ (Determined(mx) /\ Determined(mn) /\ Members # {} /\ IdSet(mx) # {}) => IdSet(mn) # {}

Emit == WriteChunks(Doc, SetToSeq({Case(Doc, p) : p \in Paths}), 1)
=============================================================================
