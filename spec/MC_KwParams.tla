---------------------------- MODULE MC_KwParams ----------------------------
(* Every parameter text over the splitter's significant characters up to MaxLen: totality of the
   machine, laws of the split, and one emitted case per text for replay into SearchKeywordTerms. *)
EXTENDS YKwParams, Json, CSV, IOUtils
CONSTANTS Tokens, MaxLen
\* defined here, not in the cfg: TLC's cfg parser keeps backslash escapes in string literals
TokKw == {"a", "b", ",", "'", "\"", "\\", " ", "&"}
VARIABLES txt, n
Init == txt = "" /\ n = 0
Next == \E c \in Tokens : n < MaxLen /\ txt' = txt \o c /\ n' = n + 1
Spec == Init /\ [][Next]_<<txt, n>>
R == KPSplit(txt)
\* no parameter is empty except those closed by a comma; quote-free, escape-free text splits like Python's split(",") on the blank-free text
Laws == /\ (~HasChar(txt, "'") /\ ~HasChar(txt, "\"") /\ ~HasChar(txt, "\\")) =>
             (R.ok /\ LET t == Replace(txt, " ", "") parts == Split(t, ",") IN
                      R.params = IF parts[Len(parts)] = "" THEN SubSeq(parts, 1, Len(parts) - 1) ELSE parts)
Emit == CSVWrite("%1$s", <<ToJson([t |-> txt, ok |-> R.ok, params |-> R.params])>>, IOEnv.CASES_OUT)
=============================================================================
