------------------------------ MODULE MC_Merge ------------------------------
(***************************************************************************)
(* C05: pairs of documents x policy configurations.  The generator machine *)
(* builds the left document, `Freeze` keeps it and restarts the generator  *)
(* for the right document; every fresh right-hand state is one pair.  For  *)
(* each pair the policy-defined result MergeRoot(l, r, cfg) is evaluated   *)
(* for every configuration of `Cfgs`, the algebraic laws of C05 are        *)
(* checked, and the expected result (document or merge error) is emitted   *)
(* for replay into Merger.merge_with.                                      *)
(***************************************************************************)
EXTENDS YMerge, YDocGen, Json, CSV, IOUtils, SequencesExt

CONSTANTS AllCombos,     \* BOOLEAN: the full 3x4x5x3 product instead of the one-dimension-at-a-time slice
          AnchorModes    \* set of anchor-conflict policies to cross with (C10); {"stop"} for C05
VARIABLES side, lhs

mvars == <<doc, open, fresh, side, lhs>>
S(t, v) == [t |-> t, v |-> v]
Scalars2 == <<S("int", "1"), S("str", "a")>>
Scalars3 == <<S("null", ""), S("int", "1"), S("str", "a")>>
Keys3 == <<S("str", "a"), S("str", "b"), S("str", "c")>>
Keys2 == <<S("str", "a"), S("str", "b")>>
Members2 == <<S("str", "a"), S("str", "b")>>
Members0 == <<>>

Init == GInit /\ side = "L" /\ lhs = <<>>
Build == GNext /\ UNCHANGED <<side, lhs>>
Freeze == /\ side = "L" /\ fresh
          /\ lhs' = doc /\ side' = "R"
          /\ \/ \E k \in Roots \ {"s"} : doc' = <<Node(k, "", "", 0)>> /\ open' = <<1>>
             \/ "s" \in Roots /\ \E i \in 1..Len(ScalarPool) : doc' = <<Node("s", ScalarPool[i].t, ScalarPool[i].v, 0)>> /\ open' = <<>>
          /\ fresh' = TRUE
Next == Build \/ Freeze
Spec == Init /\ [][Next]_mvars

Cfg(h, a, o, s) == [hashes |-> h, arrays |-> a, aoh |-> o, sets |-> s, idkey |-> "", amode |-> "stop"]
HashM == {"deep", "left", "right"}
ArrM == {"all", "left", "right", "unique"}
AohM == {"all", "left", "right", "unique", "deep"}
SetM == {"unique", "left", "right"}
Default == Cfg("deep", "all", "all", "unique")
Slice == {Cfg(h, "all", "all", "unique") : h \in HashM} \cup {Cfg("deep", a, "all", "unique") : a \in ArrM}
         \cup {Cfg("deep", "all", o, "unique") : o \in AohM} \cup {Cfg("deep", "all", "all", s) : s \in SetM}
         \cup {Cfg("left", "unique", "deep", "left"), Cfg("right", "left", "unique", "right"), Cfg("deep", "unique", "deep", "unique"),
               Cfg("deep", "right", "left", "unique"), Cfg("deep", "left", "right", "left"), Cfg("left", "all", "deep", "unique")}
SmallSlice == {Cfg("deep", "all", "all", "unique"), Cfg("left", "all", "all", "unique"), Cfg("right", "all", "all", "unique"),
               Cfg("deep", "unique", "deep", "unique"), Cfg("deep", "right", "right", "right"), Cfg("deep", "left", "left", "left")}
BaseCfgs == IF Cardinality(AnchorModes) > 1 /\ ~AllCombos THEN SmallSlice ELSE IF AllCombos THEN {Cfg(h, a, o, s) : h \in HashM, a \in ArrM, o \in AohM, s \in SetM} ELSE Slice
Cfgs == {[c EXCEPT !.amode = am] : c \in BaseCfgs, am \in AnchorModes}

L == TreeOf(lhs, 1)
R == TreeOf(doc, 1)
Result(c) == MergeDocs(L, R, c, c.amode)

(* ---- laws of C05 on the policy-defined result ---- *)
Laws == (side = "R" /\ fresh /\ ConflictNames(L, R) = {}) =>
  /\ \A c \in Cfgs : LET m == Result(c) IN
       \* hashes=left / right at the root of two Hashes
       /\ (L.k = "map" /\ R.k = "map" /\ c.hashes = "left") => (m.ok /\ TEq(m.tr, L))
       /\ (L.k = "map" /\ R.k = "map" /\ c.hashes = "right") => (m.ok /\ TEq(m.tr, R))
       \* an empty right-hand Hash / Array is a no-op
       /\ (L.k = R.k /\ R.k \in {"map", "seq"} /\ Len(R.kids) = 0 /\ c.hashes = "deep" /\ c.arrays # "right" /\ c.aoh # "right") => (m.ok /\ TEq(m.tr, L))
       \* left-hand keys keep their relative order under a deep Hash merge
       /\ (m.ok /\ L.k = "map" /\ R.k = "map" /\ c.hashes = "deep") =>
             SelectSeq(m.tr.keys, LAMBDA k : \E j \in 1..Len(L.keys) : L.keys[j] = k) = L.keys
       \* unique is idempotent
       /\ (m.ok /\ ~m.info /\ L.k = R.k /\ c.arrays = "unique" /\ c.aoh \in {"unique", "deep"} /\ c.hashes = "deep" /\ c.sets = "unique") =>
             LET again == MergeDocs(m.tr, R, c, c.amode) IN again.ok => TEq(again.tr, m.tr)
       \* a merge error exactly for the structurally impossible root pairs
       /\ (~IsNullT(L) /\ ~IsNullT(R) /\ L.k = "map" /\ R.k \in {"seq", "s"}) => ~m.ok
       /\ (~IsNullT(L) /\ ~IsNullT(R) /\ L.k = "set" /\ R.k = "map") => ~m.ok

(* ---- laws of C10 on the policy-defined result ---- *)
AnchorLaws == (side = "R" /\ fresh) => \A c \in Cfgs :
  LET m == Result(c) cn == ConflictNames(L, R) IN
  /\ (~IsNullT(L) /\ ~IsNullT(R) /\ c.amode = "stop" /\ cn # {}) => ~m.ok
  /\ (m.ok /\ ~IsNullT(L) /\ ~IsNullT(R)) =>
       \* every name that is left in the result reads one value
       \A a \in AnchorNames(m.tr) : \A j \in 1..Len(NodesOfT(m.tr)) :
           NodesOfT(m.tr)[j].anchor = a => TEq(NodesOfT(m.tr)[j], AnchorNode(m.tr, a))
  /\ (m.ok /\ ~IsNullT(L) /\ ~IsNullT(R) /\ c.amode = "left") =>
       \A a \in cn : a \in AnchorNames(m.tr) => TEq(AnchorNode(m.tr, a), AnchorNode(L, a))
  /\ (m.ok /\ ~IsNullT(L) /\ ~IsNullT(R) /\ c.amode = "right") =>
       \A a \in cn : a \in AnchorNames(m.tr) => TEq(AnchorNode(m.tr, a), AnchorNode(R, a))

CfgName(c) == c.hashes \o "/" \o c.arrays \o "/" \o c.aoh \o "/" \o c.sets \o "/" \o c.amode
MOutcome(c) == LET m == Result(c) IN [ok |-> m.ok, info |-> m.info, out |-> IF m.ok THEN TabOf(m.tr) ELSE <<>>]
\* configurations are grouped by the result they define (most pairs are insensitive to most policies)
Groups == LET outs == {MOutcome(c) : c \in Cfgs} IN
          SetToSeq({[res |-> o, cfgs |-> SetToSeq({CfgName(c) : c \in {x \in Cfgs : MOutcome(x) = o}})] : o \in outs})

RECURSIVE WriteGroups(_, _)
WriteGroups(gs, from) ==
  IF from > Len(gs) THEN TRUE
  ELSE /\ CSVWrite("%1$s", <<ToJson([key |-> ToString(<<lhs, doc>>), l |-> lhs, r |-> doc, group |-> gs[from]])>>, IOEnv.CASES_OUT)
       /\ WriteGroups(gs, from + 1)
Emit == (side = "R" /\ fresh) => WriteGroups(Groups, 1)
=============================================================================
