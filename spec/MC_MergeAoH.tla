---------------------------- MODULE MC_MergeAoH ----------------------------
(***************************************************************************)
(* C05, Array-of-Hashes family: both documents are lists of records        *)
(* {id: i, v: x} (a record may lack the identity key or the value), built  *)
(* one record at a time, at the root or under the key "k".  Every AoH mode *)
(* (all, left, right, unique, deep by identity key) x hash mode is         *)
(* evaluated; the laws of the deep merge are invariants.                   *)
(***************************************************************************)
EXTENDS YMerge, Json, CSV, IOUtils, SequencesExt

CONSTANTS MaxL, MaxR
VARIABLES lrecs, rrecs, wrap, rstarted

S(t, v) == [t |-> t, v |-> v]
RecPool == {[id |-> i, v |-> x] : i \in {"1", "2", ""}, x \in {"a", "b", ""}} \ {[id |-> "", v |-> ""]}
Init == lrecs = <<>> /\ rrecs = <<>> /\ wrap \in BOOLEAN /\ rstarted = FALSE
AddL == ~rstarted /\ Len(lrecs) < MaxL /\ \E x \in RecPool : lrecs' = Append(lrecs, x) /\ UNCHANGED <<rrecs, wrap, rstarted>>
AddR == Len(rrecs) < MaxR /\ \E x \in RecPool : rrecs' = Append(rrecs, x) /\ rstarted' = TRUE /\ UNCHANGED <<lrecs, wrap>>
Next == AddL \/ AddR
Spec == Init /\ [][Next]_<<lrecs, rrecs, wrap, rstarted>>

RecTree(x) == [NewCont("map") EXCEPT
  !.keys = (IF x.id # "" THEN <<S("str", "id")>> ELSE <<>>) \o (IF x.v # "" THEN <<S("str", "v")>> ELSE <<>>),
  !.kids = (IF x.id # "" THEN <<NewScalar("int", x.id)>> ELSE <<>>) \o (IF x.v # "" THEN <<NewScalar("str", x.v)>> ELSE <<>>)]
ListTree(recs) == [NewCont("seq") EXCEPT !.kids = [j \in 1..Len(recs) |-> RecTree(recs[j])]]
DocTree(recs) == IF wrap THEN [NewCont("map") EXCEPT !.keys = <<S("str", "k")>>, !.kids = <<ListTree(recs)>>] ELSE ListTree(recs)
L == DocTree(lrecs)
R == DocTree(rrecs)

Cfg(h, o, idk) == [hashes |-> h, arrays |-> "all", aoh |-> o, sets |-> "unique", idkey |-> idk, amode |-> "stop"]
Cfgs == {Cfg(h, o, "") : h \in {"deep", "left", "right"}, o \in {"all", "left", "right", "unique", "deep"}}
Result(c) == MergeRoot(L, R, c)

IdsOf(tr) == LET lst == IF wrap THEN tr.kids[1] ELSE tr IN
             [j \in 1..Len(lst.kids) |-> IF HasKeyT(lst.kids[j], S("str", "id")) THEN ValOf(lst.kids[j], S("str", "id")).v ELSE ""]
\* after a deep merge no identity value that the right-hand side names occurs twice unless it already did on the left
Laws == (Len(rrecs) > 0) => \A c \in Cfgs :
  LET m == Result(c) IN
  (m.ok /\ c.aoh = "deep" /\ c.hashes = "deep" /\ rrecs[1].id # "") =>
     \A i \in {"1", "2"} :
        Cardinality({j \in 1..Len(IdsOf(m.tr)) : IdsOf(m.tr)[j] = i}) <=
          IF Cardinality({j \in 1..Len(IdsOf(L)) : IdsOf(L)[j] = i}) > 1 THEN Cardinality({j \in 1..Len(IdsOf(L)) : IdsOf(L)[j] = i}) ELSE 1

CfgName(c) == c.hashes \o "/" \o c.arrays \o "/" \o c.aoh \o "/" \o c.sets \o "/stop"
MOutcome(c) == LET m == Result(c) IN [ok |-> m.ok, info |-> m.info, out |-> IF m.ok THEN TabOf(m.tr) ELSE <<>>]
Groups == LET outs == {MOutcome(c) : c \in Cfgs} IN
          SetToSeq({[res |-> o, cfgs |-> SetToSeq({CfgName(c) : c \in {x \in Cfgs : MOutcome(x) = o}})] : o \in outs})
RECURSIVE WriteGroups(_, _)
WriteGroups(gs, from) ==
  IF from > Len(gs) THEN TRUE
  ELSE /\ CSVWrite("%1$s", <<ToJson([key |-> ToString(<<lrecs, rrecs, wrap>>), l |-> TabOf(L), r |-> TabOf(R), group |-> gs[from]])>>, IOEnv.CASES_OUT)
       /\ WriteGroups(gs, from + 1)
Emit == (Len(rrecs) > 0) => WriteGroups(Groups, 1)
=============================================================================
