----------------------------- MODULE MC_MergeAt -----------------------------
(***************************************************************************)
(* C11: left document x target path x right document x policy.  The same   *)
(* two-phase generator as MC_Merge; for every pair each path of the left   *)
(* document's vocabulary (existing single targets, several targets via a   *)
(* wildcard or search, missing creatable and non-creatable paths) is       *)
(* evaluated with MergeAt of spec/YMerge.tla; the frame law of C11 is an   *)
(* invariant; results are emitted for replay through args.mergeat.         *)
(***************************************************************************)
EXTENDS YMerge, YDocGen, Json, CSV, IOUtils, SequencesExt

VARIABLES side, lhs
mvars == <<doc, open, fresh, side, lhs>>
S(t, v) == [t |-> t, v |-> v]
Scalars2 == <<S("int", "1"), S("str", "a")>>
Keys2 == <<S("str", "a"), S("str", "b")>>
Members1 == <<S("str", "a")>>

Init == GInit /\ side = "L" /\ lhs = <<>>
Build == GNext /\ UNCHANGED <<side, lhs>>
Freeze == /\ side = "L" /\ fresh
          /\ lhs' = doc /\ side' = "R"
          /\ \/ \E k \in {"map", "seq", "set"} : doc' = <<Node(k, "", "", 0)>> /\ open' = <<1>>
             \/ \E i \in 1..Len(ScalarPool) : doc' = <<Node("s", ScalarPool[i].t, ScalarPool[i].v, 0)>> /\ open' = <<>>
          /\ fresh' = TRUE
Next == Build \/ Freeze
Spec == Init /\ [][Next]_mvars

Cfg(h, a, o, s) == [hashes |-> h, arrays |-> a, aoh |-> o, sets |-> s, idkey |-> "", amode |-> "stop"]
Cfgs == {Cfg("deep", "all", "all", "unique"), Cfg("left", "all", "all", "unique"), Cfg("right", "all", "all", "unique"),
         Cfg("deep", "unique", "deep", "unique"), Cfg("deep", "right", "right", "right"), Cfg("deep", "left", "left", "left")}

StrKeys(d) == UNION {{d[i].keys[j].v : j \in 1..Len(d[i].keys)} : i \in 1..Len(d)}
Paths(d) == {<<>>} \cup {<<Seg("KEY", k)>> : k \in StrKeys(d) \cup {"zz"}}
            \cup {<<Seg("INDEX", k)>> : k \in {"0", "1", "3"}}
            \cup {<<Seg("MATCH_ALL", "")>>, <<SearchSeg(FALSE, "=", ".", "1")>>, <<SearchSeg(FALSE, "=", ".", "zz")>>}
            \cup {<<Seg("KEY", k1), Seg("KEY", k2)>> : k1 \in StrKeys(d) \cup {"zz"}, k2 \in {"a", "y"}}
            \cup {<<Seg("KEY", k1), Seg("INDEX", "0")>> : k1 \in StrKeys(d) \cup {"zz"}}
            \cup {<<Seg("INDEX", "0"), Seg("KEY", "a")>>, <<Seg("MATCH_ALL", ""), Seg("KEY", "a")>>}

R == TreeOf(doc, 1)
Result(p, c) == MergeAt(lhs, R, p, c)

\* frame: everything outside the matched subtrees is unchanged (positions before the first target keep their content)
Frame == (side = "R" /\ fresh) => \A p \in Paths(lhs), c \in Cfgs :
  LET m == Result(p, c) ids == FlatIds(Sel(lhs, p).res) IN
  (m.ok /\ ~m.info /\ Len(ids) > 0 /\ Len(p) > 0) =>
     \A i \in 1..Len(lhs) : (\A j \in 1..Len(ids) : i < ids[j] /\ ~IsUnder(lhs, ids[j], i)) =>
         (i <= Len(m.doc) /\ m.doc[i].k = lhs[i].k /\ m.doc[i].t = lhs[i].t /\ m.doc[i].v = lhs[i].v /\ m.doc[i].keys = lhs[i].keys)

CaseName(p, c) == c.hashes \o "/" \o c.arrays \o "/" \o c.aoh \o "/" \o c.sets \o "@" \o Write(p, "/")
MOutcome(p, c) == LET m == Result(p, c) IN [ok |-> m.ok, info |-> m.info, out |-> IF m.ok THEN m.doc ELSE <<>>]
Groups == LET PC == {<<p, c>> : p \in Paths(lhs), c \in Cfgs}
              outs == {MOutcome(x[1], x[2]) : x \in PC} IN
          SetToSeq({[res |-> o, cfgs |-> SetToSeq({CaseName(x[1], x[2]) : x \in {y \in PC : MOutcome(y[1], y[2]) = o}})] : o \in outs})
RECURSIVE WriteGroups(_, _)
WriteGroups(gs, from) ==
  IF from > Len(gs) THEN TRUE
  ELSE /\ CSVWrite("%1$s", <<ToJson([key |-> ToString(<<lhs, doc>>), l |-> lhs, r |-> doc, group |-> gs[from]])>>, IOEnv.CASES_OUT)
       /\ WriteGroups(gs, from + 1)
Emit == (side = "R" /\ fresh) => WriteGroups(Groups, 1)
=============================================================================
