--------------------------- MODULE MC_MergeAtRules ---------------------------
(***************************************************************************)
(* C11 with per-path overrides: the right-hand Hash is merged at /t of the *)
(* left document; one [rules] entry addresses - in LEFT-document           *)
(* coordinates - a key beneath the merge point (/t/k, /t/z), the merge     *)
(* point itself (/t), or one [keys] entry names an identity key.  Rule     *)
(* paths are re-based on the merge point (mergerconfig.py:292-342,         *)
(* YAMLPath.strip_path_prefix).                                            *)
(***************************************************************************)
EXTENDS YMerge, Json, CSV, IOUtils, SequencesExt

VARIABLES lx, rx       \* indexes of the values held under the key "k" on the two sides
S(t, v) == [t |-> t, v |-> v]
Sc(t, v) == NewScalar(t, v)
MapT(keys, kids) == [NewCont("map") EXCEPT !.keys = keys, !.kids = kids]
SeqT(kids) == [NewCont("seq") EXCEPT !.kids = kids]
SetT(kids) == [NewCont("set") EXCEPT !.kids = kids]
Rec(i, v) == MapT(<<S("str", "id"), S("str", "v")>>, <<Sc("int", i), Sc("str", v)>>)
Vals == << Sc("int", "1"), Sc("str", "a"), SeqT(<<>>), SeqT(<<Sc("int", "1")>>), SeqT(<<Sc("int", "1"), Sc("str", "a")>>),
           MapT(<<>>, <<>>), MapT(<<S("str", "a")>>, <<Sc("int", "1")>>), MapT(<<S("str", "b")>>, <<Sc("str", "a")>>),
           SetT(<<Sc("str", "a")>>), SetT(<<Sc("str", "b")>>),
           SeqT(<<Rec("1", "a")>>), SeqT(<<Rec("1", "b"), Rec("2", "a")>>), SeqT(<<MapT(<<S("str", "v")>>, <<Sc("str", "a")>>)>>) >>
Init == lx \in 1..Len(Vals) /\ rx \in 1..Len(Vals)
Next == UNCHANGED <<lx, rx>>
Spec == Init /\ [][Next]_<<lx, rx>>

\* "z" is a second key present on both sides; its right-hand value 1 is the very object CPython shares with every other
\* 1 of the document (Vals[1], the elements of Vals[4], Vals[5]): a rule must govern its own path only
\* the target subtree under "t"; "o" is outside it
T == MapT(<<S("str", "k"), S("str", "z")>>, <<Vals[lx], Sc("int", "5")>>)
L == MapT(<<S("str", "t"), S("str", "o")>>, <<T, Sc("int", "1")>>)
R == MapT(<<S("str", "n"), S("str", "k"), S("str", "z")>>, <<Sc("int", "2"), Vals[rx], Sc("int", "1")>>)
lhs == TabOf(L)
doc == TabOf(R)
At == <<Seg("KEY", "t")>>
Base(h, a, o, s) == [hashes |-> h, arrays |-> a, aoh |-> o, sets |-> s, idkey |-> "", amode |-> "stop", rules |-> <<>>, keys |-> <<>>, at |-> <<>>, rootrule |-> ""]
Bases == {Base("deep", "all", "all", "unique"), Base("left", "left", "left", "left"), Base("right", "right", "right", "right"),
          Base("deep", "unique", "deep", "unique")}
RVal(k) == ValOf(R, S("str", k))
ModesFor(v) == IF v.k = "map" THEN {"deep", "left", "right"}
               ELSE IF v.k = "set" THEN {"left", "right", "unique"}
               ELSE IF IsAoHTree(v) THEN {"all", "left", "right", "unique", "deep"}
               ELSE IF v.k = "seq" THEN {"all", "left", "right", "unique"}
               ELSE {"left", "right"}
Cfgs == UNION {{[b EXCEPT !.rules = <<[k |-> k, mode |-> m]>>] : b \in Bases, m \in ModesFor(RVal(k))} : k \in {"k", "z"}}
        \cup {[b EXCEPT !.rootrule = m] : b \in Bases, m \in {"left", "right", "deep"}}
        \cup {[b EXCEPT !.keys = <<[k |-> "k", idkey |-> ik]>>, !.aoh = "deep"] : b \in {x \in Bases : IsAoHTree(RVal("k"))}, ik \in {"id", "v"}}
Result(c) == MergeAt(lhs, R, At, c)

TargetOf(d) == TreeOf(d, CHOOSE i \in 1..Len(d) : d[i].par = 1 /\ ChildPos(d, i) = 1)
\* a rule for the merge point decides for the two root Hashes; whatever the rule, "o" keeps its value
RuleWinsAt == \A c \in Cfgs : LET m == Result(c) IN
  /\ m.ok => TEq(TreeOf(m.doc, 1).kids[2], Sc("int", "1"))
  /\ (m.ok /\ c.rootrule = "left") => TEq(TargetOf(m.doc), T)
  /\ (m.ok /\ c.rootrule = "right") => TEq(TargetOf(m.doc), R)
  /\ (m.ok /\ Len(c.rules) = 1 /\ c.hashes = "deep" /\ c.rules[1].mode \in {"left", "right"}) =>
        LET k == S("str", c.rules[1].k) IN
        TEq(ValOf(TargetOf(m.doc), k), IF c.rules[1].mode = "left" THEN ValOf(T, k) ELSE ValOf(R, k))

CfgName(c) == c.hashes \o "/" \o c.arrays \o "/" \o c.aoh \o "/" \o c.sets \o "#"
              \o (IF c.rootrule # "" THEN "rule:/t=" \o c.rootrule
                  ELSE IF Len(c.rules) = 1 THEN "rule:/t/" \o c.rules[1].k \o "=" \o c.rules[1].mode ELSE "key:/t/" \o c.keys[1].k \o "=" \o c.keys[1].idkey)
              \o "@/t"
MOutcome(c) == LET m == Result(c) IN [ok |-> m.ok, info |-> m.info, out |-> IF m.ok THEN m.doc ELSE <<>>]
Groups == LET outs == {MOutcome(c) : c \in Cfgs} IN
          SetToSeq({[res |-> o, cfgs |-> SetToSeq({CfgName(c) : c \in {x \in Cfgs : MOutcome(x) = o}})] : o \in outs})
RECURSIVE WriteGroups(_, _)
WriteGroups(gs, from) ==
  IF from > Len(gs) THEN TRUE
  ELSE /\ CSVWrite("%1$s", <<ToJson([key |-> ToString(<<lhs, doc>>), l |-> lhs, r |-> doc, group |-> gs[from]])>>, IOEnv.CASES_OUT)
       /\ WriteGroups(gs, from + 1)
Emit == WriteGroups(Groups, 1)
=============================================================================
