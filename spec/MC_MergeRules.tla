--------------------------- MODULE MC_MergeRules ---------------------------
(***************************************************************************)
(* C05, per-path overrides: pairs of Hash documents x one [rules] entry or *)
(* one [keys] entry for a key present on both sides x a slice of the       *)
(* command-line policies.  The rule must win over the command line         *)
(* (precedence rules > CLI > defaults, mergerconfig.py:57-201).            *)
(***************************************************************************)
EXTENDS YMerge, Json, CSV, IOUtils, SequencesExt

VARIABLES lx, rx,      \* indexes of the values held under the key "k" on the two sides
          fam         \* "flat": k, z are keys of the root Hash; "nested": two sibling Hashes p, q hold the same keys k, z
S(t, v) == [t |-> t, v |-> v]
Sc(t, v) == NewScalar(t, v)
MapT(keys, kids) == [NewCont("map") EXCEPT !.keys = keys, !.kids = kids]
SeqT(kids) == [NewCont("seq") EXCEPT !.kids = kids]
SetT(kids) == [NewCont("set") EXCEPT !.kids = kids]
Rec(i, v) == MapT(<<S("str", "id"), S("str", "v")>>, <<Sc("int", i), Sc("str", v)>>)
Vals == << Sc("int", "1"), Sc("str", "a"), SeqT(<<>>), SeqT(<<Sc("int", "1")>>), SeqT(<<Sc("int", "1"), Sc("str", "a")>>),
           MapT(<<>>, <<>>), MapT(<<S("str", "a")>>, <<Sc("int", "1")>>), MapT(<<S("str", "b")>>, <<Sc("str", "a")>>),
           SetT(<<Sc("str", "a")>>), SetT(<<Sc("str", "b")>>),
           SeqT(<<Rec("1", "a")>>), SeqT(<<Rec("1", "b"), Rec("2", "a")>>), SeqT(<<MapT(<<S("str", "v")>>, <<Sc("str", "a")>>)>>) >>
Init == lx \in 1..Len(Vals) /\ rx \in 1..Len(Vals) /\ fam \in {"flat", "nested"}
Next == UNCHANGED <<lx, rx, fam>>
Spec == Init /\ [][Next]_<<lx, rx, fam>>

\* "z" is a second key present on both sides; its right-hand value 1 is the very object CPython shares with every other
\* 1 of the document (Vals[1], the elements of Vals[4], Vals[5]): a rule must govern its own path only
LSub == MapT(<<S("str", "k"), S("str", "z")>>, <<Vals[lx], Sc("int", "5")>>)
RSub == MapT(<<S("str", "k"), S("str", "z")>>, <<Vals[rx], Sc("int", "1")>>)
L == IF fam = "flat" THEN MapT(<<S("str", "k"), S("str", "z")>>, <<Vals[lx], Sc("int", "5")>>)
     ELSE MapT(<<S("str", "p"), S("str", "q")>>, <<LSub, LSub>>)
\* nested: the two right-hand Hashes are equal (their scalars are even the same objects in CPython); a rule for /p/k or /p
\* must not reach /q
R == IF fam = "flat" THEN MapT(<<S("str", "n"), S("str", "k"), S("str", "z")>>, <<Sc("int", "2"), Vals[rx], Sc("int", "1")>>)
     ELSE MapT(<<S("str", "p"), S("str", "q")>>, <<RSub, RSub>>)
lhs == TabOf(L)
doc == TabOf(R)
fresh == TRUE
side == "R"
Base(h, a, o, s) == [hashes |-> h, arrays |-> a, aoh |-> o, sets |-> s, idkey |-> "", amode |-> "stop", rules |-> <<>>, keys |-> <<>>, at |-> <<>>]
Bases == {Base("deep", "all", "all", "unique"), Base("left", "left", "left", "left"), Base("right", "right", "right", "right"),
          Base("deep", "unique", "deep", "unique")}
Common == {k \in {R.keys[j].v : j \in 1..Len(R.keys)} : \E j \in 1..Len(L.keys) : L.keys[j].v = k /\ L.keys[j].t = "str"}
RVal(k) == ValOf(R, S("str", k))
ModesFor(v) == IF v.k = "map" THEN {"deep", "left", "right"}
               ELSE IF v.k = "set" THEN {"left", "right", "unique"}
               ELSE IF IsAoHTree(v) THEN {"all", "left", "right", "unique", "deep"}
               ELSE IF v.k = "seq" THEN {"all", "left", "right", "unique"}
               ELSE {"left", "right"}
FlatCfgs == UNION {{[b EXCEPT !.rules = <<[k |-> k, mode |-> m]>>] : b \in Bases, m \in ModesFor(RVal(k))} : k \in Common}
        \cup {[b EXCEPT !.keys = <<[k |-> k, idkey |-> ik]>>, !.aoh = "deep"] : b \in Bases, k \in {x \in Common : IsAoHTree(RVal(x))}, ik \in {"id", "v"}}
NestedCfgs == UNION {{[b EXCEPT !.rules = <<[k |-> "p/" \o k, path |-> <<"p", k>>, mode |-> m]>>] : b \in Bases, m \in ModesFor(ValOf(RSub, S("str", k)))} : k \in {"k", "z"}}
        \cup {[b EXCEPT !.rules = <<[k |-> "p", path |-> <<"p">>, mode |-> m]>>] : b \in Bases, m \in {"deep", "left", "right"}}
        \cup {[b EXCEPT !.keys = <<[k |-> "p/k", path |-> <<"p", "k">>, idkey |-> ik]>>, !.aoh = "deep"] : b \in {x \in Bases : IsAoHTree(Vals[rx])}, ik \in {"id", "v"}}
Cfgs == IF fam = "flat" THEN FlatCfgs ELSE NestedCfgs
Result(c) == MergeDocs(L, R, c, "stop")

\* the rule decides for its node whatever the command line says
RuleWins == (side = "R" /\ fresh /\ L.k = "map" /\ fam = "flat") => \A c \in Cfgs :
  (Len(c.rules) = 1 /\ c.hashes = "deep" /\ c.rules[1].mode \in {"left", "right"}) =>
     LET m == Result(c) k == S("str", c.rules[1].k) IN
     m.ok => TEq(ValOf(m.tr, k), IF c.rules[1].mode = "left" THEN ValOf(L, k) ELSE ValOf(R, k))
\* ... and for no other node: under /q the result is what the same merge gives without any rule
RuleIsLocal == fam = "nested" => \A c \in Cfgs :
  LET m == Result(c) plain == MergeDocs(L, R, [c EXCEPT !.rules = <<>>, !.keys = <<>>], "stop") q == S("str", "q") IN
  (m.ok /\ plain.ok /\ Len(c.keys) = 0) => TEq(ValOf(m.tr, q), ValOf(plain.tr, q))

CfgName(c) == c.hashes \o "/" \o c.arrays \o "/" \o c.aoh \o "/" \o c.sets \o "#"
              \o (IF Len(c.rules) = 1 THEN "rule:" \o c.rules[1].k \o "=" \o c.rules[1].mode ELSE "key:" \o c.keys[1].k \o "=" \o c.keys[1].idkey)
MOutcome(c) == LET m == Result(c) IN [ok |-> m.ok, info |-> m.info, out |-> IF m.ok THEN TabOf(m.tr) ELSE <<>>]
Groups == LET outs == {MOutcome(c) : c \in Cfgs} IN
          SetToSeq({[res |-> o, cfgs |-> SetToSeq({CfgName(c) : c \in {x \in Cfgs : MOutcome(x) = o}})] : o \in outs})
RECURSIVE WriteGroups(_, _)
WriteGroups(gs, from) ==
  IF from > Len(gs) THEN TRUE
  ELSE /\ CSVWrite("%1$s", <<ToJson([key |-> ToString(<<lhs, doc>>), l |-> lhs, r |-> doc, group |-> gs[from]])>>, IOEnv.CASES_OUT)
       /\ WriteGroups(gs, from + 1)
Emit == (side = "R" /\ fresh /\ L.k = "map" /\ Common # {}) => WriteGroups(Groups, 1)
=============================================================================
