----------------------------- MODULE MC_Parser -----------------------------
(***************************************************************************)
(* C14 / C08 model: every text over Tokens up to MaxLen tokens.            *)
(* State = the text built so far (each reachable state is one complete     *)
(* input, reached by exactly one behaviour).  In every state the parser    *)
(* machine is run on the whole text under each separator setting and       *)
(* escape mode; NoCrash is the C14 design theorem, RoundTrip the C08 one.  *)
(* The Emit invariant writes one JSON line per text with the expected      *)
(* outcome (and, up to EmitLen, the expected segments and canonical text)  *)
(* for replay into the real YAMLPath class.                                *)
(***************************************************************************)
EXTENDS YPathSyntax, Json, CSV, IOUtils

CONSTANTS Tokens, MaxLen, EmitLen,
          Prefix, Suffix     \* the text parsed in each state is Prefix \o body \o Suffix
\* Token sets are defined HERE, not in the cfg files: TLC's cfg parser keeps backslash escapes in string literals ("\\"
\* there is a two-character string), so a backslash or a double quote written in a cfg is not the character meant.
TokFull == {".", "/", "[", "]", "(", ")", "'", "\"", "\\", " ", "&", "*", "!", "=", "^", "$", "%", "<", ">", "~", "+", "-", ":", ",", "a", "b", "1", "max"}
TokCore4 == {".", "/", "[", "]", "(", ")", "'", "\\", " ", "&", "*", "=", "~", "+", "a", "max"}
TokCore6 == {"/", "[", "]", "(", ")", "'", "\\", "=", "~", "a"}
TokPinned == {".", "[", "]", "a"}
VARIABLES body, n

txt == Prefix \o body \o Suffix

vars == <<body, n>>
Init == body = "" /\ n = 0
Next == \E c \in Tokens : n < MaxLen /\ body' = body \o c /\ n' = n + 1
Spec == Init /\ [][Next]_vars

Settings == <<"auto", "dot", "fslash">>
R(sep, strip) == Parse(txt, sep, strip)

NoCrash == /\ \A i \in 1..3 : \A st \in BOOLEAN : R(Settings[i], st).out # "crash"
           /\ \A i \in 1..3 : ForcedEscaped(txt, Settings[i]).out # "crash"

\* C08 (canonical string is re-parsable to the same segments in either notation and a fixed point).
\* Stated for texts whose unescaped parse succeeds; see YRoundTrip for the precise domain.
OutCode(ps) == IF ps.out = "done" THEN "o" ELSE IF ps.out = "err" THEN "e" ELSE "c"

Rec ==
  LET ae == R("auto", TRUE) au == R("auto", FALSE) de == ForcedEscaped(txt, "dot") fe == ForcedEscaped(txt, "fslash")
      sepc == InferSep(txt, "auto")
  IN IF n <= EmitLen THEN
       [t |-> txt, code |-> OutCode(ae) \o OutCode(au) \o OutCode(de) \o OutCode(fe),
        ae |-> IF ae.out = "done" THEN ae.segs ELSE <<>>,
        au |-> IF au.out = "done" THEN au.segs ELSE <<>>,
        de |-> IF de.out = "done" THEN de.segs ELSE <<>>,
        fe |-> IF fe.out = "done" THEN fe.segs ELSE <<>>,
        s  |-> IF au.out = "done" THEN Str(au.segs, sepc) ELSE ""]
     ELSE [t |-> txt, code |-> OutCode(ae) \o OutCode(au) \o OutCode(de) \o OutCode(fe)]

Emit == CSVWrite("%1$s", <<ToJson(Rec)>>, IOEnv.CASES_OUT)
=============================================================================
