--------------------------- MODULE MC_PathsSearch ---------------------------
(***************************************************************************)
(* C07 model.  Documents come from the generator machine (YDocGen: hashes, *)
(* lists, Sets, int and str keys, one anchored scalar with aliases under   *)
(* keys and in lists).  In every fresh state the search vocabulary of the  *)
(* document is formed:                                                     *)
(*   terms     9 operators x {plain, inverted} x (the document's own       *)
(*             scalar texts, key texts, anchor names + near misses)        *)
(*   options   {values, keys+values, keys only} x {-A, -Y, -y, -l}         *)
(*             x {--refnames off/on} x {--expand off/on}   (48 combinations;*)
(*             OptSample of them per document in the quick tier, chosen by *)
(*             a hash of the document so that all are used equally)        *)
(*   notations dot and slash (they only affect the printed text, so the    *)
(*             re-resolution theorem is stated per position and notation)  *)
(* Family "side": from every generated document the documents with        *)
(* anchored / aliased KEYS (K, optionally L) and one MERGE KEY (a hash on  *)
(* the rightmost spine merges an earlier hash of scalars, anchored M) are  *)
(* derived together with their side structure (YPathsSearch: kanchor,      *)
(* kalias, merges, merged; WellFormedSide is checked on each); the same    *)
(* theorems are required of them.                                          *)
(* Terms that give the same match table on the document are one class:     *)
(* the search depends on the terms only through that table, so evaluating  *)
(* one table per class covers every term of the vocabulary.                *)
(*                                                                         *)
(* Design theorems (invariant Check):                                      *)
(*   T0  ExprTerms(Expr(T)) = T              expression -> terms (ASSUME)  *)
(*   T1  every position's printed path, in both notations, parses and      *)
(*       selects exactly that position (or, named by anchor in a list, the *)
(*       places of that anchored node in the list)                         *)
(*   T2  positions(Search) = Expected, no repeats       (sound + complete) *)
(*   T3  every result's path is the path of its position                   *)
(*   T4  with --expand each matched parent is replaced by exactly its      *)
(*       permissible leaf descendants                                      *)
(* With the repaired design (PinnedDefects = {}, the default) T2/T4 hold   *)
(* for every case.  A pinned design leaves the declarative definition in   *)
(* its deviation class (DevClass): the MC_PathsSearch_pin_* configurations *)
(* require the theorems there too and must be violated (the check asserts  *)
(* that); with Exempt = TRUE such cases are emitted with both answers.     *)
(* Every (document, options, expected positions) case is written for       *)
(* replay, grouped and chunked.                                            *)
(***************************************************************************)
EXTENDS YPathsSearch, YDocGen, Json, CSV, IOUtils, SequencesExt

CONSTANTS Rich,          \* BOOLEAN: the larger term vocabulary
          OptSample,     \* option combinations per document (48 = the full product)
          ExprCap,       \* expressions listed per class (all are covered by the theorems; these are replayed)
          Shard, Shards, \* emit only documents of this shard
          Family,        \* "base": the generator's documents; "side": the documents derived from them that carry
                         \* anchored / aliased keys and a merge key (side structure of YPathsSearch)
          SideKinds,     \* side family: which derived documents - "key" (key anchors only), "merge" (a merge key, with
                         \* and without key anchors)
          MaxKeyAnchors, \* side family: 1 = one key anchor K (with at most one alias); 2 = also a second anchored key L
          Exempt         \* TRUE: T2/T4 are not required inside the deviation classes of the pinned designs
                         \* (PinnedDefects); FALSE with a pinned design = a configuration that must be violated

Spec == GInit /\ [][GNext]_gvars

(* ---- pools ---- *)
S(t, v) == [t |-> t, v |-> v]
ScalarsQ == <<S("int", "1"), S("str", "a"), S("str", "ab")>>
ScalarsT == <<S("null", ""), S("bool", "true"), S("int", "1"), S("float", "1.5"), S("str", "a"), S("str", "ab"), S("str", "1")>>
ScalarsN == <<S("null", ""), S("int", "1"), S("str", "a")>>
Scalars1 == <<S("int", "1")>>
Scalars2 == <<S("int", "1"), S("str", "a")>>
Keys3 == <<S("str", "a"), S("str", "b"), S("int", "0")>>
Keys2 == <<S("str", "a"), S("str", "b")>>
Members2 == <<S("str", "a"), S("int", "1")>>
Members1 == <<S("str", "a")>>
\* keys and members drawn from the characters escape_path_section protects
KeysPunct == <<S("str", "."), S("str", "/"), S("str", "["), S("str", "]"), S("str", "("), S("str", ")"), S("str", "'"), S("str", "\""),
              S("str", " "), S("str", "^"), S("str", "$"), S("str", "%"), S("str", "a.b"), S("str", "/x"), S("str", "a b"), S("str", "x/y"), S("str", "[0]")>>
MembersPunct == <<S("str", "a.b"), S("str", "x y"), S("str", "[z]"), S("str", "/m")>>

(* ---- the search vocabulary ---- *)
Ops == {"=", "^", "$", "%", "<", ">", "<=", ">=", "=~"}
Lowers == {LowerOf[c] : c \in Uppers}
SafeCh == Digits \cup Uppers \cup Lowers \cup {"."}
SimpleText(t) == t # "" /\ \A i \in 1..Len(t) : Ch(t, i) \in SafeCh       \* can be written as it is
\* can be written with backslash escapes: the characters the path syntax gives a meaning to; a term that begins and
\* ends with the same quote character loses them in the parser (known finding F-C08-1) and is left out
EscCh == SafeCh \cup {"/", "[", "]", "(", ")", "'", "\"", " ", "^", "$", "%"}
EscText(t) == /\ t # "" /\ \A i \in 1..Len(t) : Ch(t, i) \in EscCh
              /\ ~(Ch(t, 1) \in {"'", "\""} /\ Ch(t, Len(t)) = Ch(t, 1))
PlainSp(T) == SimpleText(T.term)
EscSp(T) == T.op # "=~" /\ HasPunct(T.term) /\ EscText(T.term)
Spellings(T) == (IF PlainSp(T) THEN {Expr(T)} ELSE {}) \cup (IF EscSp(T) THEN {ExprEsc(T)} ELSE {})
FixedTerms == IF Rich THEN {"a", "1", "zz", "A", "0.5", "b"} ELSE {"a", "1", "zz"}
DocTexts(d, sx) == {d[i].v : i \in ScalarIds(d)} \cup {KeyOf(d, i).v : i \in KeyedIds(d)} \cup AnchorNames(d) \cup KAnchorNames(sx)
TermsOf(d, sx) == {t \in DocTexts(d, sx) : SimpleText(t) \/ EscText(t)} \cup FixedTerms
Ts(d, sx) == {T \in {Terms(inv, op, t) : inv \in BOOLEAN, op \in Ops, t \in TermsOf(d, sx)} : PlainSp(T) \/ EscSp(T)}

\* Every comparison any document of this configuration can ask for, evaluated once (TLC evaluates a
\* constant definition a single time): the universe of haystacks and terms is fixed by the pools.
PoolOf(sq) == {sq[i] : i \in 1..Len(sq)}
SideAnchors == IF Family = "side" THEN {"K", "L", "M"} ELSE {}        \* key anchors K, L; the merged hash's anchor M
HayU == {Hay(p.t, p.v) : p \in PoolOf(ScalarPool) \cup PoolOf(KeyPool) \cup PoolOf(SetPool)} \cup {Hay("str", a) : a \in AnchorPool \cup SideAnchors}
TermU == {t \in {h.v : h \in HayU} : SimpleText(t) \/ EscText(t)} \cup FixedTerms
TU == {T \in {Terms(inv, op, t) : inv \in BOOLEAN, op \in Ops, t \in TermU} : PlainSp(T) \/ EscSp(T)}
MT == [T \in TU |-> [h \in HayU |-> [m |-> Hit(T, h), s |-> SilentT(T, h)]]]
HitM(T, h) == MT[T][h].m
SilM(T, h) == MT[T][h].s

\* T0: an expression is turned into exactly the terms it spells, in either spelling (checked once over the whole universe)
ASSUME \A T \in TU : \A sp \in Spellings(T) : LET e == ExprTerms(sp) IN e.ok /\ e.inv = T.inv /\ e.op = T.op /\ e.term = T.term

(* ---- options ---- *)
NOpts == 48
OptOf(n) ==
  LET mode == n % 3  am == (n \div 3) % 4 IN
  Opts(mode # 2, mode # 0, (n \div 12) % 2 = 1, am \in {1, 3}, am \in {2, 3}, (n \div 24) % 2 = 1)
RECURSIVE HashAcc(_, _)
HashAcc(d, i) == IF i > Len(d) THEN 0
  ELSE i * (Len(d[i].v) + 2 * Len(d[i].kids) + (IF d[i].anchor # "" THEN 3 ELSE 0) + (IF d[i].k = "map" THEN 5 ELSE IF d[i].k = "seq" THEN 11 ELSE 0)
            + (IF Len(d[i].keys) > 0 THEN Len(d[i].keys[Len(d[i].keys)].v) + 1 ELSE 0)) + HashAcc(d, i + 1)
Sampled(d) == IF OptSample >= NOpts THEN 0..(NOpts - 1) ELSE {(HashAcc(d, 1) + 7 * k) % NOpts : k \in 0..(OptSample - 1)}

(* ---- T1: re-resolution, per position and notation ---- *)
ResOne(d, i) ==
  LET st == StepsTo(d, i)  a == ReResolve(d, st, ".")  b == ReResolve(d, st, "/")  pl == Places(d, i) IN
  [i |-> i, dot |-> a.txt, sl |-> b.txt, pl |-> pl,
   ok |-> a.err = "" /\ a.ids = pl /\ b.err = "" /\ b.ids = pl]

(* ---- T2..T4: one (table, options) evaluation ---- *)
Core(d, sx, tb, O) ==
  LET rs == SearchRunX(d, sx, tb, O)  mt == MatchingX(d, sx, tb, O)  cls == DevClassX(d, sx, tb, O, mt) IN
  [exp |-> SortIds(ExpectedOfX(d, sx, O, mt)), hit |-> SortIds(mt), mir |-> Ids(rs.out),
   cls |-> cls, info |-> InfoCaseX(d, sx, tb, O, mt), log |-> rs.log,
   ok |-> /\ PathsCanonicalX(d, sx, rs.out)
          /\ ((Exempt /\ cls # "") \/ (SoundCompleteX(d, sx, O, rs.out, mt) /\ ExpandsExactlyX(d, sx, O, rs.out, mt)))]

\* Per sampled option combination the terms fall into classes by the part of their table the search can
\* consult under these options (Sig: that part written as two numbers).  One evaluation per class (on the
\* table of a representative; a second member is evaluated as a cross-check of the classing); classes
\* with the same outcome are written as one case listing expressions of each - all are covered by the
\* theorems, ExprCap of them are replayed.
Bit(b, k) == IF b THEN 2 ^ k ELSE 0
RECURSIVE SumOver(_, _)
SumOver(f, Q) == IF Q = {} THEN 0 ELSE LET x == CHOOSE y \in Q : TRUE IN f[x] + SumOver(f, Q \ {x})
IsMergeRef(d, sx, i) == \E u \in 1..Len(d) : \E r \in 1..Len(sx.merges[u]) : sx.merges[u][r] = i
Sig(d, sx, tb, O) ==
  <<SumOver([i \in 2..Len(d) |->
               Bit(d[i].k = "s" /\ (O.vals \/ InSet(d, i)) /\ tb.val[i], i)
             + Bit(O.keys /\ i \in KeyedIds(d) /\ tb.key[i], 12 + i)], 2..Len(d)),
    SumOver([i \in 2..Len(d) |->
               Bit((O.refs \/ (O.va /\ IsMergeRef(d, sx, i))) /\ d[i].anchor # "" /\ d[i].alias = 0 /\ tb.ref[d[i].anchor], i)
             + Bit(O.refs /\ sx.kanchor[i] # "" /\ i \notin sx.kalias /\ tb.ref[sx.kanchor[i]], 12 + i)], 2..Len(d))
    + Bit(O.vals /\ tb.setv, 24) + Bit((O.vals \/ HasSet(d)) /\ tb.ival, 25) + Bit(O.keys /\ tb.ikey, 26)
    + Bit((O.refs \/ (O.va /\ HasMerges(d, sx))) /\ tb.iref, 27)>>

Cap(s) == IF Len(s) > ExprCap THEN SubSeq(s, 1, ExprCap) ELSE s
\* The terms are numbered (tsq) so that everything per term is a sequence: TLC applies functions over
\* 1..N in constant time but searches record-valued domains.
\* (values used inside nested set constructors are handed over as fields of a variable bound by a set
\* constructor - pk - because TLC re-evaluates LET definitions and arguments referenced from there)
PerOptOut(n, xs, es, sg, cores) ==
  {[o |-> n, x |-> LET cs == {c \in DOMAIN cores : cores[c] = g} IN Cap(SetToSeq({xs[i] : i \in {k \in DOMAIN sg : sg[k] \in cs}} \ {""})),
    \* the backslash-escaped spellings of terms of the class (same terms, hence the same expectation)
    spell |-> LET cs == {c \in DOMAIN cores : cores[c] = g} IN Cap(SetToSeq({es[i] : i \in {k \in DOMAIN sg : sg[k] \in cs}} \ {""})),
    exp |-> g.exp, hit |-> g.hit, mir |-> g.mir, cls |-> g.cls, info |-> g.info, log |-> g.log, ok |-> g.ok]
   : g \in {cores[c] : c \in DOMAIN cores}}
PerOpt(d, sx, xs, es, tabs, n) ==   \* xs[j], es[j], tabs[j]: plain and escaped expression text ("" = none) and table of the j-th terms
  LET O == OptOf(n)
      N == Len(tabs)
      sg == [j \in 1..N |-> Sig(d, sx, tabs[j], O)]
      classes == {sg[j] : j \in 1..N}
      rep == [c \in classes |-> CHOOSE j \in 1..N : sg[j] = c]                     \* first member (TLC's CHOOSE takes the first)
      alt == [c \in classes |-> N + 1 - (CHOOSE k \in 1..N : sg[N + 1 - k] = c)]     \* last member
      cores == [c \in classes |-> LET g == Core(d, sx, tabs[rep[c]], O) IN
                                  [g EXCEPT !.ok = @ /\ (alt[c] = rep[c] \/ Core(d, sx, tabs[alt[c]], O) = g)]]
  IN UNION {PerOptOut(n, xs, es, pk.sg, pk.cores) : pk \in {[sg |-> sg, cores |-> cores]}}
\* (pk is bound by a set constructor, not by LET or as an argument: TLC hands a lazily evaluated argument on
\* unevaluated into every iteration of a set constructor, and would rebuild the tables for each option)
Cases(d, sx) ==
  UNION {UNION {PerOpt(d, sx, pk.xs, pk.es, pk.tabs, n) : n \in Sampled(d)} :
         pk \in {LET tsq == SetToSeq(Ts(d, sx)) IN
                 [xs |-> [j \in 1..Len(tsq) |-> IF PlainSp(tsq[j]) THEN Expr(tsq[j]) ELSE ""],
                  es |-> [j \in 1..Len(tsq) |-> IF EscSp(tsq[j]) THEN ExprEsc(tsq[j]) ELSE ""], tabs |-> [j \in 1..Len(tsq) |-> TabWith(d, sx, tsq[j], HitM, SilM)]]}}

(* ---- the side family: documents derived from a generated document ---- *)
\* key anchors: K on the key of position p, optionally an alias of it on a later pair with the same key text;
\* with MaxKeyAnchors = 2 also L on the key of another position
KeySides(d) ==
  LET n0 == NoSide(d)
      one == UNION {{[n0 EXCEPT !.kanchor = [i \in 1..Len(d) |-> IF i = p \/ i \in Q THEN "K" ELSE ""], !.kalias = Q]
                     : Q \in {{}} \cup {{q} : q \in {y \in KeyedIds(d) : y > p /\ KeyOf(d, y) = KeyOf(d, p)}}}
                    : p \in KeyedIds(d)}
      two == IF MaxKeyAnchors < 2 THEN {} ELSE
             UNION {{[k EXCEPT !.kanchor[p2] = "L"] : p2 \in {y \in KeyedIds(d) : k.kanchor[y] = ""}} : k \in one}
  IN one \cup two
\* one merge: the hash u, whose subtree ends the document (so the merged-in pairs are appended to the table),
\* merges an earlier hash t of scalars, which gets the anchor M
FlatMap(d, t) == d[t].k = "map" /\ Len(d[t].kids) > 0 /\ \A j \in 1..Len(d[t].kids) : d[d[t].kids[j]].k = "s"
SpineMap(d, u) == u # Root /\ d[u].k = "map" /\ Cardinality(SubtreeIds(d, u)) = Len(d) - u + 1
MergeInto(d, ks, t, u) ==
  LET idxs == SelectSeq([j \in 1..Len(d[t].kids) |-> j], LAMBDA j : \A o \in 1..Len(d[u].keys) : d[u].keys[o] # d[t].keys[j])
      n == Len(idxs)
      src == [k \in 1..n |-> d[t].kids[idxs[k]]]
      new == [k \in 1..n |-> [d[src[k]] EXCEPT !.par = u,
                               !.alias = IF d[src[k]].anchor = "" THEN 0 ELSE IF d[src[k]].alias # 0 THEN d[src[k]].alias ELSE src[k]]]
      d1 == [d EXCEPT ![t].anchor = "M", ![u].kids = @ \o [k \in 1..n |-> Len(d) + k], ![u].keys = @ \o [k \in 1..n |-> d[t].keys[idxs[k]]]]
  IN [d |-> d1 \o new,
      sx |-> [kanchor |-> ks.kanchor \o [k \in 1..n |-> ks.kanchor[src[k]]],
              kalias |-> ks.kalias \cup {Len(d) + k : k \in {y \in 1..n : ks.kanchor[src[y]] # ""}},
              merges |-> [i \in 1..(Len(d) + n) |-> IF i = u THEN <<t>> ELSE <<>>],
              merged |-> (Len(d) + 1)..(Len(d) + n)]]
Variants(d) ==
  LET sides == {NoSide(d)} \cup KeySides(d)
      pairs == {<<t, u>> \in (2..Len(d)) \X (2..Len(d)) : t < u /\ FlatMap(d, t) /\ SpineMap(d, u)}
  IN (IF "key" \in SideKinds THEN {[d |-> d, sx |-> k] : k \in KeySides(d)} ELSE {})
     \cup (IF "merge" \in SideKinds THEN {MergeInto(d, k, p[1], p[2]) : k \in sides, p \in pairs} ELSE {})

ChunkSize == 10
RECURSIVE WriteChunks(_, _, _, _, _)
WriteChunks(dd, sx, res, cs, from) ==
  IF from > Len(cs) THEN TRUE
  ELSE /\ CSVWrite("%1$s", <<ToJson([doc |-> dd, sx |-> sx, res |-> IF from = 1 THEN res ELSE <<>>,
                                     cases |-> SubSeq(cs, from, IF from + ChunkSize - 1 > Len(cs) THEN Len(cs) ELSE from + ChunkSize - 1)])>>, IOEnv.CASES_OUT)
       /\ WriteChunks(dd, sx, res, cs, from + ChunkSize)

ShardEnv == NatVal(IOEnv.SHARD)     \* cfg: Shard <- ShardEnv lets the harness pick the shard (by seed)
MineShard == (Len(doc) + Len(doc[Len(doc)].v) + Len(doc[Len(doc)].keys) + HashAcc(doc, 1)) % Shards = Shard

\* theorems and emission for one document with its side structure (sx as a JSON-able record: sets as sequences)
SideJson(sx) == [kanchor |-> sx.kanchor, kalias |-> SortIds(sx.kalias), merges |-> sx.merges, merged |-> SortIds(sx.merged)]
CheckOne(d, sx) ==
  \A pk \in {[res |-> [j \in 1..(Len(d) - 1) |-> ResOne(d, j + 1)], cs |-> SetToSeq(Cases(d, sx))]} :   \* (bound, not LET: see PerOptOut)
     /\ WellFormedSide(d, sx)
     /\ \A j \in 1..Len(pk.res) : pk.res[j].ok                             \* T1
     /\ \A j \in 1..Len(pk.cs) : pk.cs[j].ok                               \* T2-T4 (+ the classing cross-check)
     /\ WriteChunks(d, SideJson(sx), pk.res, pk.cs, 1)

Check ==
  (fresh /\ MineShard) =>
    IF Family = "base" THEN CheckOne(doc, NoSide(doc))
    ELSE \A v \in Variants(doc) : CheckOne(v.d, v.sx)
=============================================================================
