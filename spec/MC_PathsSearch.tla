--------------------------- MODULE MC_PathsSearch ---------------------------
(***************************************************************************)
(* C07 model.  Documents come from the generator machine (YDocGen: hashes, *)
(* lists, Sets, int and str keys, one anchored scalar with aliases under   *)
(* keys and in lists).  In every fresh state the search vocabulary of the  *)
(* document is formed:                                                     *)
(*   terms     9 operators x {plain, inverted} x (the document's own       *)
(*             scalar texts, key texts, anchor names + near misses)        *)
(*   options   {values, keys+values, keys only} x {-A, -Y, -y, -l}         *)
(*             x {--refnames off/on} x {--expand off/on}   (48 combinations;*)
(*             OptSample of them per document in the quick tier, chosen by *)
(*             a hash of the document so that all are used equally)        *)
(*   notations dot and slash (they only affect the printed text, so the    *)
(*             re-resolution theorem is stated per position and notation)  *)
(* Terms that give the same match table on the document are one class:     *)
(* the search depends on the terms only through that table, so evaluating  *)
(* one table per class covers every term of the vocabulary.                *)
(*                                                                         *)
(* Design theorems (invariant Check):                                      *)
(*   T0  ExprTerms(Expr(T)) = T              expression -> terms (ASSUME)  *)
(*   T1  every position's printed path, in both notations, parses and      *)
(*       selects exactly that position (or, named by anchor in a list, the *)
(*       places of that anchored node in the list)                         *)
(*   T2  positions(Search) = Expected, no repeats       (sound + complete) *)
(*   T3  every result's path is the path of its position                   *)
(*   T4  with --expand each matched parent is replaced by exactly its      *)
(*       permissible leaf descendants                                      *)
(* With the repaired design (PinnedDefects = {}, the default) T2/T4 hold   *)
(* for every case.  A pinned design leaves the declarative definition in   *)
(* its deviation class (DevClass): the MC_PathsSearch_pin_* configurations *)
(* require the theorems there too and must be violated (the check asserts  *)
(* that); with Exempt = TRUE such cases are emitted with both answers.     *)
(* Every (document, options, expected positions) case is written for       *)
(* replay, grouped and chunked.                                            *)
(***************************************************************************)
EXTENDS YPathsSearch, YDocGen, Json, CSV, IOUtils, SequencesExt

CONSTANTS Rich,          \* BOOLEAN: the larger term vocabulary
          OptSample,     \* option combinations per document (48 = the full product)
          ExprCap,       \* expressions listed per class (all are covered by the theorems; these are replayed)
          Shard, Shards, \* emit only documents of this shard
          Exempt         \* TRUE: T2/T4 are not required inside the deviation classes of the pinned designs
                         \* (PinnedDefects); FALSE with a pinned design = a configuration that must be violated

Spec == GInit /\ [][GNext]_gvars

(* ---- pools ---- *)
S(t, v) == [t |-> t, v |-> v]
ScalarsQ == <<S("int", "1"), S("str", "a"), S("str", "ab")>>
ScalarsT == <<S("null", ""), S("bool", "true"), S("int", "1"), S("float", "1.5"), S("str", "a"), S("str", "ab"), S("str", "1")>>
ScalarsN == <<S("null", ""), S("int", "1"), S("str", "a")>>
Scalars1 == <<S("int", "1")>>
Scalars2 == <<S("int", "1"), S("str", "a")>>
Keys3 == <<S("str", "a"), S("str", "b"), S("int", "0")>>
Keys2 == <<S("str", "a"), S("str", "b")>>
Members2 == <<S("str", "a"), S("int", "1")>>
Members1 == <<S("str", "a")>>
\* keys and members drawn from the characters escape_path_section protects
KeysPunct == <<S("str", "."), S("str", "/"), S("str", "["), S("str", "]"), S("str", "("), S("str", ")"), S("str", "'"), S("str", "\""),
              S("str", " "), S("str", "^"), S("str", "$"), S("str", "%"), S("str", "a.b"), S("str", "/x"), S("str", "a b"), S("str", "x/y"), S("str", "[0]")>>
MembersPunct == <<S("str", "a.b"), S("str", "x y"), S("str", "[z]"), S("str", "/m")>>

(* ---- the search vocabulary ---- *)
Ops == {"=", "^", "$", "%", "<", ">", "<=", ">=", "=~"}
Lowers == {LowerOf[c] : c \in Uppers}
SafeCh == Digits \cup Uppers \cup Lowers \cup {"."}
SimpleText(t) == t # "" /\ \A i \in 1..Len(t) : Ch(t, i) \in SafeCh
FixedTerms == IF Rich THEN {"a", "1", "zz", "A", "0.5", "b"} ELSE {"a", "1", "zz"}
DocTexts(d) == {d[i].v : i \in ScalarIds(d)} \cup {KeyOf(d, i).v : i \in KeyedIds(d)} \cup AnchorNames(d)
TermsOf(d) == {t \in DocTexts(d) : SimpleText(t)} \cup FixedTerms
Ts(d) == {Terms(inv, op, t) : inv \in BOOLEAN, op \in Ops, t \in TermsOf(d)}

\* Every comparison any document of this configuration can ask for, evaluated once (TLC evaluates a
\* constant definition a single time): the universe of haystacks and terms is fixed by the pools.
PoolOf(sq) == {sq[i] : i \in 1..Len(sq)}
HayU == {Hay(p.t, p.v) : p \in PoolOf(ScalarPool) \cup PoolOf(KeyPool) \cup PoolOf(SetPool)} \cup {Hay("str", a) : a \in AnchorPool}
TermU == {t \in {h.v : h \in HayU} : SimpleText(t)} \cup FixedTerms
TU == {Terms(inv, op, t) : inv \in BOOLEAN, op \in Ops, t \in TermU}
MT == [T \in TU |-> [h \in HayU |-> [m |-> Hit(T, h), s |-> SilentT(T, h)]]]
HitM(T, h) == MT[T][h].m
SilM(T, h) == MT[T][h].s

\* T0: an expression is turned into exactly the terms it spells (checked once over the whole universe)
ASSUME \A T \in TU : LET e == ExprTerms(Expr(T)) IN e.ok /\ e.inv = T.inv /\ e.op = T.op /\ e.term = T.term

(* ---- options ---- *)
NOpts == 48
OptOf(n) ==
  LET mode == n % 3  am == (n \div 3) % 4 IN
  Opts(mode # 2, mode # 0, (n \div 12) % 2 = 1, am \in {1, 3}, am \in {2, 3}, (n \div 24) % 2 = 1)
RECURSIVE HashAcc(_, _)
HashAcc(d, i) == IF i > Len(d) THEN 0
  ELSE i * (Len(d[i].v) + 2 * Len(d[i].kids) + (IF d[i].anchor # "" THEN 3 ELSE 0) + (IF d[i].k = "map" THEN 5 ELSE IF d[i].k = "seq" THEN 11 ELSE 0)
            + (IF Len(d[i].keys) > 0 THEN Len(d[i].keys[Len(d[i].keys)].v) + 1 ELSE 0)) + HashAcc(d, i + 1)
Sampled(d) == IF OptSample >= NOpts THEN 0..(NOpts - 1) ELSE {(HashAcc(d, 1) + 7 * k) % NOpts : k \in 0..(OptSample - 1)}

(* ---- T1: re-resolution, per position and notation ---- *)
ResOne(d, i) ==
  LET st == StepsTo(d, i)  a == ReResolve(d, st, ".")  b == ReResolve(d, st, "/")  pl == Places(d, i) IN
  [i |-> i, dot |-> a.txt, sl |-> b.txt, pl |-> pl,
   ok |-> a.err = "" /\ a.ids = pl /\ b.err = "" /\ b.ids = pl]

(* ---- T2..T4: one (table, options) evaluation ---- *)
Core(d, tb, O) ==
  LET rs == SearchRun(d, tb, O)  mt == MatchingM(d, tb, O)  cls == DevClassR(d, tb, O, mt) IN
  [exp |-> SortIds(ExpectedOf(d, O, mt)), hit |-> SortIds(mt), mir |-> Ids(rs.out),
   cls |-> cls, info |-> InfoCase(d, tb, O), log |-> rs.log,
   ok |-> /\ PathsCanonicalR(d, rs.out)
          /\ ((Exempt /\ cls # "") \/ (SoundCompleteR(d, O, rs.out, mt) /\ ExpandsExactlyR(d, O, rs.out, mt)))]

\* Per sampled option combination the terms fall into classes by the part of their table the search can
\* consult under these options (Sig: that part written as a number).  One evaluation per class (on the
\* table of a representative; a second member is evaluated as a cross-check of the classing); classes
\* with the same outcome are written as one case listing expressions of each - all are covered by the
\* theorems, ExprCap of them are replayed.
Bit(b, k) == IF b THEN 2 ^ k ELSE 0
RECURSIVE SumOver(_, _)
SumOver(f, Q) == IF Q = {} THEN 0 ELSE LET x == CHOOSE y \in Q : TRUE IN f[x] + SumOver(f, Q \ {x})
Sig(d, tb, O) ==
  SumOver([i \in 2..Len(d) |->
             Bit(d[i].k = "s" /\ (O.vals \/ InSet(d, i)) /\ tb.val[i], i)
           + Bit(O.keys /\ i \in KeyedIds(d) /\ tb.key[i], 8 + i)
           + Bit(O.refs /\ d[i].anchor # "" /\ d[i].alias = 0 /\ tb.ref[d[i].anchor], 16 + i)], 2..Len(d))
  + Bit(O.vals /\ tb.setv, 24) + Bit((O.vals \/ HasSet(d)) /\ tb.ival, 25) + Bit(O.keys /\ tb.ikey, 26) + Bit(O.refs /\ tb.iref, 27)

Cap(s) == IF Len(s) > ExprCap THEN SubSeq(s, 1, ExprCap) ELSE s
\* The terms are numbered (tsq) so that everything per term is a sequence: TLC applies functions over
\* 1..N in constant time but searches record-valued domains.
\* (values used inside nested set constructors are handed over as fields of a variable bound by a set
\* constructor - pk - because TLC re-evaluates LET definitions and arguments referenced from there)
PerOptOut(n, xs, sg, cores) ==
  {[o |-> n, x |-> LET cs == {c \in DOMAIN cores : cores[c] = g} IN Cap(SetToSeq({xs[i] : i \in {k \in DOMAIN sg : sg[k] \in cs}})),
    exp |-> g.exp, hit |-> g.hit, mir |-> g.mir, cls |-> g.cls, info |-> g.info, log |-> g.log, ok |-> g.ok]
   : g \in {cores[c] : c \in DOMAIN cores}}
PerOpt(d, xs, tabs, n) ==       \* xs[j], tabs[j]: expression text and table of the j-th terms
  LET O == OptOf(n)
      N == Len(tabs)
      sg == [j \in 1..N |-> Sig(d, tabs[j], O)]
      classes == {sg[j] : j \in 1..N}
      rep == [c \in classes |-> CHOOSE j \in 1..N : sg[j] = c]                     \* first member (TLC's CHOOSE takes the first)
      alt == [c \in classes |-> N + 1 - (CHOOSE k \in 1..N : sg[N + 1 - k] = c)]     \* last member
      cores == [c \in classes |-> LET g == Core(d, tabs[rep[c]], O) IN
                                  [g EXCEPT !.ok = @ /\ (alt[c] = rep[c] \/ Core(d, tabs[alt[c]], O) = g)]]
  IN UNION {PerOptOut(n, xs, pk.sg, pk.cores) : pk \in {[sg |-> sg, cores |-> cores]}}
\* (pk is bound by a set constructor, not by LET or as an argument: TLC hands a lazily evaluated argument on
\* unevaluated into every iteration of a set constructor, and would rebuild the tables for each option)
Cases(d) ==
  UNION {UNION {PerOpt(d, pk.xs, pk.tabs, n) : n \in Sampled(d)} :
         pk \in {LET tsq == SetToSeq(Ts(d)) IN
                 [xs |-> [j \in 1..Len(tsq) |-> Expr(tsq[j])], tabs |-> [j \in 1..Len(tsq) |-> TabWith(d, tsq[j], HitM, SilM)]]}}

ChunkSize == 10
RECURSIVE WriteChunks(_, _, _, _)
WriteChunks(dd, res, cs, from) ==
  IF from > Len(cs) THEN TRUE
  ELSE /\ CSVWrite("%1$s", <<ToJson([doc |-> dd, res |-> IF from = 1 THEN res ELSE <<>>,
                                     cases |-> SubSeq(cs, from, IF from + ChunkSize - 1 > Len(cs) THEN Len(cs) ELSE from + ChunkSize - 1)])>>, IOEnv.CASES_OUT)
       /\ WriteChunks(dd, res, cs, from + ChunkSize)

ShardEnv == NatVal(IOEnv.SHARD)     \* cfg: Shard <- ShardEnv lets the harness pick the shard (by seed)
MineShard == (Len(doc) + Len(doc[Len(doc)].v) + Len(doc[Len(doc)].keys) + HashAcc(doc, 1)) % Shards = Shard

Check ==
  (fresh /\ MineShard) =>
    \A pk \in {[res |-> [j \in 1..(Len(doc) - 1) |-> ResOne(doc, j + 1)], cs |-> SetToSeq(Cases(doc))]} :   \* (bound, not LET: see PerOptOut)
       /\ \A j \in 1..Len(pk.res) : pk.res[j].ok                             \* T1
       /\ \A j \in 1..Len(pk.cs) : pk.cs[j].ok                             \* T2-T4 (+ the classing cross-check)
       /\ WriteChunks(doc, pk.res, pk.cs, 1)
=============================================================================
