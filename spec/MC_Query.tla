------------------------------ MODULE MC_Query ------------------------------
(***************************************************************************)
(* C01 / C15 (and the corpus of C02): every document of the generator      *)
(* crossed with the path vocabulary derived from it.  In each fresh state  *)
(* the declarative selection Sel is evaluated for every path; design       *)
(* theorems about Sel are invariants; the Emit invariant writes one JSON   *)
(* line per document with, per path, the texts in both notations and the   *)
(* expected outcome for replay into Processor.get_nodes / exists.          *)
(***************************************************************************)
EXTENDS YQueryCases, YDocGen

CONSTANTS Depth2,       \* BOOLEAN: also two-segment paths
          Rich,         \* BOOLEAN: the full vocabulary (thorough) or its reduced form (quick)
          CrashVocab,   \* BOOLEAN: add the C15 families (keyword searches, collectors, ill-formed regular expressions)
          Shard, Shards \* emit only documents whose number of nodes plus ... falls in this shard (0..Shards-1)

Spec == GInit /\ [][GNext]_gvars

(* ---- pools (cfg files substitute these for the generator's constants) ---- *)
S(t, v) == [t |-> t, v |-> v]
Scalars8 == <<S("null", ""), S("bool", "true"), S("int", "0"), S("int", "1"), S("float", "1.5"), S("str", "a"), S("str", "ab"), S("str", "1")>>
Scalars5 == <<S("null", ""), S("int", "1"), S("float", "1.5"), S("str", "a"), S("str", "1")>>
Scalars3 == <<S("null", ""), S("int", "1"), S("str", "a")>>
\* falsy scalars (0, false, the empty string) next to a truthy one: members a careless truth test confuses with "absent" (C15)
ScalarsFalsy == <<S("int", "0"), S("bool", "false"), S("str", ""), S("int", "1")>>
\* numbers that are equal across spellings and kinds: the boundary cells of <, <=, >, >=, = (C12's rules inside whole queries)
ScalarsNum == <<S("int", "1"), S("float", "1.0"), S("float", "1.5"), S("str", "1"), S("int", "2")>>
Keys4 == <<S("str", "a"), S("str", "b"), S("int", "0"), S("str", "0")>>
Keys2 == <<S("str", "a"), S("str", "b")>>
Keys3 == <<S("str", "a"), S("str", "b"), S("int", "0")>>
Members3 == <<S("str", "a"), S("str", "b"), S("int", "1")>>
Members2 == <<S("str", "a"), S("int", "1")>>
\* C02: keys drawn from the characters the path syntax defines an escape for
KeysPunct == <<S("str", "."), S("str", "/"), S("str", "["), S("str", "]"), S("str", "("), S("str", ")"), S("str", "'"), S("str", "\""),
              S("str", " "), S("str", "^"), S("str", "$"), S("str", "%"), S("str", "a.b"), S("str", "/x"), S("str", "a b"), S("str", "x/y"), S("str", "[0]")>>
\* thorough tier: documents of 4 nodes over half of the punctuation keys (all 17 keys at 4 nodes does not finish: > 180 000
\* states at a falling rate; every key is met at 3 nodes by MC_Query_punct)
KeysPunctT == <<S("str", "."), S("str", "/"), S("str", "["), S("str", "("), S("str", "'"), S("str", " "), S("str", "a.b"), S("str", "x/y"), S("str", "[0]")>>
Scalars1 == <<S("int", "1")>>
MembersPunct == <<S("str", "a.b"), S("str", "x y"), S("str", "[z]")>>

(* ---- the path vocabulary of a document ---- *)
StrKeysOf(d) == UNION {{d[i].keys[j].v : j \in {x \in 1..Len(d[i].keys) : d[i].keys[x].t = "str"}} : i \in 1..Len(d)}
IntKeysOf(d) == UNION {{d[i].keys[j].v : j \in {x \in 1..Len(d[i].keys) : d[i].keys[x].t = "int"}} : i \in 1..Len(d)}
MemberTexts(d) == {d[i].v : i \in {x \in 1..Len(d) : d[x].k = "s" /\ d[x].par # 0 /\ d[d[x].par].k = "set" /\ d[x].t \in {"str", "int"}}}
ScalarTexts(d) == {d[i].v : i \in {x \in 1..Len(d) : d[x].k = "s" /\ d[x].t # "null"}}

KeySegsOf(d) == {Seg("KEY", k) : k \in StrKeysOf(d) \cup IntKeysOf(d) \cup MemberTexts(d) \cup (IF Rich THEN {"zz", "0", "1", "-1", "-3", "2"} ELSE {"zz", "0", "-1", "-3"})}
IdxSegs == {Seg("INDEX", k) : k \in (IF Rich THEN {"0", "1", "2", "-1", "-2", "-4"} ELSE {"0", "2", "-1", "-4"})}
SliceSegs == {Seg("SLICE", k) : k \in (IF Rich THEN {"0:1", "0:2", "1:1", "-1:-1", "1:5", "0:-1", "-2:2", "-5:1", "2:1", "a:b", "a:zz", "0:a"}
                                       ELSE {"0:2", "-1:-1", "1:5", "0:-1", "-5:1", "a:zz", "0:a"})}
AnchSegs == IF Rich THEN {Seg("ANCHOR", "A"), Seg("ANCHOR", "zz")} ELSE {Seg("ANCHOR", "A")}
Ops == IF Rich THEN {"=", "^", "$", "%", "<", ">", "<=", ">=", "=~"} ELSE {"=", "^", "<", ">=", "=~"}
Terms(d) == ScalarTexts(d) \cup IntKeysOf(d) \cup StrKeysOf(d) \cup (IF Rich THEN {"a", "1", "zz", "0.5", "true"} ELSE {"a", "1"})
SearchDot(d) == {SearchSeg(inv, op, ".", t) : inv \in BOOLEAN, op \in Ops, t \in Terms(d)}
SearchAttr(d) == {SearchSeg(inv, op, a, t) : inv \in BOOLEAN, op \in (IF Rich THEN {"=", "^", "<", ">="} ELSE {"=", "<"}),
                                            a \in StrKeysOf(d) \cup (IF Rich THEN {"zz"} ELSE {}), t \in Terms(d)}
SearchDesc(d) == {SearchSeg(inv, "=", a, t) : inv \in BOOLEAN, a \in (IF Rich THEN {"a.b", "a.a", "/b/a", "*"} ELSE {"a.a", "*"}), t \in {"a", "1"}}
Stars == {Seg("MATCH_ALL", ""), Seg("TRAVERSE", "")}

\* C15 families: segments whose selection is decided elsewhere (YKeywords) or not at all
\* (collectors, ill-formed regular expressions); here only the outcome class matters.
KwParamTexts(d) == {"", "zz", "a,b", "'a", "9", "0"} \cup StrKeysOf(d)
CrashSegs(d) == IF ~CrashVocab THEN {} ELSE
  {KeywordSeg(inv, kw, p) : inv \in BOOLEAN, kw \in Keywords, p \in KwParamTexts(d)}
  \cup {SearchSeg(FALSE, "=~", a, t) : a \in {"."} \cup StrKeysOf(d), t \in {"(", "*", "[a", "a{2", "\\"}}
  \cup {CollectorSeg(e, "") : e \in {"*", "**", "a", "[0]", "zz"}}
CrashPairs(d) == IF ~CrashVocab THEN {} ELSE
  {<<CollectorSeg(e1, ""), CollectorSeg(e2, o)>> : e1 \in {"*", "a", "**"}, e2 \in {"*", "a", "[0]"}, o \in {"+", "-", "&"}}
  \cup {<<Seg("TRAVERSE", ""), Seg("TRAVERSE", "")>>, <<Seg("TRAVERSE", ""), Seg("KEY", "a"), Seg("TRAVERSE", "")>>}
  \cup {<<s, KeywordSeg(FALSE, kw, p)>> : s \in {Seg("MATCH_ALL", ""), Seg("TRAVERSE", ""), Seg("KEY", "a"), Seg("INDEX", "0")},
                                        kw \in {"parent", "name", "max", "unique", "has_child"}, p \in {"", "a", "2"}}

\* has_child(&NAME): nodes holding a child anchored / aliased NAME (C02's keyword fragment; C13)
AnchKw == IF UseAnchors THEN {KeywordSeg(inv, "has_child", "&A") : inv \in BOOLEAN} ELSE {}
V1(d) == AnchKw \cup CrashSegs(d) \cup KeySegsOf(d) \cup IdxSegs \cup SliceSegs \cup AnchSegs \cup SearchDot(d) \cup SearchAttr(d) \cup SearchDesc(d) \cup Stars
\* reduced vocabularies for the two positions of a two-segment path
Small(d) == IF Rich THEN
              {Seg("KEY", k) : k \in StrKeysOf(d) \cup {"0", "-1", "zz"}} \cup {Seg("INDEX", "0"), Seg("INDEX", "-1"), Seg("INDEX", "2"),
              Seg("SLICE", "0:2"), Seg("SLICE", "-2:5"), Seg("ANCHOR", "A"), Seg("MATCH_ALL", ""), Seg("TRAVERSE", "")}
              \cup {SearchSeg(inv, op, a, t) : inv \in BOOLEAN, op \in {"=", "<"}, a \in {"."} \cup StrKeysOf(d), t \in {"a", "1"}}
            ELSE
              {Seg("KEY", k) : k \in StrKeysOf(d) \cup {"0", "zz"}} \cup {Seg("INDEX", "0"), Seg("INDEX", "-1"),
              Seg("SLICE", "0:2"), Seg("MATCH_ALL", ""), Seg("TRAVERSE", "")}
              \cup {SearchSeg(inv, "=", a, "1") : inv \in BOOLEAN, a \in {".", "a"}}
Paths(d) == CrashPairs(d) \cup {<<s>> : s \in V1(d)} \cup (IF Depth2 THEN {<<s1, s2>> : s1 \in Small(d), s2 \in Small(d)} ELSE {}) \cup {<<>>}

(* ---- design theorems on Sel (checked in every fresh state) ---- *)
Strict(ids) == \A j \in 1..(Len(ids) - 1) : ids[j] < ids[j + 1]
HasTraverse(p) == \E j \in 1..Len(p) : p[j].ty = "TRAVERSE"
HasKeyword(p) == \E j \in 1..Len(p) : p[j].ty = "KEYWORD"       \* parent() legitimately repeats an ancestor
HasCollector(p) == \E j \in 1..Len(p) : p[j].ty = "COLLECTOR"   \* (a)+(a) legitimately repeats a node
SelWellFormed(d, p) ==
  LET r == Sel(d, p) ids == FlatIds(r.res) IN
  /\ \A j \in 1..Len(ids) : ids[j] \in 1..Len(d)                      \* results are positions of the document
  /\ (r.err = "" /\ ~HasTraverse(p) /\ ~HasKeyword(p) /\ ~HasCollector(p) /\ ~r.info) => Strict(ids)   \* document order, no repeats
  /\ (Len(p) = 0 /\ ~(d[1].k = "s" /\ d[1].t = "null")) => ids = <<1>>   \* the empty path is the root

MineShard == (Len(doc) + Len(doc[Len(doc)].v) + Len(doc[Len(doc)].keys)) % Shards = Shard

Theorems == fresh => \A p \in Paths(doc) : SelWellFormed(doc, p)

Emit == (fresh /\ MineShard) => WriteChunks(doc, SetToSeq({Case(doc, p) : p \in Paths(doc)}), 1)
=============================================================================
