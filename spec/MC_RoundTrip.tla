---------------------------- MODULE MC_RoundTrip ----------------------------
(***************************************************************************)
(* C08 model.  State = a well-formed sequence of segments built one        *)
(* segment at a time from a grammar covering every segment kind (each      *)
(* sequence is reached by exactly one behaviour).  In every state the      *)
(* segments are written as text in both notations and both key styles      *)
(* (escaped / quoted), parsed by the mirrored state machine, stringified   *)
(* by the mirrored canonical stringifier, and the C08 relations are        *)
(* evaluated as invariants (design theorems).  Emit writes each case for   *)
(* replay into the real YAMLPath class.                                    *)
(***************************************************************************)
EXTENDS YRoundTrip, Json, CSV, IOUtils, SequencesExt

CONSTANTS KeyChars,     \* characters key/term text is drawn from
          MaxKeyLen,    \* 1 or 2
          MaxSegs,      \* length bound of the sequence
          RichFirst,    \* TRUE: only the first segment ranges over the whole vocabulary
          Family        \* "all": the whole grammar; "collectors": chains of collectors with and without operators
\* defined here, not in the cfg: TLC's cfg parser keeps backslash escapes in string literals
KeyCharsFull == {"a", "1", ".", "/", "[", "]", "(", ")", "'", "\"", " ", "^", "$", "%", "\\", "=", "-", ":"}
VARIABLES segs, part    \* part: which slice of the first-segment vocabulary this behaviour explores
                        \* (16 initial states so that TLC's workers share the first level)

Texts1 == KeyChars
Texts2 == IF MaxKeyLen >= 2 THEN {a \o b : a \in KeyChars, b \in KeyChars} ELSE {}
Texts == {t \in Texts1 \cup Texts2 : Strip(t) # "" }   \* an all-blank key cannot be told from no key

Ops == {"=", "^", "$", "%", "<", ">", "<=", ">=", "=~"}
SmallTexts == {"a", "b1", "a b", "x.y"}

KeySegs == {Seg("KEY", t) : t \in Texts}
IdxSegs == {Seg("INDEX", t) : t \in {"0", "1", "-1", "12"}} \cup {Seg("SLICE", t) : t \in {"0:2", "-3:-1", "a:b", "1:1"}}
AnchSegs == {Seg("ANCHOR", t) : t \in {"a", "b1"}}
SrchSegs == {SearchSeg(inv, op, ".", term) : inv \in BOOLEAN, op \in Ops, term \in {t \in Texts : Len(t) <= 1} \cup {"ab", "1", "a b"}}
            \cup {SearchSeg(FALSE, "=", attr, "ab") : attr \in {t \in Texts : Len(t) <= 1} \cup {"a b", "a.b"}}
            \cup {SearchSeg(inv, op, "a", term) : inv \in BOOLEAN, op \in {"=", "<=", "=~"}, term \in {"'", "/", "a/b", "\\"}}
KwSegs == {KeywordSeg(inv, kw, p) : inv \in BOOLEAN, kw \in Keywords, p \in {"", "a", "a,b", "2"}}
ColSegs == {CollectorSeg(e, "") : e \in {"a", "a.b", "/a/b[0]", "a[b=1]"}}
ColOpSegs == {CollectorSeg(e, o) : e \in {"a", "/a/b"}, o \in {"+", "-", "&"}}
StarSegs == {Seg("MATCH_ALL", ""), Seg("TRAVERSE", "")}

Rich == IF Family = "collectors" THEN ColSegs \cup {Seg("KEY", "k")} ELSE KeySegs \cup IdxSegs \cup AnchSegs \cup SrchSegs \cup KwSegs \cup ColSegs \cup StarSegs
Lean == {Seg("KEY", t) : t \in SmallTexts} \cup {Seg("INDEX", "0"), Seg("SLICE", "0:2"), Seg("ANCHOR", "a"),
         SearchSeg(FALSE, "=", "a", "b1"), SearchSeg(TRUE, "=~", ".", "^a"), KeywordSeg(FALSE, "max", "a"),
         CollectorSeg("a.b", ""), Seg("MATCH_ALL", ""), Seg("TRAVERSE", "")}

Vocab(n) == IF Family = "collectors" THEN {CollectorSeg("a", ""), CollectorSeg("/a/b", ""), Seg("KEY", "k")}
            ELSE IF n = 0 \/ ~RichFirst THEN Rich ELSE Lean
NextSegs(s) ==
  LET n == Len(s) IN
  Vocab(n) \cup (IF n > 0 /\ s[n].ty = "COLLECTOR" THEN ColOpSegs ELSE {})

Parts == 16
RichSeq == SetToSeq(Rich)
Slice(p) == {RichSeq[i] : i \in {j \in 1..Len(RichSeq) : j % Parts = p}}
Init == segs = <<>> /\ part \in 0..(Parts - 1)
Next == /\ Len(segs) < MaxSegs
        /\ \E sg \in (IF Len(segs) = 0 THEN Slice(part) ELSE NextSegs(segs)) : segs' = Append(segs, sg)
        /\ UNCHANGED part
Spec == Init /\ [][Next]_<<segs, part>>

\* one invariant: emit the case for replay and check the theorems on it
Check == Len(segs) = 0 \/
  LET r == EvalOf(segs) IN CSVWrite("%1$s", <<ToJson(r)>>, IOEnv.CASES_OUT) /\ (Quirk(segs) \/ (r.rt1 /\ r.rt2 /\ r.rt3 /\ r.rt4))
=============================================================================
