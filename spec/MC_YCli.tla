------------------------------ MODULE MC_YCli ------------------------------
(***************************************************************************)
(* C16 model: every run of the six phase machines of YCli over the finite  *)
(* outcome space - every tool, every option the exit-code tables read,     *)
(* argument / validation failures, up to MaxLoads input sources each       *)
(* delivered as a file or on standard input and each loading or not, every *)
(* library outcome class with result counts 0..MaxN.  hist is the run so   *)
(* far.  TLC checks in every reachable state                               *)
(*   - the exit-code statements of C16 (Honest) on finished runs,          *)
(*   - delivery independence: the twin run with file and stdin exchanged   *)
(*     is accepted too and reaches the very same state,                    *)
(*   - the exit code is determined (one code, except where yaml-paths lets *)
(*     the later of two different failures win),                           *)
(*   - no run gets stuck before Done,                                      *)
(* and emits one table row per finished run for the harness (the exit code *)
(* per tool x options x outcome class, with what is put out).              *)
(* Next is split into one named action per phase.                          *)
(***************************************************************************)
EXTENDS YCli, TLC, Json, CSV, IOUtils

CONSTANTS MaxLoads,    \* input sources per run
          MaxN,        \* result counts 0..MaxN
          MaxLen       \* events per run
VARIABLES st, hist
vars == <<st, hist>>

AllOpts == {Opts(must, mode, noise) : must \in BOOLEAN, mode \in Modes, noise \in Noises}
\* the options a tool's table reads (others stay at their defaults, so that no run is counted twice)
OptsOf(tool) ==
  IF tool = "set" THEN {Opts(must, "condense_all", "default") : must \in BOOLEAN}
  ELSE IF tool = "merge" THEN {Opts(FALSE, mode, "default") : mode \in Modes}
  ELSE IF tool \in {"diff", "validate"} THEN {Opts(FALSE, "condense_all", noise) : noise \in Noises}
  ELSE {Opts(FALSE, "condense_all", "default")}

\* one homogeneous event shape (unused fields at a default)
\* (one policy option stands for all of them: they are resolved by the same rule)
NoPol == [opt |-> ""]
Given == [{"opt"} -> {"", "p", "q"}]                       \* what the user wrote for it on the command line / in [defaults]
Pols == [{"opt"} -> {"p", "q", Builtin("", "opt")}]        \* the policy a library call can be made under
EP(ph, ok, via, k, res, n, lines, doc, code, cli, cfg, policy) ==
  [ph |-> ph, ok |-> ok, via |-> via, k |-> k, res |-> res, n |-> n, lines |-> lines, doc |-> doc, code |-> code,
   cli |-> cli, cfg |-> cfg, policy |-> policy]
E(ph, ok, via, k, res, n, lines, doc, code) == EP(ph, ok, via, k, res, n, lines, doc, code, NoPol, NoPol, NoPol)
ArgsEv == {EP("args", TRUE, "", "", "", 0, 0, "", 0, cli, cfg, NoPol) : cli \in Given, cfg \in Given}
          \cup {E("args", FALSE, "", "", "", 0, 0, "", 0)}
ValidateEv == {E("validate", b, "", "", "", 0, 0, "", 0) : b \in BOOLEAN}
LoadEv == {E("load", b, v, "", "", 0, 0, "", 0) : b \in BOOLEAN, v \in Deliveries}
WorkEv == {E("work", TRUE, "", k, "", n, 0, "", 0) : k \in GetKinds \cup {"needindex", "results", "badexpr"}, n \in 0..MaxN}
          \cup {EP("work", TRUE, "", k, "", n, 0, "", 0, NoPol, NoPol, pol) : k \in {"same", "differs"}, n \in 0..MaxN, pol \in Pols}
          \cup {EP("work", TRUE, "", "merge", r, 0, 0, "", 0, NoPol, NoPol, pol) : r \in {"ok", "yperr", "mergeerr"}, pol \in Pols}
          \cup {E("work", TRUE, "", k, r, n, 0, "", 0) : k \in {"gather", "check", "apply", "merge"},
                  r \in {"ok", "unmatched", "yperr", "nodoc", "mismatch", "mergeerr"}, n \in {0}}
OutputEv == {E("output", TRUE, "", "", "", 0, l, d, 0) : l \in 0..(MaxN * MaxLoads), d \in {"none", "written"}}
AllCodes == {0, 1, 2, 3, 4, 11, 12, 13, 14, 20, 31, 32, 41, 42}
ExitEv == {E("exit", TRUE, "", "", "", 0, 0, "", c) : c \in AllCodes}
Events == ArgsEv \cup ValidateEv \cup LoadEv \cup WorkEv \cup OutputEv \cup ExitEv

Init == /\ \E tool \in Tools : \E o \in OptsOf(tool) : st = Init0(tool, o)
        /\ hist = <<>>

\* the bounds of the finite instance
Works(h) == Len(SelectSeq(h, LAMBDA x : x.ph = "work"))
Within(n, e) == /\ n.nload <= MaxLoads /\ n.lib.n <= MaxN * MaxLoads
                /\ (e.ph = "work" /\ n.tool = "paths") => Works(hist) < MaxLoads   \* one search per document
                /\ (e.ph = "work" /\ n.tool = "merge" /\ st.pc # "Work") => Works(hist) < MaxLoads   \* (further documents of a stream)
\* only yaml-merge and yaml-diff have policy options
Plain(e) == e.ph = "args" /\ e.ok /\ st.tool \notin {"merge", "diff"} => (e.cli = NoPol /\ e.cfg = NoPol)
Take(e) == LET n == Step(st, e)
           IN n.pc # "REJECT" /\ Within(n, e) /\ Plain(e) /\ n # st /\ Len(hist) < MaxLen
              /\ st' = n /\ hist' = Append(hist, e)

ParseArgs == \E e \in ArgsEv : Take(e)
ValidateArgs == \E e \in ValidateEv : Take(e)
Load == \E e \in LoadEv : Take(e)
Work == \E e \in WorkEv : Take(e)
Output == \E e \in OutputEv : Take(e)
Exit == \E e \in ExitEv : Take(e)
Next == ParseArgs \/ ValidateArgs \/ Load \/ Work \/ Output \/ Exit
Spec == Init /\ [][Next]_vars

(* ---- theorems ---- *)
InvHonest == st.pc = "Done" => Honest(st)
\* the same statements read off the RUN (the events that happened) instead of the state the machine kept
Evs(ph) == SelectSeq(hist, LAMBDA e : e.ph = ph)
AllOk(ph) == \A i \in 1..Len(Evs(ph)) : Evs(ph)[i].ok
LastWork == Evs("work")[Len(Evs("work"))]
InvRunHonest ==
  st.pc = "Done" =>
    LET fine == AllOk("args") /\ AllOk("validate") /\ AllOk("load") IN
    /\ st.tool = "validate" => /\ (st.code = 0) <=> fine
                               /\ (st.code = 2) <=> ((AllOk("args") /\ AllOk("validate") /\ ~AllOk("load")) \/ ~AllOk("args"))
                               /\ (st.code = 1) <=> (AllOk("args") /\ ~AllOk("validate"))
    /\ st.tool = "get" => ((st.code = 0) <=> (fine /\ Len(Evs("work")) = 1 /\ LastWork.k \in {"matched", "empty"}))
    /\ st.tool = "get" => (st.code = 0 /\ LastWork.k = "matched" => st.lines = LastWork.n /\ st.lines >= 1)
    /\ st.tool = "diff" => ((st.code = 0) <=> (fine /\ Len(Evs("work")) = 1 /\ LastWork.k = "same"))
    /\ st.tool = "paths" => ((st.code = 0) <=> (fine /\ \A i \in 1..Len(Evs("work")) : Evs("work")[i].k # "badexpr"))
    /\ ~st.crash
    \* every merge / comparison was made under: command line, else [defaults] of the configuration file, else built-in
    /\ st.tool \in {"merge", "diff"} =>
         \A i \in 1..Len(Evs("work")) : Evs("work")[i].k \in {"merge", "same", "differs"} =>
            LET a == hist[1] w == Evs("work")[i] IN
            \A k \in DOMAIN a.cli :
               w.policy[k] = IF a.cli[k] # "" THEN a.cli[k] ELSE IF a.cfg[k] # "" THEN a.cfg[k] ELSE Builtin(st.tool, k)
    /\ st.tool = "merge" => ((st.code = 0) <=> (fine /\ \A i \in 1..Len(Evs("work")) : Evs("work")[i].res = "ok"))
    /\ st.tool = "merge" => ((st.code = 0) <=> (st.doc = "written"))
    /\ st.tool = "set" => ((st.code = 0) <=> (fine /\ Len(Evs("work")) >= 1 /\ LastWork.k = "apply" /\ LastWork.res = "ok"))
    /\ st.tool = "set" => ((st.code = 0) <=> (st.doc = "written"))
\* the three deliveries: however else the tool lets the same documents arrive (every assignment of file / "-" /
\* implicit STDIN to the sources that is itself a run), the run ends in the same state; delivering every
\* document as a file is always possible; and where the tool reads a waiting STDIN document (every tool but
\* yaml-diff), the last source of a finished run may arrive that way - and the only source by any of the three
Vias(n) == [1..n -> Deliveries]
InvDeliveryIndependent ==
  st.pc \in {"Done", "Exit"} =>
    LET n == NLoads(hist) IN
    /\ \A vs \in Vias(n) : LET t == Run(st.tool, st.o, Redeliver(hist, vs)) IN t.ok => Core(t.s) = Core(st)
    /\ Run(st.tool, st.o, AllFile(hist)).ok
    /\ (n = 1 /\ st.tool # "diff" /\ ~st.badexpr) => \A v \in Deliveries : Run(st.tool, st.o, Redeliver(hist, [j \in 1..1 |-> v])).ok
    /\ (n >= 1 /\ st.tool # "diff" /\ st.badat \in {0, n} /\ (st.badexpr => st.tool # "paths")) =>
          Run(st.tool, st.o, Redeliver(hist, [j \in 1..n |-> IF j = n THEN "implicit" ELSE "file"])).ok
    /\ st.tool = "diff" => \A vs \in Vias(n) : (\E j \in 1..n : vs[j] = "implicit") => ~Run(st.tool, st.o, Redeliver(hist, vs)).ok
\* ... and the run recorded in hist is the one that led here (Step is a function)
InvHistIsRun == LET t == Run(st.tool, st.o, hist) IN t.ok /\ t.s = st
\* the exit code is determined by the state
InvCodeDetermined ==
  st.pc = "Exit" => /\ Codes(st) # {} /\ Codes(st) \subseteq AllCodes
                    /\ (Cardinality(Codes(st)) > 1 => (st.tool = "paths" /\ st.badat # 0 /\ st.badexpr))
\* exactly one output is acceptable before the exit, except the free number of report lines of yaml-validate
InvOutputDetermined ==
  (CanOutput(st) /\ st.tool # "validate") => Cardinality({e \in OutputEv : OutOK(st, e)}) = 1
\* a failing run never delivers a result document and a failing yaml-get prints nothing
InvFailureIsVisible ==
  st.pc = "Done" => /\ (st.code # 0 /\ st.tool \in {"set", "merge"}) => st.doc = "none"
                    /\ (st.code # 0 /\ st.tool = "get") => st.lines = 0
                    /\ st.tool # "diff" => ((st.code = 0) <=> ~Failed(st))     \* (a difference is an answer, not a failure)
\* no run is stuck (within the bounds of the instance)
InvProgress ==
  (st.pc # "Done" /\ Len(hist) < MaxLen) => \E e \in Events : LET n == Step(st, e) IN n.pc # "REJECT" /\ n # st /\ Within(n, e)
\* no event is enabled after Done
InvDoneIsFinal == st.pc = "Done" => \A e \in Events : Step(st, e).pc = "REJECT"

(* ---- the table for the harness ---- *)
\* (one row per finished run with file deliveries; the twin runs end in the same state, see above)
EmitDone ==
  (st.pc = "Done" /\ \A i \in 1..Len(hist) : hist[i].via \notin {"dash", "implicit"}) =>
    CSVWrite("%1$s", <<ToJson([tool |-> st.tool, must |-> st.o.must, mode |-> st.o.mode, noise |-> st.o.noise,
                              argsok |-> st.argsok, valid |-> st.valid, nload |-> st.nload, badat |-> st.badat,
                              k |-> st.lib.k, n |-> st.lib.n, badexpr |-> st.badexpr,
                              code |-> st.code, lines |-> st.lines, doc |-> st.doc])>>, IOEnv.CASES_OUT)
=============================================================================
