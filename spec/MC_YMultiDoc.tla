---------------------------- MODULE MC_YMultiDoc ----------------------------
(***************************************************************************)
(* C18 - bounded instances of YMultiDoc for TLC.  The initial states are   *)
(* every (mode, policy, stream lengths, kind of every document) within the *)
(* bounds; each behaviour is the run of the drivers on that input.  The    *)
(* theorems of YMultiDoc are invariants; the Emit invariant writes one     *)
(* JSON line per finished run (input + expected outputs) which the harness *)
(* replays into the real yaml_merge functions and main().                  *)
(***************************************************************************)
EXTENDS YMultiDoc, Json, CSV, IOUtils, TLC

CONSTANTS ModeSet,    \* subset of Modes
          NFilesSet,  \* numbers of streams (files) to explore, e.g. {2}
          MaxLen,     \* every stream has 1..MaxLen documents
          KindSet,    \* subset of Kinds
          PolSet,     \* set of policy records
          CopyRhs,    \* BOOLEAN: FALSE = the design as pinned (RHS data by reference), TRUE = repaired
          EmitCases   \* BOOLEAN

VARIABLE st

PolsDefault == {DefaultPol}
PolsSample  == {Pol(h, a, "unique") : h \in HashPols, a \in {"all", "unique"}}
PolsAll     == {Pol(h, a, "unique") : h \in HashPols, a \in ArrPols}
PolsSeq     == {Pol("deep", a, "unique") : a \in ArrPols}        \* root-level Arrays: only --arrays matters
PolsSeqQ    == {Pol("deep", a, "unique") : a \in {"all", "unique"}}
PolsSet     == {Pol("deep", "all", sp) : sp \in SetPols}         \* root-level Sets: only --sets matters
PolsRoot    == PolsSeq \cup PolsSet
PolsEvery   == {Pol(h, a, sp) : h \in HashPols, a \in ArrPols, sp \in SetPols}

LensSet == UNION {[1..nf -> 1..MaxLen] : nf \in NFilesSet}
FilesOf(lens) == [f \in 1..Len(lens) |-> [p \in 1..lens[f] |-> SumTo(lens, f - 1) + p]]

Init == \E mode \in ModeSet, pol \in PolSet, lens \in LensSet :
          \E kinds \in {k \in [1..SumTo(lens, Len(lens)) -> KindSet] : SameFamily(k)} :
            st = MInit(mode, pol, FilesOf(lens), kinds, CopyRhs)

Accept(e) == LET n == MStep(st, e) IN n.pc # "REJECT" /\ st' = n
Idx == 1..(MaxLen + 1)

Load         == \E f \in 1..Len(st.files) : Accept(Ev("Load", f, 0, 0, ObsIds(st, f), st.pol))
CondenseLhs  == \E i \in Idx : Accept(Ev("CondenseLhs", 0, i, 0, <<>>, st.pol))
CondenseRhs  == \E j \in Idx : Accept(Ev("CondenseRhs", 0, 0, j, <<>>, st.pol))
Across       == \E i \in Idx : Accept(Ev("Across", 0, i, i, <<>>, st.pol))
AcrossAppend == \E i \in Idx, j \in Idx : Accept(Ev("AcrossAppend", 0, i, j, <<>>, st.pol))
Matrix       == \E i \in Idx, j \in Idx : Accept(Ev("Matrix", 0, i, j, <<>>, st.pol))
Output       == Accept(Ev("Output", 0, 0, 0, <<>>, st.pol))

Next == Load \/ CondenseLhs \/ CondenseRhs \/ Across \/ AcrossAppend \/ Matrix \/ Output
Spec == Init /\ [][Next]_st

(* ---- invariants ---- *)
I_Type         == TypeOK(st)
I_NoDup        == InvNoDup(st)
I_BetweenFiles == InvBetweenFiles(st)
T_Outputs      == ThOutputs(st)
T_TwoStreams   == ThTwoStreams(st)
T_Counts       == ThCounts(st)
T_ReadBack     == ThReadBack(st)
T_Policy       == ThPolicy(st)
T_HeapAgrees   == ThHeapAgrees(st)
T_RhsPristine  == ThRhsPristine(st)
T_Terminates   == ThTerminates(st)

\* the machine is deterministic and tight: of all candidate events exactly NextEvent is accepted,
\* and a pairwise step that carries any other policy than the run's is refused
Candidates ==
  {Ev("Load", f, 0, 0, ObsIds(st, f), st.pol) : f \in 1..Len(st.files)}
  \cup {Ev("CondenseLhs", 0, i, 0, <<>>, st.pol) : i \in 0..(MaxLen + 1)}
  \cup {Ev("CondenseRhs", 0, 0, j, <<>>, st.pol) : j \in 0..(MaxLen + 1)}
  \cup {Ev(k, 0, i, j, <<>>, st.pol) : k \in {"Across", "AcrossAppend", "Matrix"}, i \in 0..(MaxLen + 1), j \in 0..(MaxLen + 1)}
  \cup {Ev("Output", 0, 0, 0, <<>>, st.pol)}
SameEvent(a, b) ==
  /\ a.kind = b.kind
  /\ a.kind = "Load" => a.f = b.f
  /\ a.kind \in {"CondenseLhs", "Across", "AcrossAppend", "Matrix"} => a.i = b.i
  /\ a.kind \in {"CondenseRhs", "Across", "AcrossAppend", "Matrix"} => a.j = b.j
I_Deterministic ==
  st.pc # "DONE" =>
    /\ \A e \in Candidates : MStep(st, e).pc # "REJECT" => SameEvent(e, NextEvent(st))
    /\ \E e \in Candidates : MStep(st, e).pc # "REJECT"
    /\ \A pol \in PolsEvery \ {st.pol} :
         NextEvent(st).kind \in {"CondenseLhs", "CondenseRhs", "Across", "Matrix"}
           => MStep(st, [NextEvent(st) EXCEPT !.pol = pol]).pc = "REJECT"

(* ---- action property: a pairwise step extends exactly one accumulator on its right ---- *)
Changed == {p \in 1..Min(Len(st.lhs), Len(st'.lhs)) : st'.lhs[p] # st.lhs[p]}
FrameStep ==
  (st.pc = "RUN" /\ st'.n = st.n + 1) =>
    /\ Cardinality(Changed) = 1
    /\ \A p \in Changed : /\ Len(st'.lhs[p]) = Len(st.lhs[p]) + 1
                          /\ SubSeq(st'.lhs[p], 1, Len(st.lhs[p])) = st.lhs[p]
Frame == [][FrameStep]_st

(* ---- emission of finished runs as replay cases ---- *)
JDoc(c) == [nul |-> c.nul, root |-> c.root, keys |-> c.keys, shared |-> c.shared, lst |-> c.lst]
Emit ==
  (EmitCases /\ st.pc = "DONE") =>
    CSVWrite("%1$s", <<ToJson([mode |-> st.mode, hashes |-> st.pol.hashes, arrays |-> st.pol.arrays, sets |-> st.pol.sets,
                               files |-> st.files, kinds |-> st.kinds, out |-> st.out, n |-> st.n,
                               exp |-> [p \in 1..Len(st.out) |-> JDoc(Content(st.out[p], st.kinds, st.pol))]])>>,
             IOEnv.CASES_OUT)
=============================================================================
