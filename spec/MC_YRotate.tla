----------------------------- MODULE MC_YRotate -----------------------------
(***************************************************************************)
(* C19: every document of a small shape space, rotated by the YRotate      *)
(* machine.  Phase "gen" builds a document position by position (cells at  *)
(* hash values / list elements of up to four containers, anchored and      *)
(* aliased, plain and folded, marker near-misses as plaintext); Start      *)
(* chooses --backup or not and hands the document to RInit; phase "run"    *)
(* takes the (deterministic) RStep transitions.  The property's clauses    *)
(* are invariants of every state; Emit writes one JSON case per finished   *)
(* run for replay into the real eyaml-rotate-keys.                         *)
(*                                                                         *)
(* GenCloseFile ends a file and starts the next one of the same invocation *)
(* (anchor names start afresh in every file, so files can reuse a name).   *)
(*                                                                         *)
(* Containers: 1 = the root hash, 2 and 3 = sequences, 4 = a nested hash   *)
(* (all children of the root).  Positions are in document order, so the    *)
(* positions of a container other than the root are contiguous.            *)
(***************************************************************************)
EXTENDS YRotate, Json, CSV, IOUtils

CONSTANTS MaxFiles,     \* files per invocation
          MaxLen, MaxSecret, MaxPlain,     \* per file
          Conts,        \* subset of 1..4
          SecretHeads,  \* texts that begin a secret (IsEyaml holds)
          PlainHeads,   \* texts of non-secret scalars (IsEyaml does not hold), near-misses of the marker included
          Folds,        \* subset of BOOLEAN: secrets as folded block scalars?
          Trails,       \* subset of {"", "ws", "allws", "empty"}: how the plaintexts end
          Keys,         \* subset of {"old", "other", "none"}: what the secrets are encrypted with
          MaxAnchors,   \* 0..2 anchor names ("A", "B") for scalars
          ContAnchors,  \* anchor names a container other than the root may carry (e.g. {"b"}); an anchored container
                        \* may be referenced once more later in the file (`copy: *b`: a second visit of its positions)
          Backups       \* subset of BOOLEAN

VARIABLES phase, gfiles, gdoc, st, hist
vars == <<phase, gfiles, gdoc, st, hist>>

ContType(c) == IF c \in {2, 3} THEN "seq" ELSE "map"
AnchorNames == <<"A", "B">>

NSlots == Len(gdoc.slots)
SecretSlots == {p \in 1..NSlots : IsEyaml(gdoc.objs[gdoc.slots[p].o].head)}
UsedConts == {gdoc.slots[p].cont : p \in 1..NSlots}
UsedAnchors == {gdoc.objs[i].anc : i \in 1..Len(gdoc.objs)} \ {""}
\* a container other than the root may be continued or opened, never re-entered; 3 only after 2 (symmetry)
ContOK(c) == c \in Conts /\ (c = 1 \/ (NSlots > 0 /\ gdoc.slots[NSlots].cont = c /\ gdoc.slots[NSlots].vis = c) \/ c \notin UsedConts)
                         /\ (c = 3 => 2 \in UsedConts)
\* the anchor of a container: fixed by its first position; a new container other than the root may take a free name
CancOf(c) == gdoc.slots[CHOOSE p \in 1..NSlots : gdoc.slots[p].cont = c].canc
UsedCanc == {gdoc.slots[p].canc : p \in 1..NSlots} \ {""}
CancChoices(c) == IF c \in UsedConts THEN {CancOf(c)} ELSE IF c = 1 THEN {""} ELSE {""} \cup (ContAnchors \ UsedCanc)
\* the next anchor name, if another one may be defined
NextAnchor == IF Cardinality(UsedAnchors) < MaxAnchors THEN {AnchorNames[Cardinality(UsedAnchors) + 1]} ELSE {}

AddSlot(c, o, ca) == [gdoc EXCEPT !.slots = Append(@, [cont |-> c, ct |-> ContType(c), o |-> o, vis |-> c,
                                                       loc |-> NSlots + 1, canc |-> ca])]
AddObj(d, head, key, anc, folded, trail) ==
  [d EXCEPT !.objs = Append(@, [head |-> head, key |-> key, pt |-> Len(d.objs) + 1, anc |-> anc, folded |-> folded,
                                trail |-> trail])]

Init == phase = "gen" /\ gfiles = <<>> /\ gdoc = EmptyDoc /\ st = 0 /\ hist = <<>>

GenPlain == \E c \in Conts, h \in PlainHeads, ca \in ContAnchors \cup {""} :
  /\ phase = "gen" /\ NSlots < MaxLen /\ ContOK(c) /\ NSlots - Cardinality(SecretSlots) < MaxPlain /\ ca \in CancChoices(c)
  /\ gdoc' = AddObj(AddSlot(c, Len(gdoc.objs) + 1, ca), h, "none", "", FALSE, "")
  /\ UNCHANGED <<phase, gfiles, st, hist>>
GenSecret == \E c \in Conts, h \in SecretHeads, k \in Keys, f \in Folds, a \in {""} \cup NextAnchor, t \in Trails,
                ca \in ContAnchors \cup {""} :
  /\ phase = "gen" /\ NSlots < MaxLen /\ ContOK(c) /\ Cardinality(SecretSlots) < MaxSecret /\ ca \in CancChoices(c)
  /\ gdoc' = AddObj(AddSlot(c, Len(gdoc.objs) + 1, ca), h, k, a, f, t)
  /\ UNCHANGED <<phase, gfiles, st, hist>>
GenAlias == \E c \in Conts, o \in 1..Len(gdoc.objs), ca \in ContAnchors \cup {""} :
  /\ phase = "gen" /\ NSlots < MaxLen /\ ContOK(c) /\ Cardinality(SecretSlots) < MaxSecret /\ ca \in CancChoices(c)
  /\ gdoc.objs[o].anc # ""
  /\ gdoc' = AddSlot(c, o, ca)
  /\ UNCHANGED <<phase, gfiles, st, hist>>
\* `copy: *b` in the root hash: the positions of the anchored, finished container c are visited a second time
GenVisit == \E c \in UsedConts \ {1} :
  LET ps == {p \in 1..NSlots : gdoc.slots[p].cont = c}
      sq == [i \in 1..Cardinality(ps) |-> CHOOSE p \in ps : Cardinality({q \in ps : q < p}) = i - 1] IN
  /\ phase = "gen" /\ CancOf(c) # "" /\ gdoc.slots[NSlots].cont # c
  /\ \A p \in ps : gdoc.slots[p].vis = c                     \* not referenced yet
  /\ NSlots + Cardinality(ps) <= MaxLen + 1
  /\ gdoc' = [gdoc EXCEPT !.slots = @ \o [i \in 1..Len(sq) |-> [gdoc.slots[sq[i]] EXCEPT !.vis = 10 + c, !.loc = sq[i]]]]
  /\ UNCHANGED <<phase, gfiles, st, hist>>
GenCloseFile ==
  /\ phase = "gen" /\ Len(gfiles) + 1 < MaxFiles
  /\ gfiles' = Append(gfiles, gdoc) /\ gdoc' = EmptyDoc /\ UNCHANGED <<phase, st, hist>>
Start == \E b \in Backups :
  /\ phase = "gen" /\ phase' = "run" /\ st' = RInit(Append(gfiles, gdoc), b) /\ hist' = <<>> /\ UNCHANGED <<gfiles, gdoc>>

\* one named disjunct per event kind so that -coverage reports per-action counts
Take(kind, cond(_)) == phase = "run" /\ \E e \in Expect(st) :
  /\ e.e = kind /\ cond(e)
  /\ st' = RStep(st, e) /\ st'.pc # "REJECT" /\ hist' = Append(hist, e) /\ UNCHANGED <<phase, gfiles, gdoc>>
AnyEv(e) == TRUE
NextFile       == Take("NextFile", AnyEv)
Find           == Take("Find", AnyEv)
SkipSeenAnchor == Take("Node", LAMBDA e : e.anc # "" /\ e.anc \in st.seen)
Select         == Take("Node", LAMBDA e : ~(e.anc # "" /\ e.anc \in st.seen))
Decrypt        == Take("Decrypt", LAMBDA e : e.ok)
DecryptFail    == Take("Decrypt", LAMBDA e : ~e.ok)
Encrypt        == Take("Encrypt", AnyEv)
Store          == Take("Store", AnyEv)
Backup         == Take("Backup", AnyEv)
Write          == Take("Write", AnyEv)
Exit           == Take("Exit", AnyEv)

Next == GenPlain \/ GenSecret \/ GenAlias \/ GenVisit \/ GenCloseFile \/ Start \/ NextFile \/ Find \/ SkipSeenAnchor \/ Select \/ Decrypt \/ DecryptFail
        \/ Encrypt \/ Store \/ Backup \/ Write \/ Exit
Spec == Init /\ [][Next]_vars

Running == phase = "run"
AllNew          == Running => InvAllNew(st)
PlaintextKept   == Running => InvPlaintextKept(st)
OncePerCell     == Running => InvOncePerCell(st)
StillShared     == Running => InvStillShared(st)
Frame           == Running => InvFrame(st)
NoSecretNoTouch == Running => InvNoSecretNoTouch(st)
BackupFirst     == Running => InvBackupFirst(st)
AtMostOnce      == Running => InvAtMostOnce(st)
\* the machine never gets stuck before Done, and the marker decides who is a secret
Progress        == Running /\ st.pc # "Done" => Expect(st) # {}
MarkerSound     == (\A h \in SecretHeads : IsEyaml(h)) /\ (\A h \in PlainHeads : ~IsEyaml(h))
\* with only old-key secrets whose plaintext the tool accepts the run succeeds
Decryptable(d) == /\ \A i \in 1..Len(d.objs) : IsEyaml(d.objs[i].head) => d.objs[i].key = "old" /\ ~Refused(d.objs[i])
                  \* ... and, the path generator descending into a container at every reference, no secret is met twice
                  /\ (ContainerGuard = "none" => \A p \in 1..Len(d.slots) : d.slots[p].loc = p \/ ~IsEyaml(d.objs[d.slots[p].o].head))
SucceedsOnOld   == Running /\ st.pc = "Done" /\ (\A i \in 1..Len(st.files) : Decryptable(st.files[i])) => st.status = 0

Emit == Running /\ st.pc = "Done" =>
  LET fs == FilesOf(st) IN
  CSVWrite("%1$s", <<ToJson([files |-> st.files, backup |-> st.backup, status |-> st.status, nev |-> Len(hist),
                            finals |-> [i \in 1..Len(fs) |-> View(fs[i].heap, fs[i].bind)],
                            written |-> [i \in 1..Len(fs) |-> fs[i].written],
                            backed |-> [i \in 1..Len(fs) |-> fs[i].backed]])>>, IOEnv.CASES_OUT)

(* pools for the cfg files *)
HeadsS1 == {"ENC[PKCS7,"}
HeadsS3 == {"ENC[PKCS7,", " E NC[PKCS7,", "\nENC[\nPKCS7,"}
HeadsP1 == {"plain"}
HeadsP4 == {"plain", "xENC[PKCS7,", "enc[PKCS7,", "ENC PKCS7,"}
=============================================================================
