------------------------------ MODULE MC_YSave ------------------------------
(***************************************************************************)
(* C17 model: every behaviour of YSave for every option set (24), with at  *)
(* most one injected I/O fault at every call, every effect a failing write *)
(* can leave, every pre-write failure cause.  The model is finite; TLC     *)
(* explores it completely.  hist records the events of the behaviour; each *)
(* finished behaviour is emitted as one JSON line (EmitDone) so that the   *)
(* harness can (a) replay it into the real main() (S->C) and (b) check     *)
(* that the set of behaviours observed from the code equals this set.      *)
(* Next is split into one named action per I/O call and outcome so that    *)
(* `-coverage 1` shows that every action fires.                            *)
(***************************************************************************)
EXTENDS YSave, TLC, Json, CSV, IOUtils

VARIABLES st, hist
vars == <<st, hist>>

Init == st \in {SInit(o) : o \in AllOpts} /\ hist = <<>>

Take(e) == LET n == SStep(st, e)
           IN n.pc # "REJECT" /\ st' = n
              /\ hist' = Append(hist, [op |-> e.op, role |-> e.role, res |-> e.res, eff |-> e.eff, post |-> n.fs])

\* events of one kind
Ev(op, roles, ress) == {e \in Events : e.op = op /\ e.role \in roles /\ e.res \in ress}
Good == {"ok", "true", "false"}
Bad == {"fail"}
At(ls) == Lbl(st) \in ls

ValidateOutputAbsent == At({"start"}) /\ \E e \in Ev("exists", {"output"}, Good) : Take(e)
ValidateOutputAbsentFails == At({"start"}) /\ \E e \in Ev("exists", {"output"}, Bad) : Take(e)
ExistsOverwriteTarget == At({"start"}) /\ \E e \in Ev("exists", {"target"}, Good) : Take(e)
ExistsOverwriteTargetFails == At({"start"}) /\ \E e \in Ev("exists", {"target"}, Bad) : Take(e)
RefuseExistingOutput == st.pc = "vfail" /\ \E e \in Ev("exit", {"exists_output"}, Bad) : Take(e)
LoadTarget == st.pc = "load" /\ \E e \in Ev("open_r", {"target"}, Good) : Take(e)
LoadTargetFails == st.pc = "load" /\ \E e \in Ev("open_r", {"target"}, Bad) : Take(e)
LoadOther == st.pc = "work" /\ \E e \in Ev("open_r", {"other"}, Good) : Take(e)
LoadOtherFails == st.pc = "work" /\ \E e \in Ev("open_r", {"other"}, Bad) : Take(e)
FailBeforeWrite == st.pc \in {"load", "work"} /\ \E e \in Ev("exit", PreWrite, Bad) : Take(e)
FailAfterWrite == st.pc \notin {"load", "work", "vfail"} /\ \E e \in Ev("exit", PreWrite, Bad) : Take(e)  \* only when ~ValidateFirst
ExistsBak == At({"exists_bak"}) /\ \E e \in Ev("exists", {"backup"}, Good) : Take(e)
ExistsBakFails == At({"exists_bak"}) /\ \E e \in Ev("exists", {"backup"}, Bad) : Take(e)
RemoveBak == At({"remove_bak"}) /\ \E e \in Ev("remove", {"backup"}, Good) : Take(e)
RemoveBakFails == At({"remove_bak"}) /\ \E e \in Ev("remove", {"backup"}, Bad) : Take(e)
CopyToBak == At({"copy_bak"}) /\ \E e \in Ev("copy2", {"backup"}, Good) : Take(e)
CopyToBakFails == At({"copy_bak"}) /\ \E e \in Ev("copy2", {"backup"}, Bad) : Take(e)
OpenTmp == At({"open_tmp"}) /\ \E e \in Ev("tmpfile", {"tmp"}, Good) : Take(e)
OpenTmpFails == At({"open_tmp"}) /\ \E e \in Ev("tmpfile", {"tmp"}, Bad) : Take(e)
ReadTarget == At({"open_r2"}) /\ \E e \in Ev("open_rb", {"target"}, Good) : Take(e)
ReadTargetFails == At({"open_r2"}) /\ \E e \in Ev("open_rb", {"target"}, Bad) : Take(e)
CopyToTmp == At({"copy_tmp"}) /\ \E e \in Ev("copyfileobj", {"tmp"}, Good) : Take(e)
CopyToTmpFails == At({"copy_tmp"}) /\ \E e \in Ev("copyfileobj", {"tmp"}, Bad) : Take(e)
CloseRead == At({"close_r"}) /\ \E e \in Ev("close", {"target"}, Good) : Take(e)
CloseReadFails == At({"close_r"}) /\ \E e \in Ev("close", {"target"}, Bad) : Take(e)
OpenTargetW == At({"open_w"}) /\ \E e \in Ev("open_w", {"target"}, Good) : Take(e)
OpenTargetWFails == At({"open_w"}) /\ \E e \in Ev("open_w", {"target"}, Bad) : Take(e)
OpenOutW == At({"open_w"}) /\ \E e \in Ev("open_w", {"output"}, Good) : Take(e)
OpenOutWFails == At({"open_w"}) /\ \E e \in Ev("open_w", {"output"}, Bad) : Take(e)
Dump == At({"dump"}) /\ \E e \in Ev("dump", {"target", "output"}, Good) : Take(e)
DumpFails == At({"dump"}) /\ \E e \in Ev("dump", {"target", "output"}, Bad) : Take(e)
DumpAsserts == At({"dump"}) /\ \E e \in Ev("dump", {"target"}, {"assert"}) : Take(e)
Close == At({"close_w"}) /\ \E e \in Ev("close", {"target", "output"}, Good) : Take(e)
CloseFails == At({"close_w"}) /\ \E e \in Ev("close", {"target", "output"}, Bad) : Take(e)
CloseTmp == At({"close_tmp"}) /\ \E e \in Ev("close", {"tmp"}, Good) : Take(e)
CloseTmpFails == At({"close_tmp"}) /\ \E e \in Ev("close", {"tmp"}, Bad) : Take(e)
RestoreCloseW == At({"r_close_w"}) /\ \E e \in Ev("close", {"target"}, Good) : Take(e)
RestoreOpenTargetWB == At({"r_open_wb"}) /\ \E e \in Ev("open_wb", {"target"}, Good) : Take(e)
RestoreCopyFromTmp == At({"r_copy"}) /\ \E e \in Ev("copyfileobj", {"target"}, Good) : Take(e)
RestoreCloseWB == At({"r_close_wb"}) /\ \E e \in Ev("close", {"target"}, Good) : Take(e)
RestoreRemoveBak == At({"r_remove_bak"}) /\ \E e \in Ev("remove", {"backup"}, Good) : Take(e)
UnwindClose == st.pc = "abort" /\ \E e \in Ev("close", FileRoles, Good) : Take(e)
ExitAfterFault == st.pc = "abort" /\ \E e \in Ev("exit", {"io", "assert"}, Bad) : Take(e)
ExitOk == At({"end"}) /\ \E e \in Ev("exit", {"none"}, {"ok"}) : Take(e)

Next == \/ ValidateOutputAbsent \/ ValidateOutputAbsentFails \/ ExistsOverwriteTarget \/ ExistsOverwriteTargetFails
        \/ RefuseExistingOutput \/ LoadTarget \/ LoadTargetFails \/ LoadOther \/ LoadOtherFails
        \/ FailBeforeWrite \/ FailAfterWrite
        \/ ExistsBak \/ ExistsBakFails \/ RemoveBak \/ RemoveBakFails \/ CopyToBak \/ CopyToBakFails
        \/ OpenTmp \/ OpenTmpFails \/ ReadTarget \/ ReadTargetFails \/ CopyToTmp \/ CopyToTmpFails
        \/ CloseRead \/ CloseReadFails \/ OpenTargetW \/ OpenTargetWFails \/ OpenOutW \/ OpenOutWFails
        \/ Dump \/ DumpFails \/ DumpAsserts \/ Close \/ CloseFails \/ CloseTmp \/ CloseTmpFails
        \/ RestoreCloseW \/ RestoreOpenTargetWB \/ RestoreCopyFromTmp \/ RestoreCloseWB \/ RestoreRemoveBak
        \/ UnwindClose \/ ExitAfterFault \/ ExitOk

Spec == Init /\ [][Next]_vars

\* the named actions cover the whole step function: no enabled event is left out
NextIsComplete == \A e \in Events : SStep(st, e).pc # "REJECT" => ENABLED Take(e)

InvTypeOK == TypeOK(st)
InvPreWriteFailureLeavesNoTrace == PreWriteFailureLeavesNoTrace(st)
InvOutputNeverReplaces == OutputNeverReplaces(st)
InvBackupIsPreimage == BackupIsPreimage(st)
InvSingleFaultSafety == SingleFaultSafety(st)
InvNoBackupWhenUnchanged == NoBackupWhenUnchanged(st)
InvFrame == Frame(st)
InvSuccessMeansSaved == SuccessMeansSaved(st)
\* every run terminates: a state without successor is a finished run
Terminates == (\A e \in Events : SStep(st, e).pc = "REJECT") => st.pc = "done"
\* SStep is deterministic by construction (a function); the step it takes is the one recorded
HistConsistent == Len(hist) <= 24

EmitDone ==
  st.pc = "done" =>
    CSVWrite("%1$s", <<ToJson([o |-> st.o, tr |-> hist, fs |-> st.fs, code |-> st.code, cause |-> st.cause])>>,
             IOEnv.CASES_OUT)
=============================================================================
