----------------------------- MODULE Trace_Diff -----------------------------
(***************************************************************************)
(* C->S binding for C06: reports recorded from the real Differ on seeded   *)
(* random pairs are judged by the specification.  A record is              *)
(*   [id, l, r, arrays, aoh, rules, keys, crash, es]   (rules / keys: the   *)
(* per-path configuration, [p, v] with p as step records)  es = the       *)
(* entries of get_report()                                                  *)
(* as valued entries [a, p, lv, rv] (tables of the values the entry        *)
(* carries; Python's None recorded as the null value).  For every record   *)
(* the clauses of the statement (YDiff.Verdict - the very operators that   *)
(* MC_Diff model-checks) are evaluated on the RECORDED report against the  *)
(* recorded documents; the mirrored differ is evaluated on the same pair   *)
(* to tell whether a failing clause is a predicted one and whether the     *)
(* real report is the model's report (as a bag of action + path).          *)
(* The verdict is total: one record out per record in.                     *)
(***************************************************************************)
EXTENDS YDiff, Json, IOUtils

CONSTANT Repaired      \* the deviations (YDiff: "A".."E") already repaired in the code

Recs == JsonDeserialize(IOEnv.RECORDS_IN)

AP(es) == [k \in 1..Len(es) |-> [a |-> es[k].a, p |-> es[k].p]]
Judge(rc) ==
  LET cfg == [arrays |-> rc.arrays, aoh |-> rc.aoh, rules |-> rc.rules, keys |-> rc.keys, fixed |-> Repaired]
      df == Diff(rc.l, rc.r, cfg)
      v == Verdict(rc.es, rc.l, rc.r, cfg)
      mv == IF df.crash THEN [truthful |-> FALSE, covers |-> FALSE, accounted |-> FALSE, nochange |-> FALSE, expect |-> v.expect]
            ELSE Verdict(Valued(df.es, rc.l, rc.r), rc.l, rc.r, cfg)
  IN [id |-> rc.id, t |-> v.truthful, c |-> v.covers, a |-> v.accounted, n |-> v.nochange, x |-> v.expect,
      mt |-> mv.truthful, mc |-> mv.covers, ma |-> mv.accounted, mn |-> mv.nochange, mcrash |-> df.crash /\ df.dom, dom |-> df.dom,
      agree |-> (rc.crash = df.crash) /\ (rc.crash \/ BagEq(AP(rc.es), AP(df.es)))]

ASSUME JsonSerialize(IOEnv.VERDICTS_OUT, [i \in 1..Len(Recs) |-> Judge(Recs[i])])
=============================================================================
