---------------------------- MODULE Trace_Parser ----------------------------
(***************************************************************************)
(* C->S binding for the path parser: records observed on the real          *)
(* YAMLPath class (text, outcome codes of the four parses, projected       *)
(* segments, canonical string, and - when present - the per-character      *)
(* internal states sampled with sys.settrace) are validated against the    *)
(* specification by folding the SAME step function PStep that MC_Parser    *)
(* model-checks.  One TLC invocation validates a whole batch; the verdict  *)
(* for every record is written as JSON (total: names the failing clause).  *)
(***************************************************************************)
EXTENDS YPathSyntax, Json, IOUtils

Recs == JsonDeserialize(IOEnv.RECORDS_IN)

OutCode(ps) == IF ps.out = "done" THEN "o" ELSE IF ps.out = "err" THEN "e" ELSE "c"
SegsOf(ps) == IF ps.out = "done" THEN ps.segs ELSE <<>>

\* projection of a parser state onto the fields the recorder samples
Proj(ps) == [id |-> ps.id, ty |-> ps.ty, stack |-> ps.stack, esc |-> ps.esc, inv |-> ps.inv,
             meth |-> ps.meth, attr |-> ps.attr, kw |-> ps.kw, seekRe |-> ps.seekRe, capRe |-> ps.capRe,
             lvl |-> ps.lvl, cop |-> ps.cop, seekCop |-> ps.seekCop, must |-> ps.must,
             seekAnchor |-> ps.seekAnchor, nsegs |-> Len(ps.segs)]

\* fold PStep along the text; steps[i] is the recorded state after the i-th character.
\* returns 0 when every step agrees, else the index of the first disagreeing character
RECURSIVE FoldTrace(_, _, _, _)
FoldTrace(ps, text, steps, i) ==
  IF i > Len(steps) THEN 0
  ELSE LET nx == PStep(ps, Ch(text, i)) IN
       IF nx.out = "run" /\ Proj(nx) = steps[i] THEN FoldTrace(nx, text, steps, i + 1)
       ELSE IF nx.out # "run" /\ i = Len(steps) /\ steps[i].id = "<raised>" THEN 0
       ELSE i

Verdict(r) ==
  LET ae == Parse(r.t, "auto", TRUE) au == Parse(r.t, "auto", FALSE)
      de == ForcedEscaped(r.t, "dot") fe == ForcedEscaped(r.t, "fslash")
      code == OutCode(ae) \o OutCode(au) \o OutCode(de) \o OutCode(fe)
      sepc == InferSep(r.t, "auto")
      s == IF au.out = "done" THEN Str(au.segs, sepc) ELSE ""
      tr == IF Len(r.steps) > 0 THEN FoldTrace(PInit(r.t, "auto", TRUE), r.t, r.steps, 1) ELSE 0
      why == IF code # r.code THEN "code:" \o code
             ELSE IF SegsOf(ae) # r.ae THEN "ae"
             ELSE IF SegsOf(au) # r.au THEN "au"
             ELSE IF SegsOf(de) # r.de THEN "de"
             ELSE IF SegsOf(fe) # r.fe THEN "fe"
             ELSE IF s # r.s THEN "str:" \o s
             ELSE IF tr # 0 THEN "step:" \o IntStr(tr)
             ELSE ""
  IN [id |-> r.id, ok |-> (why = ""), why |-> why]

ASSUME JsonSerialize(IOEnv.VERDICTS_OUT, [i \in 1..Len(Recs) |-> Verdict(Recs[i])])
=============================================================================
