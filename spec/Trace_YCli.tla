----------------------------- MODULE Trace_YCli -----------------------------
(***************************************************************************)
(* C->S binding for C16: runs of the real main() functions recorded by the *)
(* harness (harness/cliobs.py) are validated against YCli by folding the   *)
(* SAME step function Step that MC_YCli model-checks.                      *)
(*                                                                         *)
(* A record r = [id, tool, o |-> [must, mode, noise], tr, code, exp] holds *)
(*   tr    the events of the run in the order they were observed: args /   *)
(*         validate (wrappers around processcli / validateargs), load      *)
(*         (wrappers around the loader calls; via = file | dash | implicit), work    *)
(*         (wrappers around the library calls the tool makes), output      *)
(*         (what reached stdout / the result document) and exit (the       *)
(*         process exit status);                                           *)
(*   code  the exit status again (must be the one of the exit event);      *)
(*   exp   the library outcome [k, n] the MODEL of the library-level       *)
(*         property predicts for the same input ("" = no prediction).      *)
(* A record is accepted iff every event is enabled where it occurs (so the *)
(* exit status is one the table gives for the OBSERVED library outcome and *)
(* the output is the one the state allows), the run is finished, the       *)
(* statements of C16 hold in the final state, and the same run with every  *)
(* document delivered as a file is accepted and ends in the same state.  The       *)
(* verdict also returns `want`: the exit codes the table gives when the    *)
(* observed library outcome is replaced by the predicted one.              *)
(***************************************************************************)
EXTENDS YCli, Json, IOUtils, TLC, SequencesExt

Recs == JsonDeserialize(IOEnv.RECORDS_IN)

OptsOK(o) == o.must \in BOOLEAN /\ o.mode \in Modes /\ o.noise \in Noises

\* the final state with the predicted library outcome in place of the observed one
WithExp(s, exp) ==
  IF exp.k = "" THEN s
  ELSE IF exp.k = "badexpr" THEN [s EXCEPT !.badexpr = TRUE]
  ELSE [s EXCEPT !.lib = Lib(exp.k, exp.n)]

Verdict(r) ==
  LET o == Opts(r.o.must, r.o.mode, r.o.noise)
      good == r.tool \in Tools /\ OptsOK(o)
      v == IF good THEN Run(r.tool, o, r.tr) ELSE [ok |-> FALSE, at |-> 0, s |-> Init0("get", o)]
      t == IF good THEN Run(r.tool, o, AllFile(r.tr)) ELSE v
      why == IF ~good THEN "options"
             ELSE IF ~v.ok THEN "not-enabled:" \o r.tr[v.at].ph
             ELSE IF v.s.pc # "Done" THEN "unfinished"
             ELSE IF v.s.code # r.code THEN "status"
             ELSE IF ~Honest(v.s) THEN "dishonest"
             ELSE IF ~t.ok \/ Core(t.s) # Core(v.s) THEN "delivery"
             ELSE ""
  IN [id |-> r.id, ok |-> (why = ""), at |-> v.at, why |-> why, pc |-> v.s.pc, k |-> v.s.lib.k, n |-> v.s.lib.n,
      codes |-> SetToSeq(Codes(v.s)), want |-> SetToSeq(Codes(WithExp(v.s, r.exp)))]

ASSUME JsonSerialize(IOEnv.VERDICTS_OUT, [i \in 1..Len(Recs) |-> Verdict(Recs[i])])
=============================================================================
