--------------------------- MODULE Trace_YMultiDoc ---------------------------
(***************************************************************************)
(* C18, C->S: runs of the real yaml-merge drivers recorded by the harness  *)
(* (harness/props/c18.py) are validated against YMultiDoc by folding the   *)
(* SAME MStep that MC_YMultiDoc model-checks.  One record per run:         *)
(*   mode, hashes, arrays, sets, files (document ids per stream), kinds,   *)
(*   events  - one per get_doc_mergers call (Load), per Merger.merge_with  *)
(*             call (CondenseLhs/CondenseRhs/Across/Matrix, with the       *)
(*             policy in force and the marker data of both operands as     *)
(*             seen at the call), per append to the left list              *)
(*             (AcrossAppend), and the final Output,                       *)
(*   data    - marker abstraction of every Merger.data of the final list,  *)
(*   stdout  - the same for the parsed output stream (CLI runs).           *)
(* The verdict is total; it names the first rejected event, the event the  *)
(* specification would have accepted there, and which outputs differ.      *)
(***************************************************************************)
EXTENDS YMultiDoc, Json, IOUtils, TLC

Recs == JsonDeserialize(IOEnv.RECORDS_IN)

ObsDoc(o) == [nul |-> o.nul, root |-> o.root, keys |-> Range(o.keys), shared |-> o.shared, lst |-> o.lst]
JDoc(c)   == [nul |-> c.nul, root |-> c.root, keys |-> c.keys, shared |-> c.shared, lst |-> c.lst]
NormEv(e) == Ev(e.kind, e.f, e.i, e.j, e.ids, Pol(e.hashes, e.arrays, e.sets))
IsMerge(e) == e.kind \in {"CondenseLhs", "CondenseRhs", "Across", "Matrix"}

\* the Merger objects a pairwise event names in state s (before the step)
AccOf(s, e) == IF e.kind \in {"CondenseLhs", "CondenseRhs"} THEN Acc(s, 1) ELSE Acc(s, e.i)
RhsOf(s, e) == CASE e.kind = "CondenseLhs" -> Acc(s, e.i)
                 [] e.kind = "Across"      -> s.rhs[e.i]
                 [] OTHER                  -> s.rhs[e.j]

\* fold MStep; besides acceptance track
\*   drift    - first event whose observed operand data differ from the mirrored heap
\*   polluted - first event whose observed RHS data are not the pristine source document
\* The fold is split in halves and each half is forced before the next starts (recursion depth
\* log2 of the trace length: TLC evaluates ASSUMEs on the JVM's main thread, whose 1 MB stack a
\* linear or lazily chained fold over 100+ events exhausts).
StepAcc(a, tr, i) ==
  IF ~a.ok THEN a
  ELSE LET s == a.s  e == NormEv(tr[i])  n == MStep(s, e) IN
       IF n.pc = "REJECT" THEN [a EXCEPT !.ok = FALSE, !.at = i]
       ELSE IF ~IsMerge(e) THEN [a EXCEPT !.s = n]
       ELSE LET agree == /\ ObsDoc(tr[i].lm) = HContent(s.heap, AccOf(s, e))
                         /\ ObsDoc(tr[i].rm) = HContent(s.heap, RhsOf(s, e))
                pristine == ObsDoc(tr[i].rm) = Src(RhsOf(s, e), s.kinds[RhsOf(s, e)])
            IN [a EXCEPT !.s = n, !.drift = IF @ = 0 /\ ~agree THEN i ELSE @,
                                  !.polluted = IF @ = 0 /\ ~pristine THEN i ELSE @]
RECURSIVE Fold(_, _, _, _)
Fold(a, tr, lo, hi) ==
  IF lo > hi THEN a
  ELSE IF lo = hi THEN StepAcc(a, tr, lo)
  ELSE LET mid == (lo + hi) \div 2
           left == Fold(a, tr, lo, mid)
       IN IF left.ok \in BOOLEAN            \* forces the left half now (TLC passes arguments lazily)
          THEN Fold(left, tr, mid + 1, hi) ELSE left
Run(s0, tr) == Fold([ok |-> TRUE, at |-> 0, s |-> s0, drift |-> 0, polluted |-> 0], tr, 1, Len(tr))

EvText(e) ==
  CASE e.kind = "Load" -> "Load(" \o ToString(e.f) \o ")"
    [] e.kind \in {"CondenseLhs", "AcrossAppend"} -> e.kind \o "(" \o ToString(e.i) \o ")"
    [] e.kind = "CondenseRhs" -> "CondenseRhs(" \o ToString(e.j) \o ")"
    [] e.kind \in {"Across", "Matrix"} -> e.kind \o "(" \o ToString(e.i) \o "," \o ToString(e.j) \o ")"
    [] OTHER -> e.kind

\* first difference between observed documents and the expected ones ("" when none)
DocsWhy(obs, expc) ==
  IF Len(obs) # Len(expc) THEN "count:" \o ToString(Len(obs)) \o "/" \o ToString(Len(expc))
  ELSE LET bad == {p \in 1..Len(expc) : ObsDoc(obs[p]) # expc[p]} IN
       IF bad = {} THEN "" ELSE "doc:" \o ToString(CHOOSE p \in bad : \A q \in bad : p <= q)

HeapDocs(s) == [p \in 1..Len(s.lhs) |-> HContent(s.heap, Acc(s, p))]

Verdict(r) ==
  LET pol   == Pol(r.hashes, r.arrays, r.sets)
      runP  == Run(MInit(r.mode, pol, r.files, r.kinds, FALSE), r.events)   \* design as pinned
      runC  == Run(MInit(r.mode, pol, r.files, r.kinds, TRUE), r.events)    \* repaired design
      exp   == Expected(r.mode, r.files)                \* declarative - does not depend on the trace
      expc  == [p \in 1..Len(exp) |-> Content(exp[p], r.kinds, pol)]
      trOk  == runC.ok /\ runC.s.pc = "DONE" /\ runC.s.out = exp
      dWhy  == DocsWhy(r.data, expc)
      sWhy  == IF r.has_stdout THEN DocsWhy(r.stdout, expc) ELSE ""
      mirP  == runP.ok /\ runP.drift = 0 /\ DocsWhy(r.data, HeapDocs(runP.s)) = ""
      mirC  == runC.ok /\ runC.drift = 0 /\ DocsWhy(r.data, HeapDocs(runC.s)) = ""
  IN [id |-> r.id, trace_ok |-> trOk, at |-> runC.at,
      want |-> IF runC.ok THEN (IF runC.s.pc = "DONE" THEN "" ELSE EvText(NextEvent(runC.s))) ELSE EvText(NextEvent(runC.s)),
      data_why |-> dWhy, stdout_why |-> sWhy,
      polluted |-> runC.polluted,
      mirror |-> IF mirP /\ mirC THEN "both" ELSE IF mirP THEN "pinned" ELSE IF mirC THEN "copy" ELSE "none",
      nmerge |-> runC.s.n, nmerge_exp |-> MergeCount(r.mode, [f \in 1..Len(r.files) |-> Len(r.files[f])]),
      exp |-> [p \in 1..Len(expc) |-> JDoc(expc[p])]]

ASSUME JsonSerialize(IOEnv.VERDICTS_OUT, [i \in 1..Len(Recs) |-> Verdict(Recs[i])])
=============================================================================
