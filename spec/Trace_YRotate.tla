---------------------------- MODULE Trace_YRotate ----------------------------
(***************************************************************************)
(* C->S binding for C19: each record is one run of the real                *)
(* eyaml-rotate-keys main() on a generated file:                           *)
(*   id, doc (slots/objs as in YRotate), backup (was --backup given),      *)
(*   events  the merged log of the stand-in eyaml executable (Decrypt /    *)
(*           Encrypt) and of the recording wrappers installed in the       *)
(*           command module's namespace (Find / Node / Store / Backup /    *)
(*           Write / Exit), in the order they happened,                    *)
(*   file    the view (identity class, key, plaintext per position) of the *)
(*           file as reloaded after the run (compared when filecheck: the  *)
(*           file was rewritten and loads).                                *)
(* The run is accepted iff folding RStep - the SAME function MC_YRotate    *)
(* model-checks - over the events never rejects, ends in Done, every       *)
(* clause of the property holds in every state on the way, and the         *)
(* rewritten file shows the final state.  The verdict is total: it names   *)
(* the first rejected event, the clause, and the events the specification  *)
(* would have accepted there.                                              *)
(***************************************************************************)
EXTENDS YRotate, Json, IOUtils

Recs == JsonDeserialize(IOEnv.RECORDS_IN)

RECURSIVE Run(_, _, _)
Run(s, ev, i) ==
  IF i > Len(ev) THEN [s |-> s, at |-> 0, why |-> ""]
  ELSE LET n == RStep(s, ev[i]) IN
       IF n.pc = "REJECT" THEN [s |-> s, at |-> i, why |-> "reject"]
       ELSE IF Failing(n) # "" THEN [s |-> n, at |-> i, why |-> "inv:" \o Failing(n)]
       ELSE Run(n, ev, i + 1)

Verdict(r) ==
  LET res == Run(RInit(r.doc, r.backup), r.events, 1)
      s == res.s
      why == IF res.why # "" THEN res.why
             ELSE IF s.pc # "Done" THEN "incomplete"
             ELSE IF r.filecheck /\ r.file # View(s.heap, s.bind) THEN "file"
             ELSE ""
  IN [id |-> r.id, ok |-> (why = ""), why |-> why, at |-> res.at, pc |-> s.pc, status |-> s.status,
      expect |-> IF why = "reject" \/ why = "incomplete" THEN Expect(s) ELSE {},
      view |-> View(s.heap, s.bind), ndec |-> s.ndec, nenc |-> s.nenc]

ASSUME JsonSerialize(IOEnv.VERDICTS_OUT, [i \in 1..Len(Recs) |-> Verdict(Recs[i])])
=============================================================================
