---------------------------- MODULE Trace_YRotate ----------------------------
(***************************************************************************)
(* C->S binding for C19: each record is one invocation of the real         *)
(* eyaml-rotate-keys main() on one or more generated files:                *)
(*   id, files (documents, slots/objs as in YRotate), backup (--backup?),  *)
(*   events  the merged log of the stand-in eyaml executable (Decrypt /    *)
(*           Encrypt) and of the recording wrappers installed in the       *)
(*           command module's namespace (NextFile / Find / Node / Store /  *)
(*           Backup / Write / Exit), in the order they happened,           *)
(*   views   per file the view (identity class, key, plaintext per         *)
(*           position) of the file as reloaded after the run, compared     *)
(*           where filecheck[i] (the file was rewritten and loads).        *)
(* The run is accepted iff folding RStep - the SAME function MC_YRotate    *)
(* model-checks - over the events never rejects, ends in Done, every       *)
(* clause of the property holds in every state on the way, and every       *)
(* rewritten file shows its final state.  The verdict is total: it names   *)
(* the first rejected event, the clause, and the events the specification  *)
(* would have accepted there.                                              *)
(***************************************************************************)
EXTENDS YRotate, Json, IOUtils

Recs == JsonDeserialize(IOEnv.RECORDS_IN)

\* chk = FALSE: only "is this event sequence a behaviour of the machine" (used with the deviating designs, whose
\* behaviours break the property's clauses by construction)
RECURSIVE Run(_, _, _, _)
Run(s, ev, i, chk) ==
  IF i > Len(ev) THEN [s |-> s, at |-> 0, why |-> ""]
  ELSE LET n == RStep(s, ev[i]) IN
       IF n.pc = "REJECT" THEN [s |-> s, at |-> i, why |-> "reject"]
       ELSE IF chk /\ Failing(n) # "" THEN [s |-> n, at |-> i, why |-> "inv:" \o Failing(n)]
       ELSE Run(n, ev, i + 1, chk)

Verdict(r) ==
  LET res == Run(RInit(r.files, r.backup), r.events, 1, r.checkinv)
      s == res.s
      fs == FilesOf(s)
      badfile == {i \in 1..Len(fs) : i <= Len(r.views) /\ r.filecheck[i] /\ r.views[i] # View(fs[i].heap, fs[i].bind)}
      why == IF res.why # "" THEN res.why
             ELSE IF s.pc # "Done" THEN "incomplete"
             ELSE IF Len(fs) # Len(r.files) THEN "files"
             ELSE IF badfile # {} THEN "file"
             ELSE ""
  IN [id |-> r.id, ok |-> (why = ""), why |-> why, at |-> res.at, pc |-> s.pc, status |-> s.status, fi |-> s.fi,
      expect |-> IF why = "reject" \/ why = "incomplete" THEN Expect(s) ELSE {},
      views |-> [i \in 1..Len(fs) |-> View(fs[i].heap, fs[i].bind)]]

ASSUME JsonSerialize(IOEnv.VERDICTS_OUT, [i \in 1..Len(Recs) |-> Verdict(Recs[i])])
=============================================================================
