----------------------------- MODULE Trace_YSave -----------------------------
(***************************************************************************)
(* C->S binding for C17: event traces recorded from the real main() of     *)
(* yaml-set / yaml-merge / eyaml-rotate-keys (one event per intercepted    *)
(* I/O call, with the file-system classification observed right after the  *)
(* call in .post) are validated against YSave by folding the SAME step     *)
(* function SStep that MC_YSave model-checks.  A record is accepted iff    *)
(*   - every event is enabled in the state reached so far,                 *)
(*   - the model's file system equals the observed one after every event,  *)
(*   - every YSave predicate holds after every event,                      *)
(*   - the run is finished (pc = "done") with the observed exit status and *)
(*     the observed final file system.                                     *)
(* One TLC invocation validates a whole batch; the verdict names the index *)
(* of the first rejected event, the reason, the last accepted pc and the   *)
(* events the specification would have accepted there.                     *)
(***************************************************************************)
EXTENDS YSave, Json, IOUtils, TLC

Recs == JsonDeserialize(IOEnv.RECORDS_IN)

Ev4(x) == [op |-> x.op, role |-> x.role, res |-> x.res, eff |-> x.eff]
Enabled(s) == {e \in Events : SStep(s, e).pc # "REJECT"}
Show(e) == e.op \o ":" \o e.role \o ":" \o e.res \o ":" \o e.eff
ShowAll(s) == LET en == Enabled(s)
                  RECURSIVE Cat(_)
                  Cat(S) == IF S = {} THEN "" ELSE LET x == CHOOSE x \in S : TRUE IN Show(x) \o " " \o Cat(S \ {x})
              IN Cat(en)

RECURSIVE Run(_, _, _)
Run(s, tr, i) ==
  IF i > Len(tr) THEN [ok |-> TRUE, at |-> 0, why |-> "", s |-> s]
  ELSE LET e == Ev4(tr[i])
           n == IF e \in Events THEN SStep(s, e) ELSE Reject(s)
       IN IF n.pc = "REJECT" THEN [ok |-> FALSE, at |-> i, why |-> "not-enabled", s |-> s]
          ELSE IF n.fs # tr[i].post THEN [ok |-> FALSE, at |-> i, why |-> "fs-after-event", s |-> s]
          ELSE IF FirstBroken(n) # "" THEN [ok |-> FALSE, at |-> i, why |-> "inv:" \o FirstBroken(n), s |-> n]
          ELSE Run(n, tr, i + 1)

Verdict(r) ==
  LET o == [tool |-> r.o.tool, bak |-> r.o.bak, stale |-> r.o.stale, outx |-> r.o.outx,
            json |-> r.o.json, changed |-> r.o.changed, link |-> r.o.link]
      v == IF o \in AllOpts THEN Run(SInit(o), r.tr, 1)
           ELSE [ok |-> FALSE, at |-> 0, why |-> "options", s |-> SInit(o)]
      why == IF ~v.ok THEN v.why
             ELSE IF v.s.pc # "done" THEN "unfinished"
             ELSE IF v.s.code # r.code THEN "status"
             ELSE IF v.s.fs # r.fs THEN "final-fs"
             ELSE ""
  IN [id |-> r.id, ok |-> (why = ""), at |-> v.at, why |-> why, pc |-> v.s.pc,
      enabled |-> IF why = "" THEN "" ELSE ShowAll(v.s)]

ASSUME JsonSerialize(IOEnv.VERDICTS_OUT, [i \in 1..Len(Recs) |-> Verdict(Recs[i])])
=============================================================================
