---------------------------- MODULE Trace_YSaveSys ----------------------------
(***************************************************************************)
(* C17, second (code-shape-independent) binding: the tool runs as a real   *)
(* subprocess under strace; the system calls on the three paths (target,   *)
(* .bak, --output) are abstracted many-to-one into the VISIBLE events       *)
(*    remove (unlink), copy2 (open-for-write of the .bak .. its close),    *)
(*    open_w (open O_WRONLY|O_TRUNC of target/output), dump (the writes),  *)
(*    close (of the written descriptor), exit (process status).            *)
(* Everything else the model does (exists = stat, the temporary file, the  *)
(* read-only opens and their closes, input files that are not on the three *)
(* paths) is invisible at this level.  A recorded run is accepted iff      *)
(* there EXISTS a behaviour of YSave - the same SStep - whose visible      *)
(* events are exactly the recorded ones (hidden steps may be interleaved   *)
(* anywhere, the exit cause is existential) and which ends in the observed *)
(* file system and exit status.  All YSave invariants hold in every state  *)
(* of such a behaviour (MC_YSave checked them in all reachable states).    *)
(***************************************************************************)
EXTENDS YSave, Json, IOUtils, TLC

Recs == JsonDeserialize(IOEnv.RECORDS_IN)

Hidden == {e \in Events :
             \/ e.op \in {"exists", "tmpfile", "open_r", "open_rb"}
             \/ (e.op = "copyfileobj" /\ e.role = "tmp")
             \/ (e.op = "close" /\ e.role \in {"tmp", "target"})
             \/ (e.op = "copy2" /\ e.res = "fail" /\ e.eff \in {"none", "full"})}   \* source open / source close failed

Ev4(x) == [op |-> x.op, role |-> x.role, res |-> x.res, eff |-> x.eff]

\* the finished states reachable by consuming tr[i..] with hidden steps interleaved
RECURSIVE Fin(_, _, _)
Fin(s, tr, i) ==
  LET viaHidden == UNION {LET n == SStep(s, h) IN IF n.pc = "REJECT" THEN {} ELSE Fin(n, tr, i) : h \in Hidden}
  IN IF i > Len(tr) THEN (IF s.pc = "done" THEN {s} ELSE {})
     ELSE IF tr[i].op = "exit"
     THEN viaHidden \cup UNION {LET n == SStep(s, [op |-> "exit", role |-> c, res |-> tr[i].res, eff |-> "-"])
                                IN IF n.pc = "REJECT" THEN {} ELSE Fin(n, tr, i + 1) : c \in ExitCauses}
     ELSE viaHidden \cup (LET e == Ev4(tr[i])
                              n == IF e \in Events THEN SStep(s, e) ELSE Reject(s)
                          IN IF n.pc = "REJECT" THEN {} ELSE Fin(n, tr, i + 1))

\* length of the longest prefix of tr that some behaviour can produce (diagnosis)
RECURSIVE Far(_, _, _)
Far(s, tr, i) ==
  IF i > Len(tr) THEN i - 1
  ELSE LET cands == {SStep(s, h) : h \in Hidden} \ {Reject(s)}
           vis == IF tr[i].op = "exit"
                  THEN {SStep(s, [op |-> "exit", role |-> c, res |-> tr[i].res, eff |-> "-"]) : c \in ExitCauses}
                  ELSE IF Ev4(tr[i]) \in Events THEN {SStep(s, Ev4(tr[i]))} ELSE {}
           a == {Far(n, tr, i) : n \in {x \in cands : x.pc # "REJECT"}}
           b == {Far(n, tr, i + 1) : n \in {x \in vis : x.pc # "REJECT"}}
           all == a \cup b \cup {i - 1}
       IN CHOOSE m \in all : \A k \in all : k <= m

Verdict(r) ==
  LET o == [tool |-> r.o.tool, bak |-> r.o.bak, stale |-> r.o.stale, outx |-> r.o.outx,
            json |-> r.o.json, changed |-> r.o.changed, link |-> r.o.link]
      fin == IF o \in AllOpts THEN Fin(SInit(o), r.tr, 1) ELSE {}
      why == IF fin = {} THEN "no-behaviour"
             ELSE IF \A f \in fin : f.code # r.code THEN "status"
             ELSE IF \A f \in fin : f.fs # r.fs THEN "final-fs"
             ELSE ""
  IN [id |-> r.id, ok |-> (why = ""), why |-> why,
      far |-> IF why = "no-behaviour" /\ o \in AllOpts THEN Far(SInit(o), r.tr, 1) ELSE Len(r.tr)]

ASSUME JsonSerialize(IOEnv.VERDICTS_OUT, [i \in 1..Len(Recs) |-> Verdict(Recs[i])])
=============================================================================
