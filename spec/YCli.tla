-------------------------------- MODULE YCli --------------------------------
(***************************************************************************)
(* C16: the six console entry points as phase machines                     *)
(*                                                                         *)
(*     Args -> Validate -> (Load | Work)* -> Output -> Exit(code) -> Done  *)
(*                                                                         *)
(* written as ONE pure step function Step(s, e) over a state record s and  *)
(* an event record e (pc = "REJECT" when e is not enabled in s).  The      *)
(* same function is the next-state relation of MC_YCli (model checking)    *)
(* and is folded along recorded runs of the real main() functions by       *)
(* Trace_YCli (conformance).                                               *)
(*                                                                         *)
(* `Work` consumes an abstract LIBRARY OUTCOME - what the library call     *)
(* made by the tool answered - and never looks inside it:                  *)
(*   get       matched(n >= 1) | empty (null document: nothing, no error)  *)
(*             | unmatched | yperr | eyamlerr                              *)
(*   set       gather: ok(n) | unmatched | yperr;  check: ok | mismatch;   *)
(*             apply: ok | unmatched | yperr | nodoc (root deletion)       *)
(*   merge     ok | mergeerr | yperr          (one per right-hand input)   *)
(*   diff      same | differs (n entries to print) | needindex            *)
(*   validate  (none: the per-source load results are the outcome)        *)
(*   paths     results(n) | badexpr           (one per document x search)  *)
(*                                                                         *)
(* `Codes(s)` is the exit-code table read off the main() functions:        *)
(*   argparse usage error                      2   (argparse itself)       *)
(*   validateargs() failure                    1   (all six tools)         *)
(*   yaml_get.py:159-211      load 1, YAMLPathException 1 (critical),      *)
(*                            EYAMLCommandException 2, otherwise 0         *)
(*   yaml_set.py:481-664      load 1, gather/apply YAMLPathException 1,    *)
(*                            --check mismatch 20, otherwise 0             *)
(*   yaml_merge.py:492-554    first input unreadable 4, later input 3,     *)
(*                            MergeException 13 | 31 | 41 and YAML Path    *)
(*                            error 14 | 32 | 42 by multi-document mode,   *)
(*                            otherwise 0                                  *)
(*   yaml_diff.py:204-320     load 1, document index 1, differences 1,     *)
(*                            otherwise 0                                  *)
(*   yaml_validate.py:104-161 any source that does not load 2, else 0      *)
(*   yaml_paths.py:876-944    load 3, unusable expression 1, else 0        *)
(*                                                                         *)
(* A document is delivered in one of three ways: as a named FILE, on       *)
(* standard input named by the "-" pseudo-file (DASH), or on standard      *)
(* input with no name at all (IMPLICIT: main() finds no "-" among its      *)
(* arguments, --nostdin is not given and sys.stdin.isatty() is false -     *)
(* yaml_get.py:112-115, yaml_set.py:237-240 and 531-538, yaml_merge.py     *)
(* 537-553, yaml_validate.py:153-159, yaml_paths.py:932-943; yaml-diff     *)
(* never infers it, yaml_diff.py:41-44).  `Offered` states those tests:    *)
(* standard input is read at most once; the implicit document is read      *)
(* after every named source, only while the run has not failed, and it is  *)
(* the last source; for yaml-get / yaml-set it is the only one; for        *)
(* yaml-merge it is the left-hand document when no file is named           *)
(* (StdinOnlyMerge; the design before that repair died there).             *)
(* The delivery appears in exactly one place: the field `via` of a load    *)
(* event.  LoadStep keeps of it only `sin` (has standard input been read,  *)
(* and how), which no other phase reads; so a run and every other way of   *)
(* delivering the same documents that the tool offers end in the same      *)
(* state up to `sin` (Core; checked in MC_YCli for all three deliveries).  *)
(*                                                                         *)
(* The merge / comparison POLICY of a run (yaml-merge: hashes, arrays, aoh, *)
(* sets, anchors; yaml-diff: arrays, aoh) is settled while the arguments   *)
(* are read: per option the value given on the command line, else the      *)
(* value of the --config file's [defaults] section, else the built-in      *)
(* default (mergerconfig.py:57-201, differconfig.py:37-85; [rules] apply   *)
(* to single nodes and are not modelled).  The args event carries what the *)
(* user wrote (cli, cfg: option -> value or ""); the state keeps the       *)
(* EFFECTIVE policy and the Work step accepts only a library call made     *)
(* under exactly that policy.                                              *)
(*                                                                         *)
(* State  s = [tool, o, pc, argsok, valid, nload, badat, stage, lib,       *)
(*             badexpr, lines, doc, code, sin, crash, policy]              *)
(*   o       the options the tables read:                                  *)
(*             must   set: --mustexist | --delete | --saveto               *)
(*             mode   merge: condense_all | merge_across | matrix_merge    *)
(*             noise  "default" | "quiet" | "verbose"                      *)
(*   badat   0, or the ordinal of the first input source that failed       *)
(*   stage   set: 0 = before gather, 1 = gathered                          *)
(*   lib     [k, n] the library outcome so far                             *)
(*   lines   result lines on stdout (get: lines, diff: entries,            *)
(*           validate: report lines, paths: lines)                         *)
(*   sin     "free" | "dash" | "implicit": how standard input was read     *)
(*   crash   the run died of an uncaught exception (deviating designs)     *)
(*   doc     "none" | "written": a result document was delivered (target   *)
(*           file rewritten, --output file created, or printed)            *)
(*   policy  option -> effective value (a function; <<>> where none)       *)
(* Events e = [ph |-> "args", ok, cli, cfg]   [ph |-> "validate", ok]      *)
(*            [ph |-> "load", via |-> "file" | "dash" | "implicit", ok]    *)
(*            [ph |-> "work", k, res, n, policy]                           *)
(*            [ph |-> "output", lines, doc]     [ph |-> "exit", code]      *)
(***************************************************************************)
EXTENDS Integers, Sequences, FiniteSets

CONSTANT StdinOnlyMerge   \* TRUE: yaml-merge without a YAML_FILE takes the waiting STDIN document as its left-hand
                          \* document (yaml_merge.py:544-549).  FALSE names the design before that repair: the document
                          \* was merged into an empty list and the run died (IndexError) - MC_YCli must refute it.
CONSTANT ConfigDefaultsHonoured   \* TRUE: an option that is absent from the command line leaves the [defaults] of the
                                  \* --config file in force.  FALSE names the design in which the argument parser gives
                                  \* the option a default of its own, so that it always counts as given and the file is
                                  \* ignored - MC_YCli must refute it.
CONSTANT Sticky     \* TRUE: the design of the code - a source that failed keeps the run failed (yaml_validate.py:148-151,
                    \* yaml_paths.py:927-930).  FALSE names the deviating design "the status of the last source wins",
                    \* which MC_YCli must refute.

Tools == {"get", "set", "merge", "diff", "validate", "paths"}
Modes == {"condense_all", "merge_across", "matrix_merge"}
Noises == {"default", "quiet", "verbose"}

Opts(must, mode, noise) == [must |-> must, mode |-> mode, noise |-> noise]
Lib(k, n) == [k |-> k, n |-> n]

Init0(tool, o) ==
  [tool |-> tool, o |-> o, pc |-> "Args", argsok |-> TRUE, valid |-> TRUE, nload |-> 0, badat |-> 0,
   stage |-> 0, lib |-> Lib("", 0), badexpr |-> FALSE, lines |-> 0, doc |-> "none", code |-> 0 - 1,
   sin |-> "free", crash |-> FALSE, policy |-> <<>>]

(* ---------------------------------------------------------------- policy *)
Builtin(tool, k) ==
  IF tool = "merge" THEN (CASE k = "hashes" -> "deep" [] k = "arrays" -> "all" [] k = "aoh" -> "all"
                            [] k = "sets" -> "unique" [] k = "anchors" -> "stop" [] OTHER -> "builtin")
  ELSE IF tool = "diff" THEN (IF k \in {"arrays", "aoh"} THEN "position" ELSE "builtin")
  ELSE "builtin"
\* command line > [defaults] of the configuration file > built-in default
Effective(tool, k, cli, cfg) ==
  IF cli # "" THEN cli ELSE IF cfg # "" /\ ConfigDefaultsHonoured THEN cfg ELSE Builtin(tool, k)
PolicyOf(tool, cli, cfg) == [k \in DOMAIN cli |-> Effective(tool, k, cli[k], cfg[k])]

Reject(s) == [s EXCEPT !.pc = "REJECT"]
ToOutput(s) == [s EXCEPT !.pc = "Output"]

(* ------------------------------------------------------------------ Load *)
(* The only reader of e.via.  Of the delivery it keeps `sin` alone.        *)
Deliveries == {"file", "dash", "implicit"}
\* may this source be read now, delivered this way?  (the isatty() / "-" / exit_state tests of the main() functions)
Offered(s, via) ==
  /\ via \in Deliveries
  /\ s.sin # "implicit"                                  \* the waiting document is the last source there is
  /\ via # "file" => s.sin = "free"                      \* standard input is read once
  /\ via = "implicit" =>
       /\ s.tool # "diff"                                \* yaml-diff does not infer it
       /\ s.tool \in {"validate", "paths"} => (s.badat = 0 /\ ~s.badexpr)     \* `exit_state == 0 and not consumed_stdin`
LoadStep(s, e) ==
  LET n == s.nload + 1
      forgets == ~Sticky /\ s.tool \in {"validate", "paths"}
      t == [s EXCEPT !.nload = n, !.sin = IF e.via = "file" THEN s.sin ELSE e.via,
                     !.badat = IF ~e.ok THEN (IF s.badat = 0 \/ forgets THEN n ELSE s.badat)
                               ELSE (IF forgets THEN 0 ELSE s.badat)]
  IN
  IF ~Offered(s, e.via) THEN Reject(s)
  ELSE IF s.tool = "merge" /\ e.via = "implicit" /\ n = 1 /\ ~StdinOnlyMerge THEN
    ToOutput([t EXCEPT !.crash = TRUE])                  \* merge_condense_all(lhs_docs = []) : lhs_docs[0] raises
  ELSE IF s.tool \in {"get", "set"} THEN             \* one document; unreadable => abend
    (IF s.nload # 0 THEN Reject(s) ELSE IF e.ok THEN [t EXCEPT !.pc = "Work"] ELSE ToOutput(t))
  ELSE IF s.tool = "diff" THEN                       \* both sides are read before either is judged
    (IF s.nload >= 2 THEN Reject(s)
     ELSE IF n < 2 THEN t
     ELSE IF t.badat # 0 THEN ToOutput(t) ELSE [t EXCEPT !.pc = "Work"])
  ELSE IF s.tool = "merge" THEN                      \* left-most input, then (input, merge)*
    (IF ~e.ok THEN ToOutput(t) ELSE IF n = 1 THEN t ELSE [t EXCEPT !.pc = "Work"])
  ELSE t                                             \* validate, paths: every source is visited

(* ------------------------------------------------------------------ Work *)
GetKinds == {"matched", "empty", "unmatched", "yperr", "eyamlerr"}
WorkStep(s, e) ==
  IF s.tool = "get" THEN
    (IF s.pc # "Work" \/ e.k \notin GetKinds \/ (e.k = "matched") # (e.n >= 1) THEN Reject(s)
     ELSE ToOutput([s EXCEPT !.lib = Lib(e.k, IF e.k = "matched" THEN e.n ELSE 0)]))
  ELSE IF s.tool = "set" THEN
    (IF s.pc # "Work" THEN Reject(s)
     ELSE IF s.stage = 0 THEN
       (IF e.k # "gather" \/ e.res \notin {"ok", "unmatched", "yperr"} THEN Reject(s)
        ELSE IF e.res = "ok" \/ ~s.o.must THEN [s EXCEPT !.stage = 1]        \* a failed optional gather is ignored
        ELSE ToOutput([s EXCEPT !.lib = Lib(e.res, 0)]))
     ELSE IF e.k = "check" THEN
       (IF e.res = "ok" THEN s
        ELSE IF e.res = "mismatch" THEN ToOutput([s EXCEPT !.lib = Lib("checkfail", 0)]) ELSE Reject(s))
     ELSE IF e.k = "apply" THEN
       (IF e.res = "ok" THEN ToOutput([s EXCEPT !.lib = Lib("changed", 0)])
        ELSE IF e.res \in {"unmatched", "yperr", "nodoc"} THEN ToOutput([s EXCEPT !.lib = Lib(e.res, 0)])
        ELSE Reject(s))
     ELSE Reject(s))
  ELSE IF s.tool = "merge" THEN
    \* one merge per (left-hand document, right-hand document) of the input just read: the first where the input was
    \* loaded (pc Work), further ones for multi-document streams.  A merge that fails keeps the run failed: merge_across
    \* stops there; condense_all and matrix_merge go on with the remaining documents (yaml_merge.py:385-470), and the
    \* status of the LAST failure is the exit status - a later success never clears it (Sticky).
    (IF e.k # "merge" \/ e.policy # s.policy \/ e.res \notin {"ok", "mergeerr", "yperr"} THEN Reject(s)     \* merged under the effective policy
     ELSE IF s.pc = "Work" \/ (s.pc = "Load" /\ s.nload >= 2 /\ s.lib.k = "merged") THEN
       (IF e.res = "ok" THEN [s EXCEPT !.pc = "Load", !.lib = Lib("merged", s.lib.n + 1)]
        ELSE ToOutput([s EXCEPT !.lib = Lib(e.res, s.lib.n)]))
     ELSE IF s.pc = "Output" /\ s.argsok /\ s.valid /\ s.badat = 0 /\ ~s.crash /\ s.lib.k \in {"mergeerr", "yperr"} /\ s.o.mode # "merge_across" THEN
       (IF e.res = "ok" THEN (IF Sticky THEN s ELSE [s EXCEPT !.pc = "Load", !.lib = Lib("merged", s.lib.n + 1)])
        ELSE [s EXCEPT !.lib = Lib(e.res, s.lib.n)])
     ELSE Reject(s))
  ELSE IF s.tool = "diff" THEN
    (IF s.pc # "Work" \/ e.k \notin {"same", "differs", "needindex"} \/ (e.k = "differs" /\ e.n < 0) THEN Reject(s)
     ELSE IF e.k # "needindex" /\ e.policy # s.policy THEN Reject(s)               \* compared under the effective policy
     ELSE ToOutput([s EXCEPT !.lib = Lib(e.k, IF e.k = "needindex" THEN 0 ELSE e.n)]))
  ELSE IF s.tool = "paths" THEN                      \* one search per loaded document and expression
    (IF s.pc # "Load" THEN Reject(s)
     ELSE IF e.k = "results" /\ e.n >= 0 THEN [s EXCEPT !.lib = Lib("results", s.lib.n + e.n)]
     ELSE IF e.k = "badexpr" THEN [s EXCEPT !.badexpr = TRUE]
     ELSE Reject(s))
  ELSE Reject(s)                                     \* validate has no library step besides loading

(* ---------------------------------------------------------------- tables *)
Loaded(s) == s.argsok /\ s.valid /\ s.badat = 0
Failed(s) == \/ ~Loaded(s) \/ s.crash
             \/ s.lib.k \in {"unmatched", "yperr", "eyamlerr", "nodoc", "checkfail", "mergeerr", "needindex"}
             \/ s.badexpr
MergeCode(mode, k) ==
  IF mode = "condense_all" THEN (IF k = "mergeerr" THEN 13 ELSE 14)
  ELSE IF mode = "merge_across" THEN (IF k = "mergeerr" THEN 31 ELSE 32)
  ELSE (IF k = "mergeerr" THEN 41 ELSE 42)

\* the set of exit codes main() can end with in state s (a singleton except where two failures compete)
Codes(s) ==
  IF s.crash THEN {1}                  \* an uncaught exception ends the interpreter with 1
  ELSE IF ~s.argsok THEN {2}
  ELSE IF ~s.valid THEN {1}
  ELSE IF s.tool = "get" THEN
    (IF s.badat # 0 THEN {1} ELSE IF s.lib.k = "eyamlerr" THEN {2}
     ELSE IF s.lib.k \in {"unmatched", "yperr"} THEN {1} ELSE {0})
  ELSE IF s.tool = "set" THEN
    (IF s.badat # 0 THEN {1} ELSE IF s.lib.k = "checkfail" THEN {20}
     ELSE IF s.lib.k \in {"unmatched", "yperr", "nodoc"} THEN {1} ELSE {0})
  ELSE IF s.tool = "merge" THEN
    (IF s.badat = 1 THEN {4} ELSE IF s.badat > 1 THEN {3}
     ELSE IF s.lib.k \in {"mergeerr", "yperr"} THEN {MergeCode(s.o.mode, s.lib.k)} ELSE {0})
  ELSE IF s.tool = "diff" THEN
    (IF s.badat # 0 \/ s.lib.k \in {"needindex", "differs"} THEN {1} ELSE {0})
  ELSE IF s.tool = "validate" THEN (IF s.badat # 0 THEN {2} ELSE {0})
  ELSE \* paths: the state of the last source that had a problem wins
    (IF s.badat # 0 /\ s.badexpr THEN {1, 3} ELSE IF s.badat # 0 THEN {3} ELSE IF s.badexpr THEN {1} ELSE {0})

\* what the tool puts out before it exits in state s
OutOK(s, e) ==
  /\ e.lines >= 0 /\ e.doc \in {"none", "written"}
  /\ (s.tool \in {"set", "merge"}) => (e.lines = 0 /\ e.doc = IF Failed(s) THEN "none" ELSE "written")
  /\ (s.tool \notin {"set", "merge"}) => e.doc = "none"
  /\ s.tool = "get" => e.lines = (IF Failed(s) THEN 0 ELSE s.lib.n)
  /\ s.tool = "diff" => e.lines = (IF ~Loaded(s) \/ s.lib.k = "needindex" \/ s.o.noise = "quiet" THEN 0 ELSE s.lib.n)
  /\ s.tool = "validate" =>
       IF ~(s.argsok /\ s.valid) \/ s.o.noise = "quiet" THEN e.lines = 0
       ELSE IF s.o.noise = "verbose" THEN TRUE              \* one line per document, and a source may hold none
       ELSE (e.lines = 0) <=> (s.badat = 0)
  /\ s.tool = "paths" => e.lines = s.lib.n

\* may the run go on to its output from here?
CanOutput(s) ==
  \/ s.pc = "Output"
  \/ s.pc = "Load" /\ s.nload >= 1 /\ s.tool \in {"validate", "paths"}
  \/ s.pc = "Load" /\ s.nload >= 1 /\ s.tool = "merge"       \* every right-hand input has been merged

(* ------------------------------------------------------------------ Step *)
Step(s, e) ==
  IF e.ph = "args" THEN
    (IF s.pc # "Args" THEN Reject(s)
     ELSE IF e.ok THEN [s EXCEPT !.pc = "Validate", !.policy = PolicyOf(s.tool, e.cli, e.cfg)]
     ELSE ToOutput([s EXCEPT !.argsok = FALSE]))
  ELSE IF e.ph = "validate" THEN
    (IF s.pc # "Validate" THEN Reject(s)
     ELSE IF e.ok THEN [s EXCEPT !.pc = "Load"] ELSE ToOutput([s EXCEPT !.valid = FALSE]))
  ELSE IF e.ph = "load" THEN (IF s.pc = "Load" THEN LoadStep(s, e) ELSE Reject(s))
  ELSE IF e.ph = "work" THEN WorkStep(s, e)
  ELSE IF e.ph = "output" THEN
    (IF CanOutput(s) /\ OutOK(s, e) THEN [s EXCEPT !.pc = "Exit", !.lines = e.lines, !.doc = e.doc] ELSE Reject(s))
  ELSE IF e.ph = "exit" THEN
    (IF s.pc = "Exit" /\ e.code \in Codes(s) THEN [s EXCEPT !.pc = "Done", !.code = e.code] ELSE Reject(s))
  ELSE Reject(s)

\* fold along a recorded run: [ok, at, s] - the index of the first rejected event and the last accepted state
RECURSIVE RunFrom(_, _, _)
RunFrom(s, tr, i) ==
  IF i > Len(tr) THEN [ok |-> TRUE, at |-> 0, s |-> s]
  ELSE LET n == Step(s, tr[i]) IN
       IF n.pc = "REJECT" THEN [ok |-> FALSE, at |-> i, s |-> s] ELSE RunFrom(n, tr, i + 1)
Run(tool, o, tr) == RunFrom(Init0(tool, o), tr, 1)

\* what a run is about, whatever the way its documents arrived
Core(s) == [s EXCEPT !.sin = "free"]
\* the same run with its documents delivered differently: vs[j] is the delivery of the j-th source
LoadsBefore(tr, i) == Len(SelectSeq(SubSeq(tr, 1, i), LAMBDA e : e.ph = "load"))
Redeliver(tr, vs) == [i \in 1..Len(tr) |-> IF tr[i].ph = "load" THEN [tr[i] EXCEPT !.via = vs[LoadsBefore(tr, i)]] ELSE tr[i]]
NLoads(tr) == LoadsBefore(tr, Len(tr))
AllFile(tr) == Redeliver(tr, [j \in 1..NLoads(tr) |-> "file"])

(* ------------------------------------------------- the statements of C16 *)
\* (each is evaluated on finished runs; MC_YCli checks them in every reachable Done state)
GetHonest(s)      == s.tool = "get" /\ s.lib.k # "empty" =>
                       /\ (s.code = 0) <=> (Loaded(s) /\ s.lib.k = "matched" /\ s.lib.n >= 1)
                       /\ s.code = 0 => s.lines = s.lib.n
                       /\ s.code # 0 => s.lines = 0
DiffHonest(s)     == s.tool = "diff" => ((s.code = 0) <=> (Loaded(s) /\ s.lib.k = "same"))
ValidateHonest(s) == s.tool = "validate" =>
                       /\ (s.code = 0) <=> (s.argsok /\ s.valid /\ s.badat = 0)
                       /\ (s.code = 2) <=> ((s.argsok /\ s.valid /\ s.badat # 0) \/ ~s.argsok)
                       /\ (s.code = 1) <=> (s.argsok /\ ~s.valid)
                       /\ s.code \in {0, 1, 2}
MergeHonest(s)    == s.tool = "merge" =>
                       /\ (s.code = 0) <=> (Loaded(s) /\ s.lib.k \in {"", "merged"})
                       /\ (s.code = 0) <=> (s.doc = "written")
                       /\ s.lib.k = "mergeerr" => s.code \in {13, 31, 41}
                       /\ s.lib.k = "yperr" => s.code \in {14, 32, 42}
                       /\ (s.argsok /\ s.valid /\ s.badat = 1) => s.code = 4
                       /\ (s.argsok /\ s.valid /\ s.badat > 1) => s.code = 3
SetHonest(s)      == s.tool = "set" =>
                       /\ (s.code = 0) <=> (Loaded(s) /\ s.lib.k = "changed")
                       /\ (s.code = 0) <=> (s.doc = "written")
                       /\ s.lib.k \in {"unmatched", "yperr", "nodoc"} => s.code = 1
                       /\ s.lib.k = "checkfail" => s.code = 20
PathsHonest(s)    == s.tool = "paths" =>
                       /\ (s.code = 0) <=> (Loaded(s) /\ ~s.badexpr)
                       /\ s.lines = s.lib.n
Honest(s) == GetHonest(s) /\ DiffHonest(s) /\ ValidateHonest(s) /\ MergeHonest(s) /\ SetHonest(s) /\ PathsHonest(s)

=============================================================================
