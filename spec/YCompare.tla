------------------------------ MODULE YCompare ------------------------------
(***************************************************************************)
(* Typed comparison of a search term (needle, always text) with a scalar   *)
(* value (haystack): yamlpath.common.searches.Searches.search_matches      *)
(* (searches.py:23-117) on top of Nodes.typed_value (nodes.py:626-652).    *)
(*                                                                         *)
(* Matches(op, needle, hay) follows property C12 / CHANGES 3.6.0, 3.5.0:   *)
(* equality numeric when both sides are numbers of the same kind, textual  *)
(* otherwise; booleans by case-insensitive spelling; ordering numeric for  *)
(* numeric values (false against a non-numeric term), lexicographic for    *)
(* text; prefix/suffix/substring on the value's text; regex searched.      *)
(* Silent(op, needle, hay) marks the cells the documentation leaves open   *)
(* (bool-as-int, None/odd look-alikes, non-canonical float text, regex     *)
(* outside the modelled fragment): there the definition mirrors the code   *)
(* and the harness treats the case as informational.                       *)
(***************************************************************************)
EXTENDS YData

Hay(t, v) == [t |-> t, v |-> v]

\* the typed value of a haystack scalar as Lit records (see YText.PyLit)
TypedHay(h) ==
  IF h.t = "null" THEN Lit("none", 0, 1, "")
  ELSE IF h.t = "bool" THEN Lit("bool", IF Lower(h.v) = "true" THEN 1 ELSE 0, 1, "")
  ELSE IF h.t = "int" THEN Lit("int", PyIntVal(h.v), 1, "")
  ELSE IF h.t = "float" THEN LET l == PyLit(h.v) IN IF l.ty = "float" THEN l ELSE Lit("odd", 0, 1, "")
  ELSE LET l == PyLit(h.v) IN IF l.ty = "raw" THEN Lit("text", 0, 1, h.v) ELSE IF l.ty = "str" THEN Lit("text", 0, 1, l.s) ELSE l
TypedNeedle(s) == LET l == PyLit(s) IN IF l.ty = "raw" THEN Lit("text", 0, 1, s) ELSE IF l.ty = "str" THEN Lit("text", 0, 1, l.s) ELSE l

\* str() of a typed value
LitStr(l) ==
  IF l.ty = "none" THEN "None"
  ELSE IF l.ty = "bool" THEN (IF l.n = 1 THEN "True" ELSE "False")
  ELSE IF l.ty = "int" THEN IntStr(l.n)
  ELSE IF l.ty = "float" THEN FloatStr(l.n, l.d)
  ELSE l.s

IsNum(l) == l.ty \in {"int", "float", "bool"}      \* Python: bool is an int
NumLT(a, b) == a.n * b.d < b.n * a.d
NumEQ(a, b) == a.n * b.d = b.n * a.d

(***************************************************************************)
(* A small regular-expression matcher (re.search semantics) for the        *)
(* fragment: literals, ".", postfix "*" on a single atom, "^", "$",        *)
(* backslash-escaped literals.  RegexOK(re) says whether re lies in it.    *)
(***************************************************************************)
ReMeta == {"+", "?", "[", "]", "(", ")", "|", "{", "}"}
RECURSIVE RegexOKFrom(_, _)
RegexOKFrom(re, i) ==
  IF i > Len(re) THEN TRUE
  ELSE LET c == Ch(re, i) IN
    IF c = "\\" THEN i < Len(re) /\ Ch(re, i + 1) \in {".", "*", "^", "$", "\\", "/", "+", "?", "[", "]", "(", ")", "|", "{", "}"} /\ RegexOKFrom(re, i + 2)
    ELSE IF c \in ReMeta THEN FALSE
    ELSE IF c = "*" THEN i > 1 /\ Ch(re, i - 1) \notin {"*", "^"} /\ RegexOKFrom(re, i + 1)
    ELSE IF c = "^" THEN i = 1 /\ RegexOKFrom(re, i + 1)
    ELSE IF c = "$" THEN i = Len(re)
    ELSE RegexOKFrom(re, i + 1)
RegexOK(re) == RegexOKFrom(re, 1)

\* atom at the head of re: [len, any, ch]
AtomAt(re) == IF Ch(re, 1) = "\\" THEN [len |-> 2, any |-> FALSE, ch |-> Ch(re, 2)]
              ELSE [len |-> 1, any |-> Ch(re, 1) = ".", ch |-> Ch(re, 1)]
AtomMatches(a, c) == a.any \/ a.ch = c

RECURSIVE MatchHere(_, _)
RECURSIVE MatchStar(_, _, _)
MatchHere(re, txt) ==
  IF re = "" THEN TRUE
  ELSE IF re = "$" THEN txt = ""
  ELSE LET a == AtomAt(re) rest == SubSeq(re, a.len + 1, Len(re)) IN
    IF rest # "" /\ Ch(rest, 1) = "*" THEN MatchStar(a, Tail(rest), txt)
    ELSE txt # "" /\ AtomMatches(a, Ch(txt, 1)) /\ MatchHere(rest, Tail(txt))
MatchStar(a, re, txt) ==
  \/ MatchHere(re, txt)
  \/ (txt # "" /\ AtomMatches(a, Ch(txt, 1)) /\ MatchStar(a, re, Tail(txt)))
RegexSearch(re, txt) ==
  IF re # "" /\ Ch(re, 1) = "^" THEN MatchHere(Tail(re), txt)
  ELSE \E i \in 1..(Len(txt) + 1) : MatchHere(re, SubSeq(txt, i, Len(txt)))

(***************************************************************************)
(* The comparison ladder                                                   *)
(***************************************************************************)
Matches(op, needle, hay) ==
  LET th == TypedHay(hay)  tn == TypedNeedle(needle)  hs == LitStr(th) IN
  IF op = "=" THEN
     (IF th.ty = "bool" /\ tn.ty = "bool" THEN th.n = tn.n
      ELSE IF th.ty \in {"int", "bool"} /\ tn.ty = "int" THEN th.n = tn.n
      ELSE IF th.ty = "float" /\ tn.ty = "float" THEN NumEQ(th, tn)
      ELSE hs = needle)
  ELSE IF op = "^" THEN StartsWith(hs, needle)
  ELSE IF op = "$" THEN EndsWith(hs, needle)
  ELSE IF op = "%" THEN Contains(hs, needle)
  ELSE IF op \in {">", "<", ">=", "<="} THEN
     (IF IsNum(th) THEN
        (IF IsNum(tn) THEN
           (IF op = ">" THEN NumLT(tn, th) ELSE IF op = "<" THEN NumLT(th, tn)
            ELSE IF op = ">=" THEN ~NumLT(th, tn) ELSE ~NumLT(tn, th))
         ELSE FALSE)
      ELSE (IF op = ">" THEN LexLT(needle, hs) ELSE IF op = "<" THEN LexLT(hs, needle)
            ELSE IF op = ">=" THEN ~LexLT(hs, needle) ELSE ~LexLT(needle, hs)))
  ELSE IF RegexOK(needle) THEN RegexSearch(needle, hs) ELSE FALSE   \* outside the fragment: Silent

\* cells the documentation leaves open (compared, counted, never a verdict)
Silent(op, needle, hay) ==
  LET th == TypedHay(hay)  tn == TypedNeedle(needle) IN
  \/ th.ty = "odd" \/ tn.ty = "odd"
  \/ tn.ty = "none"                                        \* the needle "None"
  \* a null value: its text is Python's "None"; only terms that overlap that text (or ordering / regex) are open
  \/ (th.ty = "none" /\ (op \in {">", "<", ">=", "<=", "=~"} \/ Contains("None", needle) \/ needle = ""))
  \/ (th.ty = "bool") # (tn.ty = "bool") /\ (IsNum(th) /\ IsNum(tn))   \* bool against a number
  \/ (th.ty = "bool" /\ op \in {">", "<", ">=", "<="})    \* ordering of booleans
  \/ (tn.ty = "bool" /\ op \in {">", "<", ">=", "<="})
  \/ (hay.t = "float" /\ FloatStr(th.n, th.d) # hay.v)     \* the value's text is not its canonical form
  \/ (hay.t = "str" /\ th.ty \notin {"text"} /\ LitStr(th) # hay.v)   \* numeric string whose str() differs ("01", "1.50", "+1", "TRUE")
  \/ (hay.t = "str" /\ PyLit(hay.v).ty = "str")           \* string that is itself a quoted literal
  \/ (op = "=~" /\ ~RegexOK(needle))
  \/ (tn.ty = "text" /\ PyLit(needle).ty = "str")          \* quoted-literal needle
=============================================================================
