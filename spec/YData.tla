------------------------------- MODULE YData -------------------------------
(***************************************************************************)
(* Abstract YAML documents for the yamlpath specification family.          *)
(*                                                                         *)
(* A document is a table (sequence) of node records numbered in PRE-ORDER, *)
(* so node identity is the index and document order is numeric order.      *)
(*   k      "map" | "seq" | "set" | "s" (scalar)                           *)
(*   t, v   scalar type ("null","bool","int","float","str") and source     *)
(*          text; "" for containers                                        *)
(*   kids   child node ids in order (map values, seq elements, set members)*)
(*   keys   for a map: the key scalars [t, v] aligned with kids            *)
(*   par    parent id (0 for the root, which is node 1)                    *)
(*   anchor anchor name carried by the node ("" = none)                    *)
(*   alias  0, or the id of the anchored node this position aliases (the   *)
(*          same object at a second position; t/v are copies)              *)
(***************************************************************************)
EXTENDS YText

Node(k, t, v, par) == [k |-> k, t |-> t, v |-> v, kids |-> <<>>, keys |-> <<>>, par |-> par, anchor |-> "", alias |-> 0]
\* Optional field of a map node: kanch, aligned with keys - the Anchor name a key is an Alias of ("" = an ordinary key).
\* The key's [t, v] then always equals the anchored scalar's (kept so by YEdit.SetScalars); only tables that hold such
\* keys carry the field.
KA(n) == IF "kanch" \in DOMAIN n THEN n.kanch ELSE <<>>
KAOf(n, j) == IF j <= Len(KA(n)) THEN KA(n)[j] ELSE ""
KeyRec(t, v) == [t |-> t, v |-> v]

IsCont(n) == n.k \in {"map", "seq", "set"}
Root == 1

\* position of child c inside its parent (1-based)
RECURSIVE PosIn(_, _, _)
PosIn(kids, c, i) == IF i > Len(kids) THEN 0 ELSE IF kids[i] = c THEN i ELSE PosIn(kids, c, i + 1)
ChildPos(d, c) == PosIn(d[d[c].par].kids, c, 1)

\* all nodes at or below x, in pre-order (ids are pre-order numbers, so this is a range scan)
RECURSIVE IsUnder(_, _, _)
IsUnder(d, y, x) == IF y = x THEN TRUE ELSE IF y < x \/ d[y].par = 0 THEN FALSE ELSE IsUnder(d, d[y].par, x)
SubtreeIds(d, x) == {y \in x..Len(d) : IsUnder(d, y, x)}

\* ordered sequence of a set of ids
RECURSIVE SortIds(_)
SortIds(S) == IF S = {} THEN <<>> ELSE LET m == CHOOSE a \in S : \A b \in S : a <= b IN <<m>> \o SortIds(S \ {m})

RECURSIVE Flatten(_)
Flatten(ss) == IF Len(ss) = 0 THEN <<>> ELSE ss[1] \o Flatten(Tail(ss))

\* scalar text the way Python's str() shows the loaded value (used by comparisons)
RECURSIVE StripZeros(_)
StripZeros(s) == IF Len(s) > 1 /\ Ch(s, Len(s)) = "0" THEN StripZeros(SubSeq(s, 1, Len(s) - 1)) ELSE s
RECURSIVE PadLeft(_, _)
PadLeft(s, n) == IF Len(s) >= n THEN s ELSE PadLeft("0" \o s, n)
RECURSIVE Log10(_)
Log10(dd) == IF dd <= 1 THEN 0 ELSE 1 + Log10(dd \div 10)
FloatStr(n, dd) ==   \* repr() of the decimal n/dd, dd a power of ten
  LET neg == n < 0  a == IF neg THEN 0 - n ELSE n
      ip == a \div dd  fp == a % dd
      fs == IF dd = 1 THEN "0" ELSE StripZeros(PadLeft(NatStr(fp), Log10(dd)))
  IN (IF neg THEN "-" ELSE "") \o NatStr(ip) \o "." \o (IF fs = "" THEN "0" ELSE fs)
=============================================================================
