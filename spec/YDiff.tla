------------------------------- MODULE YDiff -------------------------------
(***************************************************************************)
(* C06: the document differ (yamlpath/differ/differ.py) over YData node    *)
(* tables, and the predicates of the property statement.                   *)
(*                                                                         *)
(*   Diff(l, r, cfg)      mirrors Differ.compare_to: _diff_between and the *)
(*                        hash / list / AoH / set comparers, the two list  *)
(*                        synchronisers, one operator per code branch.     *)
(*                        cfg = [arrays, aoh, rules, keys, fixed]: the     *)
(*                        global modes, the per-path [rules] PATH = mode   *)
(*                        and [keys] PATH = identity key of an INI         *)
(*                        configuration (sequences of [p, v], p a path     *)
(*                        whose steps may be the wildcard); fixed is the   *)
(*                        set of                                           *)
(*                        the deviations named below that are repaired:    *)
(*                        {} is the code as pinned (Mirrored), AllFixes    *)
(*                        the design the theorems hold for (Fixed).        *)
(*                        Result [es, crash, dom]: the entries             *)
(*                        [a, p, li, ri] in the order the code appends     *)
(*                        them (a = action, p = path as key/index steps,   *)
(*                        li / ri = position of the left / right value, 0  *)
(*                        = None), whether the code raises, and whether    *)
(*                        the pair lies in the stated domain of key/deep.  *)
(*   Truthful, Covers, Accounted, NoChange, Eq / Expect                    *)
(*                        the statement's predicates over VALUED entries   *)
(*                        [a, p, lv, rv] (lv / rv node tables), the form   *)
(*                        in which a real report is recorded; Valued()     *)
(*                        turns model entries into that form, so the same  *)
(*                        definitions judge model reports (MC_Diff) and    *)
(*                        recorded reports (Trace_Diff).                   *)
(*                                                                         *)
(* Deviations of the pinned code from the statement (each a separate IF on *)
(* Fx(c, letter), citing the source):                                      *)
(*   A null-seq-element     zip_longest / `lele is None` read a null       *)
(*                          element as "no element" (differ.py:398-412,    *)
(*                          326-356)                                       *)
(*   B empty-rhs-seq        _diff_lists does nothing for an empty right    *)
(*                          list (differ.py:549)                           *)
(*   C void-in-kind-clash   _purge_document / _add_everything emit nothing *)
(*                          for null and for an empty container            *)
(*                          (differ.py:88-117, 129-158)                    *)
(*   D aoh-whole-record     AoH position mode reports no SAME for equal    *)
(*                          records and uses OrderedDict.__ne__, which is  *)
(*                          key-order sensitive (differ.py:419)            *)
(*   E record-lacks-identity-key  a record without the identity key never  *)
(*                          matches, not even itself (differ.py:795-803)   *)
(*   F config-by-value      DifferConfig._get_config_for / aoh_diff_key    *)
(*                          compare the configured and the queried node,   *)
(*                          and their parents, with == : a rule or key for *)
(*                          one list also governs an equal list under an   *)
(*                          equal parent (differconfig.py:94-104, 236-243) *)
(*   G zip-parentref        the zip loop hands position + 1 as parentref,  *)
(*                          so a rule for a list held in a list is looked  *)
(*                          up under its neighbour's position              *)
(*                          (differ.py:399-421)                            *)
(*   H rule-dpos            [rules] PATH = dpos reaches array_diff_mode,   *)
(*                          which knows no dpos and raises NameError       *)
(*                          (differ.py:393, differconfig.py:47-51)         *)
(***************************************************************************)
EXTENDS YData

(* ---- paths: sequences of steps ---- *)
DKey(s) == [i |-> -1, s |-> s]
DIdx(n) == [i |-> n, s |-> ""]
BadStep == [i |-> -2, s |-> "?"]          \* the unparsable "[None]" the code builds for a missing index
IsKeyStep(st) == st.i = -1

StepOf(d, c) == LET p == d[c].par pos == ChildPos(d, c) IN
  IF d[p].k = "map" THEN DKey(d[p].keys[pos].v)
  ELSE IF d[p].k = "seq" THEN DIdx(pos - 1)
  ELSE DKey(d[c].v)
RECURSIVE PathOf(_, _)
PathOf(d, x) == IF d[x].par = 0 THEN <<>> ELSE Append(PathOf(d, d[x].par), StepOf(d, x))

FirstIn(S) == CHOOSE a \in S : \A b \in S : a <= b
\* A key step carries the TEXT of a hash key or set member, as the code builds it (escape_path_section of
\* str(key)): the keys 0 and "0" of one hash give the same step, so a step designates a SET of positions.
ChildrenAt(d, i, st) ==
  LET n == d[i] IN
  IF n.k = "map" /\ st.i = -1 THEN {n.kids[j] : j \in {x \in 1..Len(n.keys) : n.keys[x].v = st.s}}
  ELSE IF n.k = "seq" /\ st.i >= 0 THEN (IF st.i < Len(n.kids) THEN {n.kids[st.i + 1]} ELSE {})
  ELSE IF n.k = "set" /\ st.i = -1 THEN {n.kids[j] : j \in {x \in 1..Len(n.kids) : d[n.kids[x]].v = st.s}}
  ELSE {}
RECURSIVE ResolveFrom(_, _, _, _)
ResolveFrom(d, S, p, k) == IF k > Len(p) \/ S = {} THEN S ELSE ResolveFrom(d, UNION {ChildrenAt(d, i, p[k]) : i \in S}, p, k + 1)
Resolve(d, p) == ResolveFrom(d, {Root}, p, 1)       \* the positions the path designates ({} when there is none)
\* configuration paths: the steps above plus the wildcard (all children of a hash)
WildStep == [i |-> -3, s |-> "*"]
RECURSIVE MatchFrom(_, _, _, _)
MatchFrom(d, S, p, k) ==
  IF k > Len(p) \/ S = {} THEN S
  ELSE MatchFrom(d, UNION {IF p[k].i = -3 THEN {d[i].kids[x] : x \in 1..Len(d[i].kids)} ELSE ChildrenAt(d, i, p[k]) : i \in S}, p, k + 1)
MatchIds(d, p) == SortIds(MatchFrom(d, {Root}, p, 1))        \* Processor.get_nodes order = document order
\* only a step that suits every node it meets is modelled: a key over hashes (or sets), a position over lists, the
\* wildcard over hashes.  (yamlpath searches the records of a list for a key, and gives the whole path up when one
\* branch of a wildcard raises: no verdict for such paths)
RECURSIVE MatchSureFrom(_, _, _, _)
MatchSureFrom(d, S, p, k) ==
  IF k > Len(p) \/ S = {} THEN TRUE
  ELSE /\ \A i \in S : IF p[k].i >= 0 THEN d[i].k = "seq" ELSE IF p[k].i = -3 THEN d[i].k = "map" ELSE d[i].k \in {"map", "set"}
       /\ MatchSureFrom(d, UNION {IF p[k].i = -3 THEN {d[i].kids[x] : x \in 1..Len(d[i].kids)} ELSE ChildrenAt(d, i, p[k]) : i \in S}, p, k + 1)
MatchSure(d, p) == MatchSureFrom(d, {Root}, p, 1)
\* the nodes a configuration section registers: [id, v] in the order of the section, then of the matches
Registered(d, sect) == Flatten([k \in 1..Len(sect) |-> LET ids == MatchIds(d, sect[k].p) IN [x \in 1..Len(ids) |-> [id |-> ids[x], v |-> sect[k].v]]])
RegFor(reg, j) == LET hits == {x \in 1..Len(reg) : reg[x].id = j} IN IF hits = {} THEN "" ELSE reg[FirstIn(hits)].v
RegValues(reg, j) == {reg[x].v : x \in {y \in 1..Len(reg) : reg[y].id = j}}
IsPrefixOf(p, q) == Len(p) <= Len(q) /\ \A k \in 1..Len(p) : p[k] = q[k]

(* ---- sub-tables (ids are pre-order numbers, so a subtree is a contiguous range) ---- *)
RECURSIVE SumUpTo(_, _)
SumUpTo(sizes, n) == IF n = 0 THEN 0 ELSE sizes[n] + SumUpTo(sizes, n - 1)
RECURSIVE SizeAt(_, _)
SizeAt(d, i) == 1 + SumUpTo([j \in 1..Len(d[i].kids) |-> SizeAt(d, d[i].kids[j])], Len(d[i].kids))
SubTab(d, i) == LET off == i - 1 IN
  [k \in 1..SizeAt(d, i) |-> LET n == d[off + k] IN
     [k |-> n.k, t |-> n.t, v |-> n.v, kids |-> [j \in 1..Len(n.kids) |-> n.kids[j] - off], keys |-> n.keys,
      par |-> IF k = 1 THEN 0 ELSE n.par - off, anchor |-> "", alias |-> 0]]
NullTab == <<Node("s", "null", "", 0)>>
\* equal as plain data tables: kinds, scalar types and texts, keys and shape (anchors are not data)
SameTab(a, b) == Len(a) = Len(b) /\ \A i \in 1..Len(a) :
                   a[i].k = b[i].k /\ a[i].t = b[i].t /\ a[i].v = b[i].v /\ a[i].kids = b[i].kids /\ a[i].keys = b[i].keys
IsNullAt(d, i) == d[i].k = "s" /\ d[i].t = "null"
LeafIds(d) == {x \in 1..Len(d) : d[x].k = "s"}
\* An empty document - the loader's None at the root, which is also what a lone `null` / `~` loads to - holds no
\* data: nothing to delete from it, nothing to add for it (tests/test_commands_yaml_diff.py
\* test_simple_diff_*_from_nothing_via_stdin / *_into_nothing_via_stdin).  A null anywhere below the root is a value.
EmptyDoc(d) == Len(d) = 1 /\ IsNullAt(d, 1)
DocLeafIds(d) == IF EmptyDoc(d) THEN {} ELSE LeafIds(d)

(* ---- data equality ----
   Scalars compare the way Python compares the loaded values (True == 1; a string equals only a string).
   Mappings and sets are unordered.  Sequences are compared in order or as bags according to m =
   [arr, aoh, mixed]: whether a list without hashes / of hashes only / of both is order-insensitive. *)
NumVal(s) == IF s.t = "bool" THEN (IF s.v \in {"true", "True", "TRUE"} THEN 1 ELSE 0) ELSE PyIntVal(s.v)
ScalarEq(a, b) == IF a.t \in {"bool", "int"} /\ b.t \in {"bool", "int"} THEN NumVal(a) = NumVal(b) ELSE a.t = b.t /\ a.v = b.v
HasKeyRec(d, i, kr) == d[i].k = "map" /\ \E x \in 1..Len(d[i].keys) : ScalarEq(d[i].keys[x], kr)
ValAtRec(d, i, kr) == d[i].kids[FirstIn({x \in 1..Len(d[i].keys) : ScalarEq(d[i].keys[x], kr)})]
SeqKind(d, i) == LET ks == d[i].kids nm == {j \in 1..Len(ks) : d[ks[j]].k = "map"} IN
  IF nm = {} THEN "arr" ELSE IF Cardinality(nm) = Len(ks) THEN "aoh" ELSE "mixed"
PairKind(d1, i, d2, j) == LET a == SeqKind(d1, i) b == SeqKind(d2, j) IN
  IF Len(d1[i].kids) = 0 THEN b ELSE IF Len(d2[j].kids) = 0 THEN a ELSE IF a = b THEN a ELSE "mixed"
\* m = [arr, aoh, mixed, arrays, aohmode, rr]: with rr (rules registered on the RIGHT document, by position) the
\* mode of a list is its own rule, else the global one
SyncedMode(mode) == mode \in {"value", "key", "deep"}
Unordered(m, kind, j) ==
  LET ru == RegFor(m.rr, j) IN
  IF ru = "" THEN (IF kind = "arr" THEN m.arr ELSE IF kind = "aoh" THEN m.aoh ELSE m.mixed)
  ELSE IF kind = "mixed" THEN m.mixed ELSE SyncedMode(ru)
DropAt(s, k) == SubSeq(s, 1, k - 1) \o SubSeq(s, k + 1, Len(s))

RECURSIVE Eq(_, _, _, _, _), BagMatch(_, _, _, _, _)
Eq(m, d1, i, d2, j) ==
  LET a == d1[i] b == d2[j] IN
  IF a.k # b.k THEN FALSE
  ELSE IF a.k = "s" THEN ScalarEq(a, b)
  ELSE IF Len(a.kids) # Len(b.kids) THEN FALSE
  ELSE IF a.k = "map" THEN \A x \in 1..Len(a.kids) : \E y \in 1..Len(b.kids) : ScalarEq(a.keys[x], b.keys[y]) /\ Eq(m, d1, a.kids[x], d2, b.kids[y])
  ELSE IF a.k = "set" THEN \A x \in 1..Len(a.kids) : \E y \in 1..Len(b.kids) : ScalarEq(d1[a.kids[x]], d2[b.kids[y]])
  ELSE IF Unordered(m, PairKind(d1, i, d2, j), j) THEN BagMatch(m, d1, a.kids, d2, b.kids)
  ELSE \A x \in 1..Len(a.kids) : Eq(m, d1, a.kids[x], d2, b.kids[x])
\* Eq is an equivalence for every m, so greedy matching decides bag equality
BagMatch(m, d1, ks1, d2, ks2) ==
  IF Len(ks1) = 0 THEN Len(ks2) = 0
  ELSE LET hit == {y \in 1..Len(ks2) : Eq(m, d1, ks1[1], d2, ks2[y])} IN
       IF hit = {} THEN FALSE ELSE BagMatch(m, d1, Tail(ks1), d2, DropAt(ks2, FirstIn(hit)))

Ordered == [arr |-> FALSE, aoh |-> FALSE, mixed |-> FALSE, rr |-> <<>>]
AnyOrder == [arr |-> TRUE, aoh |-> TRUE, mixed |-> TRUE, rr |-> <<>>]
SyncAoH(cfg) == cfg.aoh \in {"value", "key", "deep"}
ModeOrder(cfg, d) == [arr |-> cfg.arrays = "value", aoh |-> SyncAoH(cfg), mixed |-> FALSE, rr |-> Registered(d, cfg.rules)]
DataEq(l, r) == Eq(Ordered, l, Root, r, Root)
DataEqUnordered(l, r) == Eq(AnyOrder, l, Root, r, Root)
DataEqMode(cfg, l, r) == Eq(ModeOrder(cfg, r), l, Root, r, Root)
Positional(cfg) == /\ cfg.arrays = "position" /\ cfg.aoh \in {"position", "dpos"}
                   /\ \A k \in 1..Len(cfg.rules) : cfg.rules[k].v \in {"position", "dpos"}

\* Where the statement's "sequence order disregarded in the synchronised modes" has one reading only:
\* no list mixing hashes with other members; no Array-of-Hashes left to `--aoh position|dpos` while
\* `--arrays value` is in force; nothing nested in a synchronised list is itself a list; under key/deep
\* every record of a list carries the same first key with pairwise different scalar values.
HasSeqBelow(d, i) == \E y \in SubtreeIds(d, i) \ {i} : d[y].k = "seq"
\* every record carries the identity key kr (a key record), with pairwise different scalar values
IdKeysFine(d, i, kr) == LET ks == d[i].kids IN
  /\ \A x \in 1..Len(ks) : HasKeyRec(d, ks[x], kr) /\ d[ValAtRec(d, ks[x], kr)].k = "s"
  /\ \A x, y \in 1..Len(ks) : x # y => ~ScalarEq(d[ValAtRec(d, ks[x], kr)], d[ValAtRec(d, ks[y], kr)])
ClearDoc(cfg, d) ==
  LET rr == Registered(d, cfg.rules) kr == Registered(d, cfg.keys) IN
  /\ \A k \in 1..Len(cfg.rules) : MatchSure(d, cfg.rules[k].p)
  /\ \A k \in 1..Len(cfg.keys) : MatchSure(d, cfg.keys[k].p)
  /\ \A i \in 1..Len(d) : d[i].k = "seq" =>
      LET kd == SeqKind(d, i) ru == RegFor(rr, i)
          aohmode == IF ru = "" THEN cfg.aoh ELSE ru
          arrmode == IF ru \in {"position", "value"} THEN ru ELSE cfg.arrays
          synced == IF kd = "aoh" THEN SyncedMode(aohmode) ELSE arrmode = "value"
      IN /\ kd # "mixed"
         /\ Cardinality(RegValues(rr, i)) <= 1 /\ Cardinality(RegValues(kr, i)) <= 1
         /\ kd = "arr" => ru \in {"", "position", "value"}
         /\ (kd = "aoh" /\ arrmode = "value") => SyncedMode(aohmode)
         /\ synced => ~HasSeqBelow(d, i)
         /\ (kd = "aoh" /\ aohmode \in {"key", "deep"}) =>
              (IF RegFor(kr, i) # "" THEN IdKeysFine(d, i, [t |-> "str", v |-> RegFor(kr, i)])
               ELSE Len(d[d[i].kids[1]].keys) > 0 /\ IdKeysFine(d, i, d[d[i].kids[1]].keys[1]))
Clear(cfg, l, r) == ClearDoc(cfg, l) /\ ClearDoc(cfg, r)
\* what the statement demands of NoChange: "same" | "diff" | "info" (no single reading: never a verdict)
Expect(cfg, l, r) ==
  IF DataEq(l, r) THEN "same" ELSE IF ~DataEqUnordered(l, r) THEN "diff"
  ELSE IF ~Clear(cfg, l, r) THEN "info" ELSE IF DataEqMode(cfg, l, r) THEN "same" ELSE "diff"

(* ---- the statement's predicates over valued entries [a, p, lv, rv] ---- *)
LeftKind(e) == e.a \in {"SAME", "CHANGE", "DELETE"}
RightKind(e) == e.a \in {"SAME", "CHANGE", "ADD"}
Holds(d, p, val) == \E i \in Resolve(d, p) : SameTab(SubTab(d, i), val)
Truthful(e, l, r) ==
  /\ LeftKind(e) => Holds(l, e.p, e.lv)
  /\ RightKind(e) => Holds(r, e.p, e.rv)
  /\ e.a = "SAME" => Eq(Ordered, e.lv, Root, e.rv, Root)
  /\ e.a = "CHANGE" => ~Eq(Ordered, e.lv, Root, e.rv, Root)
AllTruthful(rep, l, r) == \A k \in 1..Len(rep) : Truthful(rep[k], l, r)
CoversDoc(rep, d) == \A x \in DocLeafIds(d) : LET q == PathOf(d, x) IN \E k \in 1..Len(rep) : IsPrefixOf(rep[k].p, q)
Covers(rep, l, r) == CoversDoc(rep, l) /\ CoversDoc(rep, r)

\* an element = a leaf (scalar) together with the hash keys on the way to it; list positions are left out,
\* because the synchronised modes report a pair under the position of one side only
KeysOnly(p) == LET ks == SelectSeq(p, IsKeyStep) IN [k \in 1..Len(ks) |-> ks[k].s]
LeafSigsUnder(prefix, d) == LET ids == SortIds(LeafIds(d)) IN
  [k \in 1..Len(ids) |-> [p |-> prefix \o KeysOnly(PathOf(d, ids[k])), t |-> d[ids[k]].t, v |-> d[ids[k]].v]]
SeqRange(s) == {s[k] : k \in 1..Len(s)}
Count(s, x) == Cardinality({k \in 1..Len(s) : s[k] = x})
BagEq(s1, s2) == Len(s1) = Len(s2) /\ \A x \in SeqRange(s1) : Count(s1, x) = Count(s2, x)
LeftAcc(rep) == Flatten([k \in 1..Len(rep) |-> IF LeftKind(rep[k]) THEN LeafSigsUnder(KeysOnly(rep[k].p), rep[k].lv) ELSE <<>>])
RightAcc(rep) == Flatten([k \in 1..Len(rep) |-> IF RightKind(rep[k]) THEN LeafSigsUnder(KeysOnly(rep[k].p), rep[k].rv) ELSE <<>>])
\* an empty document's null is either spoken of once (null against a scalar: SAME / CHANGE at the root) or not at all
AccountedLeft(rep, l) == BagEq(LeftAcc(rep), LeafSigsUnder(<<>>, l)) \/ (EmptyDoc(l) /\ LeftAcc(rep) = <<>>)
AccountedRight(rep, r) == BagEq(RightAcc(rep), LeafSigsUnder(<<>>, r)) \/ (EmptyDoc(r) /\ RightAcc(rep) = <<>>)
Accounted(rep, l, r) == AccountedLeft(rep, l) /\ AccountedRight(rep, r)
NoChange(rep) == \A k \in 1..Len(rep) : rep[k].a = "SAME"

(* ======================================================================= *)
(* The differ.  c = [l, r, cfg]; acc = [es, crash, dom] threads self._diffs *)
(* ======================================================================= *)
AllFixes == {"A", "B", "C", "D", "E", "F", "G", "H"}
Fx(c, dev) == dev \in c.cfg.fixed
Ent(a, p, li, ri) == [a |-> a, p |-> p, li |-> li, ri |-> ri]
Emit1(acc, e) == [acc EXCEPT !.es = Append(@, e)]
Max2(a, b) == IF a > b THEN a ELSE b
KidStep(d, i, x) == StepOf(d, d[i].kids[x])

\* _purge_document (differ.py:78-117) / _add_everything (119-158): one level only
Purge(c, acc, p, i) == LET n == c.l[i] IN
  IF n.k = "s" THEN (IF n.t = "null" /\ ~Fx(c, "C") THEN acc ELSE Emit1(acc, Ent("DELETE", p, i, 0)))
  ELSE IF Len(n.kids) = 0 /\ Fx(c, "C") THEN Emit1(acc, Ent("DELETE", p, i, 0))
  ELSE [acc EXCEPT !.es = @ \o [x \in 1..Len(n.kids) |-> Ent("DELETE", Append(p, KidStep(c.l, i, x)), n.kids[x], 0)]]
AddAll(c, acc, p, j) == LET n == c.r[j] IN
  IF n.k = "s" THEN (IF n.t = "null" /\ ~Fx(c, "C") THEN acc ELSE Emit1(acc, Ent("ADD", p, 0, j)))
  ELSE IF Len(n.kids) = 0 /\ Fx(c, "C") THEN Emit1(acc, Ent("ADD", p, 0, j))
  ELSE [acc EXCEPT !.es = @ \o [x \in 1..Len(n.kids) |-> Ent("ADD", Append(p, KidStep(c.r, j, x)), 0, n.kids[x])]]

PyEqVal(c, i, j) == Eq(Ordered, c.l, i, c.r, j)                  \* lele == rele
\* lele != rele: OrderedDict.__ne__ also looks at the key order of the two hashes themselves
PyNeVal(c, i, j) == LET a == c.l[i] b == c.r[j] IN
  IF a.k = "map" /\ b.k = "map" /\ ~Fx(c, "D")
  THEN ~PyEqVal(c, i, j) \/ \E x \in 1..Len(a.keys) : ~ScalarEq(a.keys[x], b.keys[x])
  ELSE ~PyEqVal(c, i, j)

\* Python's `x is None` on a list slot: no such slot, or (pinned code) a null element
NoneL(c, lk, x) == x = 0 \/ x > Len(lk) \/ (~Fx(c, "A") /\ IsNullAt(c.l, lk[x]))
NoneR(c, rk, x) == x = 0 \/ x > Len(rk) \/ (~Fx(c, "A") /\ IsNullAt(c.r, rk[x]))
HasDelete(acc) == \E k \in 1..Len(acc.es) : acc.es[k].a = "DELETE"
LastDeleteAt(acc, q) == LET S == {k \in 1..Len(acc.es) : acc.es[k].a = "DELETE" /\ acc.es[k].p = q} IN
  IF S = {} THEN 0 ELSE CHOOSE k \in S : \A k2 \in S : k2 <= k

\* synchronize_lists_by_value (differ.py:712-756): pairs [lx, rx], 1-based, 0 = None
RECURSIVE SyncByValue(_, _, _, _, _, _)
SyncByValue(c, lk, rk, x, rest, out) ==
  IF x > Len(lk) THEN out \o [y \in 1..Len(rest) |-> [lx |-> 0, rx |-> rest[y]]]
  ELSE LET hit == {y \in 1..Len(rest) : PyEqVal(c, lk[x], rk[rest[y]])} IN
       IF hit = {} THEN SyncByValue(c, lk, rk, x + 1, rest, Append(out, [lx |-> x, rx |-> 0]))
       ELSE LET y == FirstIn(hit) IN SyncByValue(c, lk, rk, x + 1, DropAt(rest, y), Append(out, [lx |-> x, rx |-> rest[y]]))

\* synchronize_lods_by_key (differ.py:759-846); idk = the first key of the first right record, or "none"
HasKey(d, i, kr) == \E x \in 1..Len(d[i].keys) : ScalarEq(d[i].keys[x], kr)
ValAt(d, i, kr) == d[i].kids[FirstIn({x \in 1..Len(d[i].keys) : ScalarEq(d[i].keys[x], kr)})]
RECURSIVE SyncByKey(_, _, _, _, _, _, _, _)
SyncByKey(c, lk, rk, hask, idk, x, rest, out) ==
  IF x > Len(lk) THEN out \o [y \in 1..Len(rest) |-> [lx |-> 0, rx |-> rest[y]]]
  ELSE LET keyed == hask /\ HasKey(c.l, lk[x], idk)
           hit == IF keyed THEN {y \in 1..Len(rest) : HasKey(c.r, rk[rest[y]], idk) /\ PyEqVal(c, ValAt(c.l, lk[x], idk), ValAt(c.r, rk[rest[y]], idk))}
                  ELSE IF Fx(c, "E") THEN {y \in 1..Len(rest) : (~hask \/ ~HasKey(c.r, rk[rest[y]], idk)) /\ PyEqVal(c, lk[x], rk[rest[y]])}   \* repaired: match by value
                  ELSE {}                                                                                  \* differ.py:795-803
       IN IF hit = {} THEN SyncByKey(c, lk, rk, hask, idk, x + 1, rest, Append(out, [lx |-> x, rx |-> 0]))
          ELSE LET y == FirstIn(hit) IN SyncByKey(c, lk, rk, hask, idk, x + 1, DropAt(rest, y), Append(out, [lx |-> x, rx |-> rest[y]]))

RECURSIVE Between(_, _, _, _, _, _), DictCommon(_, _, _, _, _, _), SetCommon(_, _, _, _, _, _), ZipLoop(_, _, _, _, _, _, _),
          SyncedPairs(_, _, _, _, _, _, _), KeyedPairs(_, _, _, _, _, _, _, _)

\* _diff_dicts (differ.py:205-288); YAML tags are outside the model
Dicts(c, acc, p, i, j) ==
  LET a == c.l[i] b == c.r[j]
      a1 == DictCommon(c, acc, p, i, j, 1)
      dels == SelectSeq([x \in 1..Len(a.keys) |-> x], LAMBDA x : ~HasKey(c.r, j, a.keys[x]))
      adds == SelectSeq([y \in 1..Len(b.keys) |-> y], LAMBDA y : ~HasKey(c.l, i, b.keys[y]))
  IN IF a1.crash THEN a1 ELSE
     [a1 EXCEPT !.es = @ \o [k \in 1..Len(dels) |-> Ent("DELETE", Append(p, DKey(a.keys[dels[k]].v)), a.kids[dels[k]], 0)]
                          \o [k \in 1..Len(adds) |-> Ent("ADD", Append(p, DKey(b.keys[adds[k]].v)), 0, b.kids[adds[k]])]]
DictCommon(c, acc, p, i, j, y) ==           \* keys of both sides, in the order of the right side
  LET b == c.r[j] IN
  IF y > Len(b.keys) \/ acc.crash THEN acc
  ELSE IF HasKey(c.l, i, b.keys[y]) THEN DictCommon(c, Between(c, acc, Append(p, DKey(b.keys[y].v)), ValAt(c.l, i, b.keys[y]), b.kids[y], FALSE), p, i, j, y + 1)
  ELSE DictCommon(c, acc, p, i, j, y + 1)

\* _diff_sets (differ.py:558-660)
InSet(d, i, m) == \E x \in 1..Len(d[i].kids) : ScalarEq(d[d[i].kids[x]], m)
MemberAt(d, i, m) == d[i].kids[FirstIn({x \in 1..Len(d[i].kids) : ScalarEq(d[d[i].kids[x]], m)})]
Sets(c, acc, p, i, j) ==
  LET a == c.l[i] b == c.r[j]
      a1 == SetCommon(c, acc, p, i, j, 1)
      dels == SelectSeq(a.kids, LAMBDA x : ~InSet(c.r, j, c.l[x]))
      adds == SelectSeq(b.kids, LAMBDA y : ~InSet(c.l, i, c.r[y]))
  IN IF a1.crash THEN a1 ELSE
     [a1 EXCEPT !.es = @ \o [k \in 1..Len(dels) |-> Ent("DELETE", Append(p, DKey(c.l[dels[k]].v)), dels[k], 0)]
                          \o [k \in 1..Len(adds) |-> Ent("ADD", Append(p, DKey(c.r[adds[k]].v)), 0, adds[k])]]
SetCommon(c, acc, p, i, j, y) ==
  LET b == c.r[j] IN
  IF y > Len(b.kids) \/ acc.crash THEN acc
  ELSE IF InSet(c.l, i, c.r[b.kids[y]])
       THEN SetCommon(c, Between(c, acc, Append(p, DKey(c.r[b.kids[y]].v)), MemberAt(c.l, i, c.r[b.kids[y]]), b.kids[y], FALSE), p, i, j, y + 1)
       ELSE SetCommon(c, acc, p, i, j, y + 1)

\* the zip_longest loop of _diff_arrays_of_scalars (differ.py:396-425); x is the 1-based position
ZipLoop(c, acc, p, i, j, deep, x) ==
  LET lk == c.l[i].kids rk == c.r[j].kids q == Append(p, DIdx(x - 1)) IN
  IF x > Max2(Len(lk), Len(rk)) \/ acc.crash THEN acc
  ELSE LET nx ==
         IF NoneL(c, lk, x) THEN Emit1(acc, Ent("ADD", q, 0, IF NoneR(c, rk, x) THEN 0 ELSE rk[x]))          \* 401-406
         ELSE IF NoneR(c, rk, x) THEN Emit1(acc, Ent("DELETE", q, lk[x], 0))                                  \* 407-412
         ELSE IF deep THEN Between(c, acc, q, lk[x], rk[x], TRUE)                                                 \* 413-418
         ELSE IF PyNeVal(c, lk[x], rk[x]) THEN Emit1(acc, Ent("CHANGE", q, lk[x], rk[x]))                     \* 419-425
         ELSE IF Fx(c, "D") THEN Emit1(acc, Ent("SAME", q, lk[x], rk[x])) ELSE acc                           \* repaired: say so
       IN ZipLoop(c, nx, p, i, j, deep, x + 1)

\* the loop of _diff_synced_lists over the synchronised pairs (differ.py:326-363)
SyncedPairs(c, acc, p, i, j, pairs, k) ==
  LET lk == c.l[i].kids rk == c.r[j].kids IN
  IF k > Len(pairs) \/ acc.crash THEN acc
  ELSE LET lx == pairs[k].lx rx == pairs[k].rx
           nx == IF NoneL(c, lk, lx) THEN                                          \* `if lele is None`
                   (IF rx = 0 THEN                                                \* path + "[None]"
                      (IF HasDelete(acc) THEN [acc EXCEPT !.crash = TRUE]          \* `ele.path == next_path` raises
                       ELSE Emit1(acc, Ent("ADD", <<BadStep>>, 0, 0)))
                    ELSE LET q == Append(p, DIdx(rx - 1)) ri == IF NoneR(c, rk, rx) THEN 0 ELSE rk[rx] d == LastDeleteAt(acc, q) IN
                         IF d = 0 THEN Emit1(acc, Ent("ADD", q, 0, ri))
                         ELSE [acc EXCEPT !.es = Append(DropAt(@, d), Ent("CHANGE", q, acc.es[d].li, ri))])   \* DELETE + ADD = CHANGE
                 ELSE IF NoneR(c, rk, rx) THEN Emit1(acc, Ent("DELETE", Append(p, DIdx(lx - 1)), lk[lx], 0))
                 ELSE Between(c, acc, Append(p, DIdx(lx - 1)), lk[lx], rk[rx], FALSE)
       IN SyncedPairs(c, nx, p, i, j, pairs, k + 1)
Synced(c, acc, p, i, j) ==
  SyncedPairs(c, acc, p, i, j, SyncByValue(c, c.l[i].kids, c.r[j].kids, 1, [y \in 1..Len(c.r[j].kids) |-> y], <<>>), 1)

(* ---- DifferConfig: the per-path rules and keys (differconfig.py) ----
   prepare() registers the nodes of the RIGHT document that each [rules] / [keys] path matches (c.rr, c.kr).
   _get_config_for looks a list up as NodeCoords(rhs, rhs_parent, parentref): the first registered entry whose node,
   parent and parentref agree - compared with == in the pinned code (deviation F), by position when repaired.
   z: the list is an element met by the zip loop, whose parentref is one too high (deviation G). *)
RefOf(d, x) == IF d[x].par = 0 THEN [i |-> -9, s |-> "", t |-> ""]
               ELSE LET pa == d[d[x].par] pos == ChildPos(d, x) IN
                    IF pa.k = "map" THEN [i |-> -1, s |-> pa.keys[pos].v, t |-> pa.keys[pos].t]
                    ELSE IF pa.k = "seq" THEN [i |-> pos - 1, s |-> "", t |-> ""]
                    ELSE [i |-> -1, s |-> d[x].v, t |-> d[x].t]
QueryRef(c, j, z) == LET rf == RefOf(c.r, j) IN IF z /\ ~Fx(c, "G") THEN [rf EXCEPT !.i = @ + 1] ELSE rf
SameNode(c, e, j) == IF Fx(c, "F") THEN e = j ELSE Eq(Ordered, c.r, e, c.r, j)
SameParent(c, e, j) == LET pe == c.r[e].par pj == c.r[j].par IN
  IF Fx(c, "F") THEN pe = pj ELSE (pe = 0 /\ pj = 0) \/ (pe # 0 /\ pj # 0 /\ Eq(Ordered, c.r, pe, c.r, pj))
RuleAt(c, j, z) ==                       \* _get_rule_for: "" when no rule governs the list
  LET hits == {x \in 1..Len(c.rr) : SameNode(c, c.rr[x].id, j) /\ SameParent(c, c.rr[x].id, j) /\ RefOf(c.r, c.rr[x].id) = QueryRef(c, j, z)} IN
  IF hits = {} THEN "" ELSE c.rr[FirstIn(hits)].v
KeyAt(c, j) ==                           \* aoh_diff_key of a record of list j: the key of the first registered node equal to its parent
  LET hits == {x \in 1..Len(c.kr) : SameNode(c, c.kr[x].id, j)} IN
  IF hits = {} THEN "" ELSE c.kr[FirstIn(hits)].v

\* _diff_arrays_of_scalars (differ.py:365-425): the array mode decides first, also for an AoH sent here.
\* array_diff_mode turns the rule into an ArrayDiffOpts: dpos / key / deep raise NameError - for an AoH governed by
\* `dpos` that is deviation H (repaired: such a rule says nothing about the array mode), otherwise a configuration error
Arrays(c, acc, p, i, j, deep, z, viaAoH) ==
  LET ru == RuleAt(c, j, z)
      mode == IF ru = "" \/ (ru = "dpos" /\ viaAoH /\ Fx(c, "H")) THEN c.cfg.arrays ELSE ru
  IN IF mode \notin {"position", "value"} THEN [acc EXCEPT !.crash = TRUE, !.dom = (ru = "dpos" /\ viaAoH)]
     ELSE IF mode = "value" THEN Synced(c, acc, p, i, j) ELSE ZipLoop(c, acc, p, i, j, deep, 1)

\* the loop of _diff_arrays_of_hashes over the key-synchronised pairs (differ.py:485-518)
KeyedPairs(c, acc, p, i, j, deep, pairs, k) ==
  LET lk == c.l[i].kids rk == c.r[j].kids IN
  IF k > Len(pairs) \/ acc.crash THEN acc
  ELSE LET lx == pairs[k].lx rx == pairs[k].rx
           nx == IF lx = 0 THEN Emit1(acc, Ent("ADD", Append(p, DIdx(rx - 1)), 0, rk[rx]))
                 ELSE IF rx = 0 THEN Emit1(acc, Ent("DELETE", Append(p, DIdx(lx - 1)), lk[lx], 0))
                 ELSE IF deep THEN Between(c, acc, Append(p, DIdx(rx - 1)), lk[lx], rk[rx], FALSE)         \* the RIGHT position
                 ELSE Emit1(acc, Ent(IF PyEqVal(c, lk[lx], rk[rx]) THEN "SAME" ELSE "CHANGE", Append(p, DIdx(lx - 1)), lk[lx], rk[rx]))
       IN KeyedPairs(c, nx, p, i, j, deep, pairs, k + 1)
AllHashes(d, ks) == \A x \in 1..Len(ks) : d[ks[x]].k = "map"
AoH(c, acc, p, i, j, z) ==
  LET lk == c.l[i].kids rk == c.r[j].kids first == c.r[rk[1]]
      ru == RuleAt(c, j, z) mode == IF ru = "" THEN c.cfg.aoh ELSE ru
      uk == KeyAt(c, j) IN
  IF mode = "position" THEN Arrays(c, acc, p, i, j, FALSE, z, TRUE)
  ELSE IF mode = "dpos" THEN Arrays(c, acc, p, i, j, TRUE, z, TRUE)
  ELSE IF mode = "value" THEN Synced(c, acc, p, i, j)
  ELSE IF ~(AllHashes(c.l, lk) /\ AllHashes(c.r, rk)) THEN [acc EXCEPT !.dom = FALSE, !.crash = TRUE]   \* outside "lists whose members are all hashes"
  ELSE LET hask == uk # "" \/ Len(first.keys) > 0
           idk == IF uk # "" THEN [t |-> "str", v |-> uk] ELSE IF hask THEN first.keys[1] ELSE [t |-> "str", v |-> ""]
       IN KeyedPairs(c, acc, p, i, j, mode = "deep", SyncByKey(c, lk, rk, hask, idk, 1, [y \in 1..Len(rk) |-> y], <<>>), 1)

\* _diff_lists (differ.py:520-555)
Lists(c, acc, p, i, j, z) ==
  LET rk == c.r[j].kids IN
  IF Len(rk) = 0 THEN (IF Fx(c, "B") THEN Arrays(c, acc, p, i, j, TRUE, z, FALSE) ELSE acc)          \* differ.py:549
  ELSE IF c.r[rk[1]].k = "map" THEN AoH(c, acc, p, i, j, z)
  ELSE Arrays(c, acc, p, i, j, TRUE, z, FALSE)

\* _diff_between (differ.py:662-710), _diff_scalars (160-203, EYAML values are outside the model)
Between(c, acc, p, i, j, z) ==
  LET a == c.l[i] b == c.r[j] IN
  IF acc.crash THEN acc
  ELSE IF a.k # b.k THEN          \* kinds clash: everything left goes, everything right comes - except an empty document
    LET acc1 == IF Len(p) = 0 /\ IsNullAt(c.l, i) THEN acc ELSE Purge(c, acc, p, i) IN
    IF Len(p) = 0 /\ IsNullAt(c.r, j) THEN acc1 ELSE AddAll(c, acc1, p, j)
  ELSE IF a.k = "map" THEN Dicts(c, acc, p, i, j)
  ELSE IF a.k = "seq" THEN Lists(c, acc, p, i, j, z)
  ELSE IF a.k = "set" THEN Sets(c, acc, p, i, j)
  ELSE Emit1(acc, Ent(IF ScalarEq(a, b) THEN "SAME" ELSE "CHANGE", p, i, j))

Diff(l, r, cfg) ==
  IF \E k \in 1..Len(cfg.rules) : ~MatchSure(r, cfg.rules[k].p) THEN [es |-> <<>>, crash |-> TRUE, dom |-> FALSE]      \* what the path
  ELSE IF \E k \in 1..Len(cfg.keys) : ~MatchSure(r, cfg.keys[k].p) THEN [es |-> <<>>, crash |-> TRUE, dom |-> FALSE]  \* registers is not modelled
  ELSE Between([l |-> l, r |-> r, cfg |-> cfg, rr |-> Registered(r, cfg.rules), kr |-> Registered(r, cfg.keys)],
               [es |-> <<>>, crash |-> FALSE, dom |-> TRUE], <<>>, Root, Root, FALSE)

GlobalCfg(arrays, aoh, fixed) == [arrays |-> arrays, aoh |-> aoh, rules |-> <<>>, keys |-> <<>>, fixed |-> fixed]
MirroredDiff(l, r, arrays, aoh) == Diff(l, r, GlobalCfg(arrays, aoh, {}))              \* the code as pinned
FixedDiff(l, r, arrays, aoh) == Diff(l, r, GlobalCfg(arrays, aoh, AllFixes))           \* the repaired design

\* model entries -> valued entries (Python None is the null value on the side an action speaks about)
Valued(es, l, r) == [k \in 1..Len(es) |->
  [a |-> es[k].a, p |-> es[k].p,
   lv |-> IF es[k].li = 0 THEN NullTab ELSE SubTab(l, es[k].li),
   rv |-> IF es[k].ri = 0 THEN NullTab ELSE SubTab(r, es[k].ri)]]

(* ---- verdicts of one (pair, mode): which clauses of the statement the report satisfies ---- *)
Verdict(rep, l, r, cfg) ==
  LET ex == Expect(cfg, l, r) IN
  [truthful |-> ~Positional(cfg) \/ AllTruthful(rep, l, r),
   covers |-> ~Positional(cfg) \/ Covers(rep, l, r),
   accounted |-> Accounted(rep, l, r),
   nochange |-> ex = "info" \/ (NoChange(rep) <=> ex = "same"),
   expect |-> ex]
VerdictOK(v) == v.truthful /\ v.covers /\ v.accounted /\ v.nochange
=============================================================================
