------------------------------ MODULE YDocGen ------------------------------
(***************************************************************************)
(* Document generator machine: builds YData node tables one node at a      *)
(* time.  State = the table so far + the stack of open containers; `fresh` *)
(* is TRUE exactly in the state reached by adding a node, so every         *)
(* document has exactly one fresh state (properties are evaluated and      *)
(* cases emitted there).  Every intermediate table is itself a well-formed *)
(* document (an open container is a container with the children so far).   *)
(*                                                                         *)
(* Map keys are added in KeyPool order (one representative per key set);   *)
(* sets hold distinct non-null scalars; at most one anchor name "A" is     *)
(* defined, on a scalar, and aliased at later scalar positions.            *)
(***************************************************************************)
EXTENDS YData

CONSTANTS MaxNodes,     \* bound on the number of nodes
          ScalarPool,   \* sequence of [t, v] scalars usable as values
          KeyPool,      \* sequence of [t, v] keys
          SetPool,      \* sequence of [t, v] scalars usable as set members
          Roots,        \* set of root kinds among {"map", "seq", "set", "s"}
          UseAnchors,   \* BOOLEAN
          AnchorPool,   \* set of anchor names that may be defined (each at most once, on a scalar) and aliased
          MaxDepth      \* bound on container nesting

VARIABLES doc, open, fresh

gvars == <<doc, open, fresh>>

Top == open[Len(open)]
AddChild(d, par, n) == [d EXCEPT ![par].kids = Append(@, Len(d) + 1)] \o <<n>>
AddKeyed(d, par, kr, n) == [d EXCEPT ![par].kids = Append(@, Len(d) + 1), ![par].keys = Append(@, kr)] \o <<n>>

KeyIdx(kr) == CHOOSE i \in 1..Len(KeyPool) : KeyPool[i] = kr
\* keys allowed next in map m: later in KeyPool than the last key used
NextKeys(m) == LET used == doc[m].keys IN
  IF Len(used) = 0 THEN {KeyPool[i] : i \in 1..Len(KeyPool)}
  ELSE {KeyPool[i] : i \in (KeyIdx(used[Len(used)]) + 1)..Len(KeyPool)}
MemberIdx(n) == CHOOSE i \in 1..Len(SetPool) : SetPool[i].t = n.t /\ SetPool[i].v = n.v
NextMembers(s) == LET ks == doc[s].kids IN
  IF Len(ks) = 0 THEN {SetPool[i] : i \in 1..Len(SetPool)}
  ELSE {SetPool[i] : i \in (MemberIdx(doc[ks[Len(ks)]]) + 1)..Len(SetPool)}

Defined(a) == \E i \in 1..Len(doc) : doc[i].anchor = a /\ doc[i].alias = 0
DefNode(a) == CHOOSE i \in 1..Len(doc) : doc[i].anchor = a /\ doc[i].alias = 0

\* candidate new nodes under the open container
Scalars == {Node("s", ScalarPool[i].t, ScalarPool[i].v, 0) : i \in 1..Len(ScalarPool)}
Anchored == IF UseAnchors
            THEN {[Node("s", ScalarPool[i].t, ScalarPool[i].v, 0) EXCEPT !.anchor = a] :
                    i \in {j \in 1..Len(ScalarPool) : ScalarPool[j].t # "null"}, a \in {x \in AnchorPool : ~Defined(x)}}
            ELSE {}
Aliases == IF UseAnchors
           THEN {[doc[DefNode(a)] EXCEPT !.alias = DefNode(a), !.kids = <<>>, !.keys = <<>>] : a \in {x \in AnchorPool : Defined(x)}}
           ELSE {}
Containers == IF Len(open) < MaxDepth THEN {Node("map", "", "", 0), Node("seq", "", "", 0), Node("set", "", "", 0)} ELSE {}

GInit ==
  /\ fresh = TRUE
  /\ \/ \E k \in Roots \ {"s"} : doc = <<Node(k, "", "", 0)>> /\ open = <<1>>
     \/ "s" \in Roots /\ \E i \in 1..Len(ScalarPool) : doc = <<Node("s", ScalarPool[i].t, ScalarPool[i].v, 0)>> /\ open = <<>>

AddUnder(n) ==
  LET p == Top  nn == [n EXCEPT !.par = p] IN
  /\ Len(doc) < MaxNodes
  /\ doc[p].k # "set"
  /\ IF doc[p].k = "map" THEN \E kr \in NextKeys(p) : doc' = AddKeyed(doc, p, kr, nn)
     ELSE doc' = AddChild(doc, p, nn)
  /\ open' = IF n.k = "s" THEN open ELSE Append(open, Len(doc) + 1)
  /\ fresh' = TRUE

AddMember ==
  /\ Len(open) > 0 /\ Len(doc) < MaxNodes /\ doc[Top].k = "set"
  /\ \E m \in NextMembers(Top) : doc' = AddChild(doc, Top, Node("s", m.t, m.v, Top))
  /\ UNCHANGED open /\ fresh' = TRUE

AddScalar == Len(open) > 0 /\ \E n \in Scalars \cup Anchored \cup Aliases : AddUnder(n)
AddContainer == Len(open) > 0 /\ \E n \in Containers : AddUnder(n)
Close == Len(open) > 1 /\ open' = SubSeq(open, 1, Len(open) - 1) /\ fresh' = FALSE /\ UNCHANGED doc

GNext == AddScalar \/ AddMember \/ AddContainer \/ Close
=============================================================================
