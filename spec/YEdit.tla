------------------------------- MODULE YEdit -------------------------------
(***************************************************************************)
(* Edits of a document (properties C03, C04, C09): the plain-data model of *)
(* Processor.set_value / delete_nodes / optional-match creation            *)
(* (processor.py:169-343, 685-808, 2351-2627; nodes.py:42-253, 443-514).   *)
(*                                                                         *)
(*   SetScalars(d, S, t, v)  every position in S and every alias of it     *)
(*                           holds the scalar (t, v); nothing else changes *)
(*   DeleteNodes(d, S)       exactly the subtrees rooted in S are gone,    *)
(*                           everything else keeps value and order         *)
(*   CreatePath(d, segs, ..) a straight key/index path whose tail is       *)
(*                           missing is created under the deepest existing *)
(*                           prefix; sequences grow only to the index      *)
(*   EStep(s, e)             the step function over [doc, err] used by     *)
(*                           MC_Edit (histories) and Trace_Edit            *)
(* Documents are rebuilt through a nested tree so that positions stay      *)
(* pre-order numbers after structural edits.                               *)
(***************************************************************************)
EXTENDS YQuery

(* ---- table <-> tree ---- *)
RECURSIVE TreeOf(_, _)
TreeOf(d, i) == [k |-> d[i].k, t |-> d[i].t, v |-> d[i].v, anchor |-> d[i].anchor, isalias |-> d[i].alias # 0,
                 keys |-> d[i].keys, kanch |-> KA(d[i]), kids |-> [j \in 1..Len(d[i].kids) |-> TreeOf(d, d[i].kids[j])]]
KAT(tr) == IF "kanch" \in DOMAIN tr THEN tr.kanch ELSE <<>>
RECURSIVE SumTo(_, _)
SumTo(sizes, n) == IF n = 0 THEN 0 ELSE sizes[n] + SumTo(sizes, n - 1)
RECURSIVE TSize(_)
TSize(tr) == 1 + SumTo([j \in 1..Len(tr.kids) |-> TSize(tr.kids[j])], Len(tr.kids))
RECURSIVE TabAt(_, _, _)
TabAt(tr, par, me) ==    \* node table of tree tr whose root gets id `me`
  LET sizes == [j \in 1..Len(tr.kids) |-> TSize(tr.kids[j])]
      kid(j) == me + 1 + SumTo(sizes, j - 1)
      base == [k |-> tr.k, t |-> tr.t, v |-> tr.v, kids |-> [j \in 1..Len(tr.kids) |-> kid(j)], keys |-> tr.keys,
               par |-> par, anchor |-> tr.anchor, alias |-> IF tr.isalias THEN 1 ELSE 0]
  IN <<IF \E j \in 1..Len(KAT(tr)) : KAT(tr)[j] # "" THEN base @@ [kanch |-> KAT(tr)] ELSE base>>
     \o Flatten([j \in 1..Len(tr.kids) |-> TabAt(tr.kids[j], me, kid(j))])
\* alias links: the first position (in document order) carrying an anchor name is its definition
NormAliases(d) ==
  [i \in 1..Len(d) |->
     IF d[i].anchor = "" THEN [d[i] EXCEPT !.alias = 0]
     ELSE LET first == CHOOSE j \in 1..Len(d) : d[j].anchor = d[i].anchor /\ \A x \in 1..Len(d) : d[x].anchor = d[i].anchor => j <= x
          IN [d[i] EXCEPT !.alias = IF first = i THEN 0 ELSE first]]
TabOf(tr) == NormAliases(TabAt(tr, 0, 1))

(* ---- set ---- *)
AliasGroup(d, i) == LET def == IF d[i].alias # 0 THEN d[i].alias ELSE i IN
                    {def} \cup {j \in 1..Len(d) : d[j].alias = def}
Closure(d, S) == UNION {AliasGroup(d, i) : i \in S}
\* a key that is an Alias of a changed Anchor is the same object as the anchored scalar: it is renamed where it stands
\* (processor.py _update_node.recurse, CommentedMap branch)
SetScalarsRaw(d, S, t, v) == LET C == Closure(d, S) names == {d[x].anchor : x \in C} \ {""} IN
  [i \in 1..Len(d) |->
     IF i \in C THEN [d[i] EXCEPT !.t = t, !.v = v]
     ELSE IF d[i].k = "map" /\ (\E j \in 1..Len(d[i].keys) : KAOf(d[i], j) \in names)
          THEN [d[i] EXCEPT !.keys = [j \in 1..Len(d[i].keys) |-> IF KAOf(d[i], j) \in names THEN [t |-> t, v |-> v] ELSE d[i].keys[j]]]
     ELSE d[i]]
HasAliasedKeys(d) == \E i \in 1..Len(d) : \E j \in 1..Len(KA(d[i])) : KA(d[i])[j] # ""
\* a renamed key that now equals another key of the same Hash: what ruamel's insert does then is not documented
KeyClash(d) == \E i \in 1..Len(d) : d[i].k = "map" /\ \E a, b \in 1..Len(d[i].keys) : a # b /\ d[i].keys[a] = d[i].keys[b]
\* members of a Set that became equal collapse into one (a Set holds distinct members)
RECURSIVE DedupMembers(_)
DedupMembers(kids) == IF Len(kids) = 0 THEN <<>> ELSE
  LET rest == DedupMembers(SubSeq(kids, 1, Len(kids) - 1)) x == kids[Len(kids)] IN
  IF \E j \in 1..Len(rest) : rest[j].t = x.t /\ rest[j].v = x.v THEN rest ELSE Append(rest, x)
RECURSIVE DedupSetsT(_)
DedupSetsT(tr) ==
  IF tr.k = "set" THEN [tr EXCEPT !.kids = DedupMembers(tr.kids)]
  ELSE [tr EXCEPT !.kids = [j \in 1..Len(tr.kids) |-> DedupSetsT(tr.kids[j])]]
HasSet(d) == \E i \in 1..Len(d) : d[i].k = "set"
SetScalars(d, S, t, v) == LET raw == SetScalarsRaw(d, S, t, v) IN
  IF HasSet(d) THEN TabOf(DedupSetsT(TreeOf(raw, Root))) ELSE raw

(* ---- delete ---- *)
RECURSIVE TreeWithout(_, _, _)
TreeWithout(d, i, S) ==
  LET keep == SelectSeq([j \in 1..Len(d[i].kids) |-> j], LAMBDA j : d[i].kids[j] \notin S) IN
  [TreeOf(d, i) EXCEPT !.keys = IF d[i].k = "map" THEN [x \in 1..Len(keep) |-> d[i].keys[keep[x]]] ELSE <<>>,
                       !.kanch = IF d[i].k = "map" /\ Len(KA(d[i])) > 0 THEN [x \in 1..Len(keep) |-> KAOf(d[i], keep[x])] ELSE <<>>,
                       !.kids = [x \in 1..Len(keep) |-> TreeWithout(d, d[i].kids[keep[x]], S)]]
DeleteNodes(d, S) == TabOf(TreeWithout(d, Root, S))

(* ---- create ---- *)
NewScalar(t, v) == [k |-> "s", t |-> t, v |-> v, anchor |-> "", isalias |-> FALSE, keys |-> <<>>, kids |-> <<>>]
NewCont(k) == [k |-> k, t |-> "", v |-> "", anchor |-> "", isalias |-> FALSE, keys |-> <<>>, kids |-> <<>>]
IndexLike(sg) == sg.ty = "INDEX" \/ (sg.ty = "KEY" /\ IsPyInt(sg.v))
\* Nodes.build_next_node: the default a padded / freshly created position starts from
DefaultForT(rest, leaf) == IF Len(rest) = 0 THEN leaf
                           ELSE IF rest[1].ty = "INDEX" THEN NewCont("seq") ELSE NewCont("map")
DefaultFor(rest, t, v) == DefaultForT(rest, NewScalar(t, v))
\* the subtree a missing tail creates: BuildTail(rest) is the node for the position the rest starts at
RECURSIVE BuildTailT(_, _)
BuildTailT(rest, leaf) ==
  IF Len(rest) = 0 THEN [ok |-> TRUE, tr |-> leaf]
  ELSE LET sg == rest[1] sub == BuildTailT(Tail(rest), leaf) IN
    IF ~sub.ok THEN sub
    ELSE IF sg.ty = "INDEX" THEN
      \* build_next_node makes a list for an INDEX segment; it is padded up to the index with the same default
      (IF PyIntVal(sg.v) < 0 THEN [ok |-> FALSE, tr |-> NewCont("seq")]
       ELSE [ok |-> TRUE, tr |-> [NewCont("seq") EXCEPT !.kids = [j \in 1..PyIntVal(sg.v) |-> DefaultForT(Tail(rest), leaf)] \o <<sub.tr>>]])
    ELSE IF sg.ty = "KEY" THEN
      [ok |-> TRUE, tr |-> [NewCont("map") EXCEPT !.keys = <<[t |-> "str", v |-> sg.v]>>, !.kids = <<sub.tr>>]]
    ELSE [ok |-> FALSE, tr |-> NewCont("map")]
BuildTail(rest, t, v) == BuildTailT(rest, NewScalar(t, v))

RECURSIVE TreeWithChild(_, _, _, _, _)
TreeWithChild(d, i, at, keyrec, newkids) ==   \* the tree of d with newkids appended under position `at`
  IF i = at THEN [TreeOf(d, i) EXCEPT !.keys = IF d[i].k = "map" THEN @ \o <<keyrec>> ELSE @, !.kids = @ \o newkids,
                                       !.kanch = IF d[i].k = "map" /\ Len(@) > 0 THEN @ \o <<"">> ELSE @]
  ELSE [TreeOf(d, i) EXCEPT !.kids = [j \in 1..Len(d[i].kids) |-> TreeWithChild(d, d[i].kids[j], at, keyrec, newkids)]]

RECURSIVE TreeReplace(_, _, _, _)
TreeReplace(d, i, at, newtr) ==   \* the tree of d with the subtree at position `at` replaced
  IF i = at THEN newtr
  ELSE [TreeOf(d, i) EXCEPT !.kids = [j \in 1..Len(d[i].kids) |-> TreeReplace(d, d[i].kids[j], at, newtr)]]

\* walk the straight path as far as it exists: [cur, i] = deepest existing position and the index of the first missing segment
RECURSIVE WalkStraight(_, _, _, _)
WalkStraight(d, cur, segs, i) ==
  IF i > Len(segs) THEN [cur |-> cur, i |-> i, ok |-> TRUE]
  ELSE LET st == SegStep(d, Cur(cur), segs, i, TRUE) IN
    IF st.err # "" \/ Len(st.res) > 1 THEN [cur |-> cur, i |-> i, ok |-> FALSE]
    ELSE IF Len(st.res) = 0 THEN [cur |-> cur, i |-> i, ok |-> TRUE]
    ELSE IF IsVirt(st.res[1]) THEN [cur |-> cur, i |-> i, ok |-> FALSE]
    ELSE WalkStraight(d, st.res[1].id, segs, i + 1)

Straight(segs) == \A j \in 1..Len(segs) : segs[j].ty \in {"KEY", "INDEX"}
\* result: [ok, doc, existed]; ok = FALSE when the creation is refused (YAML Path error) or outside the modelled cases
CreatePathT(d, segs, leaf) ==
  LET w == WalkStraight(d, Root, segs, 1) IN
  IF ~Straight(segs) \/ ~w.ok THEN [ok |-> FALSE, doc |-> d, existed |-> FALSE, why |-> "notstraight"]
  ELSE IF w.i > Len(segs) THEN [ok |-> TRUE, doc |-> d, existed |-> TRUE, why |-> ""]
  ELSE LET sg == segs[w.i] n == d[w.cur] rest == SubSeq(segs, w.i + 1, Len(segs)) sub == BuildTailT(rest, leaf) IN
    IF ~sub.ok THEN [ok |-> FALSE, doc |-> d, existed |-> FALSE, why |-> "tail"]
    ELSE IF n.k = "map" THEN
      (IF sg.ty # "KEY" THEN [ok |-> FALSE, doc |-> d, existed |-> FALSE, why |-> "yperr"]
       ELSE [ok |-> TRUE, existed |-> FALSE, why |-> "",
             doc |-> TabOf(TreeWithChild(d, Root, w.cur, [t |-> "str", v |-> sg.v], <<sub.tr>>))])
    ELSE IF n.k = "seq" THEN
      (IF ~IndexLike(sg) \/ PyIntVal(sg.v) < 0 THEN [ok |-> FALSE, doc |-> d, existed |-> FALSE, why |-> "yperr"]
       ELSE LET idx == PyIntVal(sg.v) len == Len(n.kids) IN
            [ok |-> TRUE, existed |-> FALSE, why |-> "",
             doc |-> TabOf(TreeWithChild(d, Root, w.cur, [t |-> "", v |-> ""], [j \in 1..(idx - len) |-> DefaultForT(rest, leaf)] \o <<sub.tr>>))])
    ELSE [ok |-> FALSE, doc |-> d, existed |-> FALSE,
          why |-> IF n.k = "s" /\ n.t = "null" THEN "null" ELSE IF n.k = "set" THEN "set" ELSE "yperr"]   \* creating under a Set: documentation silent

CreatePath(d, segs, t, v) == CreatePathT(d, segs, NewScalar(t, v))

(***************************************************************************)
(* The step function.  s = [doc, out]; out: "ok" | "unmatched" | "yperr" | *)
(* "nodoc" (root deletion refused) | "skip" (outside the modelled domain)  *)
(* e = [op, segs, t, v]                                                    *)
(***************************************************************************)
AllScalars(d, ids) == \A j \in 1..Len(ids) : d[ids[j]].k = "s"
SeqToSet(s) == {s[j] : j \in 1..Len(s)}

(***************************************************************************)
(* alias_nodes (processor.py:505-616, yaml-set --aliasof / --anchor): the  *)
(* single node the anchor path selects is given an Anchor name - the one   *)
(* supplied (it must be unused), else the one it has, else a generated one *)
(* (Anchors.generate_unique_anchor_name: the Hash key it sits under, or    *)
(* "id", plus 001, 002, ... when taken) - and every target becomes an      *)
(* Alias of it.  The name is assigned BEFORE the targets are gathered, so  *)
(* it stays when the target path then fails.  Scalar anchors only; beyond  *)
(* the listed properties (agreement with the code is counted, see C03).    *)
(***************************************************************************)
AnchorNamesOf(d) == {d[i].anchor : i \in 1..Len(d)} \ {""}
Pad3(n) == IF n < 10 THEN "00" \o NatStr(n) ELSE IF n < 100 THEN "0" \o NatStr(n) ELSE NatStr(n)
RECURSIVE NumberedName(_, _, _)
NumberedName(base, used, n) == IF (base \o Pad3(n)) \notin used THEN base \o Pad3(n) ELSE NumberedName(base, used, n + 1)
GenAnchorName(d, a, used) ==
  LET p == d[a].par pos == ChildPos(d, a)
      base == IF p # 0 /\ d[p].k = "map" /\ d[p].keys[pos].t = "str" THEN d[p].keys[pos].v ELSE "id"
  IN IF base # "id" /\ base \notin used THEN base ELSE NumberedName(base, used, 1)
PlainName(s) == Len(s) > 0 /\ \A i \in 1..Len(s) : Ch(s, i) \in Uppers \cup {LowerOf[u] : u \in Uppers} \cup Digits \cup {"_"}
RECURSIVE ReplaceAll(_, _, _, _)
ReplaceAll(d, i, S, newtr) ==      \* the tree of d with every position of S replaced by newtr
  IF i \in S THEN newtr
  ELSE [TreeOf(d, i) EXCEPT !.kids = [j \in 1..Len(d[i].kids) |-> ReplaceAll(d, d[i].kids[j], S, newtr)]]
AliasStep(d, e) ==
  LET ra == Sel(d, e.asegs) aids == FlatIds(ra.res) rt == Sel(d, e.segs) tids == FlatIds(rt.res)
      skip == [doc |-> d, out |-> "skip"] IN
  IF ra.info \/ rt.info THEN skip
  ELSE IF ra.err # "" THEN [doc |-> d, out |-> "yperr"]
  ELSE IF Len(ra.res) = 0 THEN skip                       \* the code indexes an empty list here (IndexError): outside any reading
  ELSE IF Len(ra.res) > 1 THEN [doc |-> d, out |-> "yperr"]
  ELSE IF IsName(ra.res[1]) \/ IsVirt(ra.res[1]) THEN skip
  ELSE LET a == aids[1] IN
    IF d[a].k # "s" \/ d[a].t = "null" \/ a = Root \/ d[d[a].par].k = "set" THEN skip
    ELSE LET used == AnchorNamesOf(d)
             name == IF e.name # "" THEN e.name ELSE IF d[a].anchor # "" THEN d[a].anchor ELSE GenAnchorName(d, a, used)
             grp == AliasGroup(d, a)
             oldn == {d[i].anchor : i \in grp} \ {""}
             \* keys that are Aliases of the node are the same object: they carry the new name too
             d1 == [i \in 1..Len(d) |-> IF i \in grp THEN [d[i] EXCEPT !.anchor = name]
                                       ELSE IF Len(KA(d[i])) > 0 THEN [d[i] EXCEPT !.kanch = [j \in 1..Len(@) |-> IF @[j] \in oldn THEN name ELSE @[j]]]
                                       ELSE d[i]]
         IN IF ~PlainName(name) THEN skip                  \* a generated name that is no legal Anchor name (key with punctuation)
            ELSE IF e.name # "" /\ e.name \in used THEN [doc |-> d, out |-> "yperr"]
            ELSE IF rt.err # "" THEN [doc |-> NormAliases(d1), out |-> "yperr"]
            ELSE IF (\E j \in 1..Len(rt.res) : IsName(rt.res[j]) \/ IsVirt(rt.res[j])) THEN skip
            ELSE IF Root \in SeqToSet(tids) \/ (\E t \in SeqToSet(tids) : IsUnder(d, a, t) /\ t # a) \/ (\E t \in SeqToSet(tids) : d[d[t].par].k = "set") THEN skip
            ELSE [doc |-> TabOf(ReplaceAll(d1, Root, SeqToSet(tids) \ grp,
                                           [NewScalar(d[a].t, d[a].v) EXCEPT !.anchor = name, !.isalias = TRUE])),
                  out |-> "ok"]

EStep(s, e) ==
  LET d == s.doc r == Sel(d, e.segs) ids == FlatIds(r.res) IN
  IF e.op = "set_must" THEN
    (IF r.info THEN [doc |-> d, out |-> "skip"]          \* the selection itself is an open corner: no expectation
     ELSE IF r.err # "" THEN [doc |-> d, out |-> "yperr"]
     ELSE IF Len(r.res) = 0 THEN [doc |-> d, out |-> "unmatched"]
     ELSE IF ~AllScalars(d, ids) \/ (\E j \in 1..Len(r.res) : IsName(r.res[j])) \/ (\E j \in 1..Len(r.res) : IsVirt(r.res[j])) THEN [doc |-> d, out |-> "skip"]
     ELSE LET nd == SetScalars(d, SeqToSet(ids), e.t, e.v)
              \* a target that sits UNDER an aliased key, matched together with other nodes: the matches are gathered first and the
              \* key may have been renamed by the time its value is reached (the code then fails with KeyError): outside the model
              underAliased == \E x \in SeqToSet(ids) : d[x].par # 0 /\ KAOf(d[d[x].par], ChildPos(d, x)) # "" IN
          IF HasAliasedKeys(d) /\ (KeyClash(nd) \/ (underAliased /\ Len(ids) > 1)) THEN [doc |-> d, out |-> "skip"] ELSE [doc |-> nd, out |-> "ok"])
  ELSE IF e.op = "delete" THEN
    (IF r.info THEN [doc |-> d, out |-> "skip"]
     ELSE IF r.err # "" THEN [doc |-> d, out |-> "yperr"]
     ELSE IF Len(r.res) = 0 THEN [doc |-> d, out |-> "ok"]
     ELSE IF (\E j \in 1..Len(r.res) : IsName(r.res[j])) THEN [doc |-> d, out |-> "skip"]
     ELSE IF Root \in SeqToSet(ids) THEN [doc |-> d, out |-> "nodoc"]
     \* deleting the definition of an Anchor that a key is an Alias of leaves the key as the first occurrence: outside the model
     ELSE IF HasAliasedKeys(d) /\ (\E x \in 1..Len(d) : d[x].anchor # "" /\ d[x].alias = 0 /\ (\E tg \in SeqToSet(ids) : IsUnder(d, x, tg))) THEN [doc |-> d, out |-> "skip"]
     ELSE [doc |-> DeleteNodes(d, SeqToSet(ids)), out |-> "ok"])
  ELSE IF e.op = "set_opt" THEN
    (LET c == CreatePath(d, e.segs, e.t, e.v) IN
     IF ~c.ok THEN [doc |-> d, out |-> IF c.why = "yperr" THEN "yperr" ELSE "skip"]
     ELSE IF c.existed THEN
        (IF r.info \/ ~AllScalars(d, ids) THEN [doc |-> d, out |-> "skip"]
         ELSE LET nd == SetScalars(d, SeqToSet(ids), e.t, e.v) IN
              IF HasAliasedKeys(d) /\ KeyClash(nd) THEN [doc |-> d, out |-> "skip"] ELSE [doc |-> nd, out |-> "ok"])
     ELSE [doc |-> c.doc, out |-> "ok"])
  ELSE IF e.op = "alias" THEN AliasStep(d, e)
  ELSE [doc |-> d, out |-> "ok"]      \* query / exists: reads never change the document (C09)

(* ---- the frame predicates of C03 / C04 / C09, stated on model steps (checked by TLC in MC_Edit) ---- *)
PlainEq(a, b) == Len(a) = Len(b) /\ \A i \in 1..Len(a) :
                   a[i].k = b[i].k /\ a[i].t = b[i].t /\ a[i].v = b[i].v /\ a[i].kids = b[i].kids /\ a[i].keys = b[i].keys
AnchorsWellFormed(d) == \A i \in 1..Len(d) : d[i].alias # 0 =>
   d[i].alias < i /\ d[d[i].alias].anchor = d[i].anchor /\ d[d[i].alias].alias = 0 /\ d[d[i].alias].t = d[i].t /\ d[d[i].alias].v = d[i].v
=============================================================================
