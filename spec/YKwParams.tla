----------------------------- MODULE YKwParams -----------------------------
(***************************************************************************)
(* The parameter splitter of Search Keyword segments:                      *)
(* SearchKeywordTerms.parameters (yamlpath/path/searchkeywordterms.py:     *)
(* 66-139) as a character step machine, one IF arm per elif branch.        *)
(* KPSplit(text) = [ok, params]; ok = FALSE is the ValueError the code     *)
(* raises for unbalanced demarcation (KeywordSearches turns it into a      *)
(* YAMLPathException since the fix: commit).                               *)
(***************************************************************************)
EXTENDS YText

KPInit == [param |-> "", params |-> <<>>, esc |-> FALSE, stack |-> <<>>]
KPStep(s, c) ==
  LET dc == Len(s.stack) top == IF dc > 0 THEN s.stack[dc] ELSE "" App(x) == [x EXCEPT !.param = @ \o c] IN
  IF s.esc THEN App([s EXCEPT !.esc = FALSE])                                   \* 93
  ELSE IF c = "\\" THEN [s EXCEPT !.esc = TRUE]                                  \* 97
  ELSE IF c = " " /\ dc < 1 THEN s                                               \* 101
  ELSE IF c \in {"'", "\""} THEN                                                 \* 108
    (IF dc > 0 THEN
       (IF c = top THEN
          (IF dc - 1 < 1 THEN [s EXCEPT !.stack = SubSeq(@, 1, dc - 1)]
           ELSE App([s EXCEPT !.stack = SubSeq(@, 1, dc - 1)]))
        ELSE App([s EXCEPT !.stack = Append(@, c)]))
     ELSE [s EXCEPT !.stack = Append(@, c)])
  ELSE IF dc < 1 /\ c = "," THEN [s EXCEPT !.params = Append(@, s.param), !.param = ""]   \* 130
  ELSE App(s)
RECURSIVE KPRun(_, _)
KPRun(s, rest) == IF rest = "" THEN s ELSE KPRun(KPStep(s, Ch(rest, 1)), Tail(rest))
KPSplit(text) ==
  LET s == KPRun(KPInit, text) IN
  IF Len(s.stack) > 0 THEN [ok |-> FALSE, params |-> <<>>]
  ELSE [ok |-> TRUE, params |-> IF s.param # "" THEN Append(s.params, s.param) ELSE s.params]
=============================================================================
