------------------------------- MODULE YMerge -------------------------------
(***************************************************************************)
(* Merging two documents under a policy configuration (properties C05,     *)
(* C10, C11): yamlpath/merger/merger.py (_merge_dicts 106-269, array / AoH *)
(* / set merges 271-496, root insertion by right-hand type 614-890) and    *)
(* the policy lookup of mergerconfig.py.  Documents are the nested trees   *)
(* of YEdit (TreeOf / TabOf).                                              *)
(*                                                                         *)
(* cfg = [hashes, arrays, aoh, sets, idkey]:                               *)
(*   hashes  deep | left | right          arrays  all | left | right | unique *)
(*   aoh     all | left | right | unique | deep   sets  left | right | unique *)
(*   idkey   identity key for aoh = deep ("" = first key of the first      *)
(*           right-hand record)                                            *)
(* A result is [ok, tr, info]: ok = FALSE is the MergeException outcome;   *)
(* info marks corners the documentation leaves open.                       *)
(***************************************************************************)
EXTENDS YEdit

MOK(tr) == [ok |-> TRUE, tr |-> tr, info |-> FALSE]
MInfo(tr) == [ok |-> TRUE, tr |-> tr, info |-> TRUE]
MErr == [ok |-> FALSE, tr |-> NewCont("map"), info |-> FALSE]

\* data equality of two trees as Python's == sees loaded nodes (anchors irrelevant)
RECURSIVE TEq(_, _)
TEq(a, b) ==
  /\ a.k = b.k
  /\ IF a.k = "s" THEN
        (IF a.t \in {"int", "float", "bool"} /\ b.t \in {"int", "float", "bool"}
         THEN NumEQ(TypedHay(Hay(a.t, a.v)), TypedHay(Hay(b.t, b.v)))
         ELSE a.t = b.t /\ a.v = b.v)
     ELSE /\ Len(a.kids) = Len(b.kids)
          /\ IF a.k = "map" THEN a.keys = b.keys ELSE TRUE
          /\ \A j \in 1..Len(a.kids) : TEq(a.kids[j], b.kids[j])
MixedNums(a, b) == a.k = "s" /\ b.k = "s" /\ a.t # b.t /\ a.t \in {"int", "float", "bool"} /\ b.t \in {"int", "float", "bool"}

IsAoHTree(r) == r.k = "seq" /\ Len(r.kids) > 0 /\ r.kids[1].k = "map"
KeyPosT(m, kr) == {j \in 1..Len(m.keys) : m.keys[j] = kr}
HasKeyT(m, kr) == KeyPosT(m, kr) # {}
ValOf(m, kr) == m.kids[CHOOSE j \in KeyPosT(m, kr) : TRUE]
RECURSIVE DedupT(_)
DedupT(kids) == IF Len(kids) = 0 THEN <<>> ELSE
  LET rest == DedupT(SubSeq(kids, 1, Len(kids) - 1)) x == kids[Len(kids)] IN
  IF \E j \in 1..Len(rest) : TEq(rest[j], x) THEN rest ELSE Append(rest, x)
InsertAt(seq, pos, x) ==   \* Python list.insert(pos, x) with 0-based pos (past the end appends)
  IF pos >= Len(seq) THEN Append(seq, x) ELSE SubSeq(seq, 1, pos) \o <<x>> \o SubSeq(seq, pos + 1, Len(seq))

\* per-path overrides (config [rules] / [keys]): cfg.rules / cfg.keys are sequences of [k | path, mode] / [k | path, idkey];
\* a rule names a node by the Hash keys leading to it from the merge point (`path`, or `k` for a key of the root Hash);
\* cfg.at is the key path of the Hash being merged (nodes reached through an Array are not addressed by rules here)
RulesOf(cfg) == IF "rules" \in DOMAIN cfg THEN cfg.rules ELSE <<>>
KeysOf(cfg) == IF "keys" \in DOMAIN cfg THEN cfg.keys ELSE <<>>
RootRuleOf(cfg) == IF "rootrule" \in DOMAIN cfg THEN cfg.rootrule ELSE ""
Tracks(cfg) == "at" \in DOMAIN cfg
AtOf(cfg) == IF Tracks(cfg) THEN cfg.at ELSE <<>>
OffPath == <<"#">>                                   \* below an Array: no rule path reaches here
Deeper(cfg, k) == IF Tracks(cfg) THEN [cfg EXCEPT !.at = IF @ = OffPath THEN OffPath ELSE Append(@, k)] ELSE cfg
BelowArray(cfg) == IF Tracks(cfg) THEN [cfg EXCEPT !.at = OffPath] ELSE cfg
PathOfRule(r) == IF "path" \in DOMAIN r THEN r.path ELSE <<r.k>>
RuleFor(cfg, k) == LET R == RulesOf(cfg) hit == {j \in 1..Len(R) : PathOfRule(R[j]) = AtOf(cfg) \o <<k>>} IN
                   IF ~Tracks(cfg) \/ hit = {} THEN "" ELSE R[CHOOSE j \in hit : TRUE].mode
IdKeyFor(cfg, k) == LET K == KeysOf(cfg) hit == {j \in 1..Len(K) : PathOfRule(K[j]) = AtOf(cfg) \o <<k>>} IN
                    IF ~Tracks(cfg) \/ hit = {} THEN cfg.idkey ELSE K[CHOOSE j \in hit : TRUE].idkey

RECURSIVE MergeVal(_, _, _)
RECURSIVE MergeValAt(_, _, _, _)
RECURSIVE MergeMaps(_, _, _)
RECURSIVE MapFold(_, _, _, _, _, _)
RECURSIVE AoHFold(_, _, _, _, _)
RECURSIVE MergeIntoFirst(_, _, _, _, _, _)

\* the mode that _merge_dicts looks up for a value present on both sides (hash / set / AoH mode, else a per-path rule)
EffMode(val, cfg, k) == LET rule == RuleFor(cfg, k) IN
  IF val.k = "map" THEN (IF rule = "" THEN cfg.hashes ELSE rule)
  ELSE IF val.k = "set" THEN (IF rule = "" THEN cfg.sets ELSE rule)
  ELSE IF IsAoHTree(val) THEN (IF rule = "" THEN cfg.aoh ELSE rule)
  ELSE rule
ShortCircuits(val, cfg, k) == EffMode(val, cfg, k) \in {"left", "right"}

\* ---- hashes: ordered insertion of new keys (the buffer rule of _merge_dicts) ----
\* st = [m, buf, pos, ok, info]
MapFold(st, r, j, cfg, dummy1, dummy2) ==
  IF j > Len(r.keys) \/ ~st.ok THEN st
  ELSE LET kr == r.keys[j] val == r.kids[j] IN
    IF HasKeyT(st.m, kr) THEN
      LET \* write the buffered new keys at position pos, pos+1, ...
          flushed == [m |-> [st.m EXCEPT
                        !.keys = LET F[i \in 0..Len(st.buf)] == IF i = 0 THEN st.m.keys ELSE InsertAt(F[i - 1], st.pos + i - 1, st.buf[i].k) IN F[Len(st.buf)],
                        !.kids = LET G[i \in 0..Len(st.buf)] == IF i = 0 THEN st.m.kids ELSE InsertAt(G[i - 1], st.pos + i - 1, st.buf[i].v) IN G[Len(st.buf)]],
                      pos |-> st.pos + Len(st.buf)]
          cur == ValOf(flushed.m, kr)
          mv == MergeValAt(cur, val, cfg, kr.v)
          at == CHOOSE x \in KeyPosT(flushed.m, kr) : TRUE
          \* merger.py:177-199: a left / right mode `continue`s past the `buffer_pos += 1` at the foot of the loop
          step == IF ShortCircuits(val, cfg, kr.v) THEN 0 ELSE 1
      IN IF ~mv.ok THEN [st EXCEPT !.ok = FALSE, !.info = @ \/ mv.info]
         ELSE MapFold([m |-> [flushed.m EXCEPT !.kids[at] = mv.tr], buf |-> <<>>, pos |-> flushed.pos + step, ok |-> TRUE,
                       info |-> st.info \/ mv.info], r, j + 1, cfg, dummy1, dummy2)
    ELSE MapFold([st EXCEPT !.buf = Append(@, [k |-> kr, v |-> val]), !.pos = @ + 1], r, j + 1, cfg, dummy1, dummy2)

MergeMaps(l, r, cfg) ==
  IF l.k # "map" THEN MErr
  ELSE LET st == MapFold([m |-> l, buf |-> <<>>, pos |-> 0, ok |-> TRUE, info |-> FALSE], r, 1, cfg, 0, 0) IN
    IF ~st.ok THEN [MErr EXCEPT !.info = st.info]
    ELSE [ok |-> TRUE, info |-> st.info,
          tr |-> [st.m EXCEPT !.keys = @ \o [i \in 1..Len(st.buf) |-> st.buf[i].k],
                              !.kids = @ \o [i \in 1..Len(st.buf) |-> st.buf[i].v]]]

\* ---- plain arrays ----
MergeSimple(l, r, cfg) ==
  IF l.k # "seq" THEN MErr
  ELSE IF cfg.arrays = "left" THEN MOK(l)
  ELSE IF cfg.arrays = "right" THEN MOK(r)
  ELSE IF cfg.arrays = "all" THEN MOK([l EXCEPT !.kids = @ \o r.kids])
  ELSE \* unique: right-hand elements the ORIGINAL left-hand array lacks are appended
    LET new == SelectSeq(r.kids, LAMBDA e : ~\E j \in 1..Len(l.kids) : TEq(l.kids[j], e)) IN
    [ok |-> TRUE, tr |-> [l EXCEPT !.kids = @ \o new],
     info |-> \E i \in 1..Len(r.kids), j \in 1..Len(l.kids) : MixedNums(l.kids[j], r.kids[i])]

\* ---- Arrays-of-Hashes ----
\* deep: merge the record into the first left-hand record with an equal identity value, else append
\* Identity values are compared after Nodes.tagless_value / typed_value (merger.py:391-404), which reads "1" as 1
\* and lets True equal 1: the documentation says "identity key", nothing about typed look-alikes.  A comparison
\* between scalars of different types, or with a non-scalar identity value, is informational.
IdOdd(a, b) == a.k # "s" \/ b.k # "s" \/ a.t # b.t
MixedIds(kids, ele, idk) == \E j \in 1..Len(kids) : kids[j].k = "map" /\ HasKeyT(kids[j], idk) /\ IdOdd(ValOf(kids[j], idk), ValOf(ele, idk))
MergeIntoFirst(kids, j, ele, idk, cfg, dummy) ==
  IF j > Len(kids) THEN [ok |-> TRUE, kids |-> Append(kids, ele), info |-> FALSE]
  ELSE IF kids[j].k = "map" /\ HasKeyT(kids[j], idk) /\ TEq(ValOf(kids[j], idk), ValOf(ele, idk)) THEN
       LET mm == MergeMaps(kids[j], ele, cfg) IN
       IF ~mm.ok THEN [ok |-> FALSE, kids |-> kids, info |-> mm.info]
       ELSE [ok |-> TRUE, kids |-> [kids EXCEPT ![j] = mm.tr], info |-> mm.info]
  ELSE MergeIntoFirst(kids, j + 1, ele, idk, cfg, dummy)

AoHFold(st, r, j, idk, cfg) ==   \* st = [kids, ok, info]
  IF j > Len(r.kids) \/ ~st.ok THEN st
  ELSE LET ele == r.kids[j] IN
    IF cfg.aoh = "deep" THEN
      (IF ele.k # "map" THEN [st EXCEPT !.ok = FALSE]                     \* mixed list: not a record, no identity key
       ELSE IF ~HasKeyT(ele, idk) THEN [st EXCEPT !.ok = FALSE]
       ELSE LET m == MergeIntoFirst(st.kids, 1, ele, idk, cfg, 0) IN
            AoHFold([kids |-> m.kids, ok |-> m.ok, info |-> st.info \/ m.info \/ MixedIds(st.kids, ele, idk)], r, j + 1, idk, cfg))
    ELSE IF cfg.aoh = "unique" THEN
      AoHFold([st EXCEPT !.kids = IF \E x \in 1..Len(st.kids) : TEq(st.kids[x], ele) THEN @ ELSE Append(@, ele)], r, j + 1, idk, cfg)
    ELSE AoHFold([st EXCEPT !.kids = Append(@, ele)], r, j + 1, idk, cfg)

MergeAoH(l, r, cfg) ==
  IF l.k # "seq" THEN MErr
  ELSE IF cfg.aoh = "left" THEN MOK(l)
  ELSE IF cfg.aoh = "right" THEN MOK(r)
  ELSE LET first == r.kids[1]
           idk == IF cfg.idkey # "" THEN [t |-> "str", v |-> cfg.idkey]
                  ELSE IF Len(first.keys) > 0 THEN first.keys[1] ELSE [t |-> "str", v |-> ""]
           st == AoHFold([kids |-> l.kids, ok |-> TRUE, info |-> FALSE], r, 1, idk, BelowArray(cfg))
       IN IF ~st.ok THEN [MErr EXCEPT !.info = st.info] ELSE [ok |-> TRUE, tr |-> [l EXCEPT !.kids = st.kids], info |-> st.info]

MergeLists(l, r, cfg) ==
  IF Len(r.kids) = 0 THEN (IF l.k # "seq" THEN MErr ELSE MOK(l))
  ELSE IF IsAoHTree(r) THEN MergeAoH(l, r, cfg) ELSE MergeSimple(l, r, cfg)

\* ---- sets ----
MergeSets(l, r, cfg) ==
  IF l.k # "set" THEN MErr
  ELSE IF cfg.sets = "left" THEN MOK(l)
  ELSE IF cfg.sets = "right" THEN MOK(r)
  ELSE MOK([l EXCEPT !.kids = @ \o SelectSeq(r.kids, LAMBDA e : ~\E j \in 1..Len(l.kids) : TEq(l.kids[j], e))])

\* ---- a value present on both sides under the same Hash key (_merge_dicts 176-243) ----
MergeVal(l, r, cfg) ==
  IF r.k = "map" THEN
    (IF cfg.hashes = "left" THEN MOK(l) ELSE IF cfg.hashes = "right" THEN MOK(r) ELSE MergeMaps(l, r, cfg))
  ELSE IF r.k = "set" THEN
    (IF cfg.sets = "left" THEN MOK(l) ELSE IF cfg.sets = "right" THEN MOK(r) ELSE MergeSets(l, r, cfg))
  ELSE IF IsAoHTree(r) THEN
    (IF cfg.aoh = "left" THEN MOK(l) ELSE IF cfg.aoh = "right" THEN MOK(r) ELSE MergeAoH(l, r, cfg))
  ELSE IF r.k = "seq" THEN MergeLists(l, r, cfg)
  ELSE MOK(r)                                   \* right-hand scalars override

\* ---- the same, for a key of the root Hash that a per-path rule / identity key names (precedence: rules > CLI) ----
MergeValAt(l, r, cfg, k) ==
  LET rule == RuleFor(cfg, k) idk == IdKeyFor(cfg, k) inner == Deeper(cfg, k) IN
  IF rule = "" /\ idk = cfg.idkey THEN MergeVal(l, r, inner)
  ELSE IF r.k = "map" THEN
    (LET m == IF rule = "" THEN cfg.hashes ELSE rule IN
     IF m = "left" THEN MOK(l) ELSE IF m = "right" THEN MOK(r) ELSE MergeMaps(l, r, inner))
  ELSE IF r.k = "set" THEN MergeVal(l, r, [inner EXCEPT !.sets = IF rule = "" THEN @ ELSE rule])
  ELSE IF IsAoHTree(r) THEN MergeVal(l, r, [inner EXCEPT !.aoh = IF rule = "" THEN @ ELSE rule, !.idkey = idk])
  ELSE IF r.k = "seq" THEN
    \* a plain Array: a left/right rule short-circuits (rule_merge_mode), any other rule is its array mode
    (IF rule = "left" THEN MOK(l) ELSE IF rule = "right" THEN MOK(r)
     ELSE MergeLists(l, r, [inner EXCEPT !.arrays = IF rule = "" THEN @ ELSE rule]))
  ELSE (IF rule = "left" THEN MOK(l) ELSE MOK(r))

\* ---- the document roots (merge_with / _insert_dict / _insert_list / _insert_set / _insert_scalar) ----
IsNullT(x) == x.k = "s" /\ x.t = "null"
MergeRoot(l, r, cfg) ==
  IF IsNullT(r) THEN MOK(l)
  ELSE IF IsNullT(l) THEN MOK(r)
  ELSE IF r.k = "map" THEN
    (IF l.k = "seq" THEN MergeLists(l, [NewCont("seq") EXCEPT !.kids = <<r>>], cfg)
     ELSE IF l.k = "set" THEN MErr
     ELSE IF l.k = "map" THEN
        \* a rule addressed to the merge point itself governs the two root Hashes (merger.py:694-709); nothing beneath them
        (LET rr == RootRuleOf(cfg) IN
         IF rr = "left" THEN MOK(l) ELSE IF rr = "right" THEN MOK(r) ELSE IF rr = "deep" THEN MergeMaps(l, r, cfg) ELSE MergeVal(l, r, cfg))
     ELSE MErr)
  ELSE IF r.k = "seq" THEN
    (IF l.k = "seq" THEN MergeLists(l, r, cfg)
     ELSE IF l.k = "set" THEN
        (IF \E j \in 1..Len(r.kids) : r.kids[j].k # "s" THEN MErr          \* complex elements cannot be Set members
         ELSE MergeSets(l, [NewCont("set") EXCEPT !.kids = DedupT(r.kids)], cfg))
     ELSE MErr)
  ELSE IF r.k = "set" THEN
    (IF l.k = "seq" THEN MergeLists(l, [NewCont("seq") EXCEPT !.kids = r.kids], cfg)
     ELSE IF l.k = "map" THEN
        MergeMaps(l, [NewCont("map") EXCEPT !.keys = [j \in 1..Len(r.kids) |-> [t |-> r.kids[j].t, v |-> r.kids[j].v]],
                                          !.kids = [j \in 1..Len(r.kids) |-> NewScalar("null", "")]], cfg)
     ELSE MergeSets(l, r, cfg))
  ELSE \* right-hand scalar
    (IF l.k = "seq" THEN MOK([l EXCEPT !.kids = Append(@, r)])
     ELSE IF l.k = "set" THEN
        (IF cfg.sets = "unique" THEN MergeSets(l, [NewCont("set") EXCEPT !.kids = <<r>>], cfg) ELSE MInfo(l))
     ELSE IF l.k = "map" THEN MErr
     ELSE MInfo(l))                             \* scalar into scalar at the root: silent corner

(***************************************************************************)
(* Anchor conflicts (property C10): Merger._resolve_anchor_conflicts       *)
(* (merger.py:518-612) with Anchors.rename_anchor / replace_anchor         *)
(* (common/anchors.py:44-143), for scalar anchors.                         *)
(*   stop   -> merge error when a name has different values on both sides  *)
(*   left   -> every right-hand node of that name takes the left value     *)
(*   right  -> every left-hand node of that name takes the right value     *)
(*   rename -> the right-hand name becomes a fresh one at its definition   *)
(*             and all of its aliases                                      *)
(***************************************************************************)
RECURSIVE NodesOfT(_)
NodesOfT(tr) == <<tr>> \o Flatten([j \in 1..Len(tr.kids) |-> NodesOfT(tr.kids[j])])
AnchorNames(tr) == {NodesOfT(tr)[j].anchor : j \in 1..Len(NodesOfT(tr))} \ {""}
AnchorNode(tr, a) == LET ns == NodesOfT(tr) IN ns[CHOOSE j \in 1..Len(ns) : ns[j].anchor = a /\ \A x \in 1..Len(ns) : ns[x].anchor = a => j <= x]
RECURSIVE SetAnchorVal(_, _, _, _)
SetAnchorVal(tr, a, t, v) ==
  IF tr.k = "s" THEN (IF tr.anchor = a THEN [tr EXCEPT !.t = t, !.v = v] ELSE tr)
  ELSE [tr EXCEPT !.kids = [j \in 1..Len(tr.kids) |-> SetAnchorVal(tr.kids[j], a, t, v)]]
RECURSIVE RenameAnchorT(_, _, _)
RenameAnchorT(tr, a, b) ==
  [tr EXCEPT !.anchor = IF @ = a THEN b ELSE @, !.kids = [j \in 1..Len(tr.kids) |-> RenameAnchorT(tr.kids[j], a, b)]]
RECURSIVE UniqueName(_, _, _)
UniqueName(a, known, aid) == IF a \notin known THEN a ELSE UniqueName(a \o "_" \o NatStr(aid), known, aid + 1)
ConflictNames(l, r) == {a \in AnchorNames(l) \cap AnchorNames(r) : ~TEq(AnchorNode(l, a), AnchorNode(r, a))}

RECURSIVE FoldNames(_, _, _, _)
FoldNames(names, tr, other, mode) ==   \* apply the resolution for every conflicting name (names: a set)
  IF names = {} THEN tr
  ELSE LET a == CHOOSE x \in names : TRUE IN
       FoldNames(names \ {a},
                 IF mode = "rename" THEN RenameAnchorT(tr, a, UniqueName(a, AnchorNames(tr) \cup AnchorNames(other), 1))
                 ELSE SetAnchorVal(tr, a, AnchorNode(other, a).t, AnchorNode(other, a).v),
                 other, mode)

\* result: [ok, l, r]
ResolveAnchors(l, r, mode) ==
  LET cn == ConflictNames(l, r) IN
  IF cn = {} THEN [ok |-> TRUE, l |-> l, r |-> r]
  ELSE IF mode = "stop" THEN [ok |-> FALSE, l |-> l, r |-> r]
  ELSE IF mode = "left" THEN [ok |-> TRUE, l |-> l, r |-> FoldNames(cn, r, l, "left")]
  ELSE IF mode = "right" THEN [ok |-> TRUE, l |-> FoldNames(cn, l, r, "right"), r |-> r]
  ELSE [ok |-> TRUE, l |-> l,
        r |-> LET known == AnchorNames(l) \cup AnchorNames(r)
                  RECURSIVE Ren(_, _)
                  Ren(names, tr) == IF names = {} THEN tr ELSE
                     LET a == CHOOSE x \in names : TRUE IN Ren(names \ {a}, RenameAnchorT(tr, a, UniqueName(a, known, 1)))
              IN Ren(cn, r)]

MergeDocs(l, r, cfg, amode) ==
  IF IsNullT(r) THEN MOK(l)
  ELSE IF IsNullT(l) THEN MOK(r)
  ELSE LET ra == ResolveAnchors(l, r, amode) IN
       IF ~ra.ok THEN MErr ELSE MergeRoot(ra.l, ra.r, cfg)

(***************************************************************************)
(* A merge aimed at a path (property C11): merger.py:795-890.  Targets are *)
(* what an optional-match query of the path finds in the left document;    *)
(* each becomes the policy-defined merge of its content with the           *)
(* right-hand document; a missing straight path is created to hold it; a   *)
(* path that matches nothing and cannot be created is a merge error.       *)
(***************************************************************************)
RECURSIVE MergeTargets(_, _, _, _, _)
MergeTargets(d, ids, j, r, cfg) ==   \* fold over the targets (outermost first; ids are pre-order)
  IF j > Len(ids) THEN [ok |-> TRUE, doc |-> d, info |-> FALSE]
  ELSE LET rest == MergeTargets(d, ids, j + 1, r, cfg) IN      \* later (deeper / following) targets first: ids stay valid
       IF ~rest.ok THEN rest
       ELSE LET cur == TreeOf(rest.doc, ids[j])
                m == IF IsNullT(cur) THEN MInfo(cur) ELSE MergeRoot(cur, r, cfg) IN
            IF ~m.ok THEN [ok |-> FALSE, doc |-> d, info |-> m.info]
            ELSE [ok |-> TRUE, doc |-> TabOf(TreeReplace(rest.doc, Root, ids[j], m.tr)), info |-> rest.info \/ m.info]

MergeAt(l, r, segs, cfg) ==   \* l: node table, r: tree; result [ok, doc, info]
  LET sel == Sel(l, segs) ids == FlatIds(sel.res) IN
  IF IsNullT(r) THEN [ok |-> TRUE, doc |-> l, info |-> FALSE]
  ELSE IF sel.err # "" THEN [ok |-> FALSE, doc |-> l, info |-> sel.info]
  ELSE IF Len(ids) > 0 THEN
    (IF sel.dead \/ (\E j \in 1..Len(sel.res) : IsVirt(sel.res[j])) \/ (\E a, b \in 1..Len(ids) : a # b /\ IsUnder(l, ids[a], ids[b]))
     THEN [ok |-> TRUE, doc |-> l, info |-> TRUE]          \* dead branches / virtual / nested targets: silent corners
     ELSE LET mt == MergeTargets(l, ids, 1, r, cfg) IN [mt EXCEPT !.info = @ \/ sel.info])
  ELSE LET c == CreatePathT(l, segs, r) IN
       IF c.ok THEN [ok |-> TRUE, doc |-> c.doc, info |-> sel.info]
       ELSE [ok |-> FALSE, doc |-> l, info |-> c.why \notin {"yperr", "notstraight"}]
=============================================================================
