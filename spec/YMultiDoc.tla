------------------------------ MODULE YMultiDoc ------------------------------
(***************************************************************************)
(* C18 - the three multi-document drivers of yaml-merge                    *)
(* (yamlpath/commands/yaml_merge.py: merge_condense_all 385-417,           *)
(* merge_across 419-446, merge_matrix 448-466, merge_docs 468-490 and the  *)
(* file loop of main() 512-548) as ONE step machine over lists of          *)
(* documents, with one event per pairwise merge in loop order.             *)
(*                                                                         *)
(* Documents are abstracted twice:                                         *)
(*  - PROVENANCE: a document is the sequence of source-document ids it was *)
(*    folded from; the pairwise merge is concatenation.  Number, order and *)
(*    multiplicity of pairwise merges are then observable independent of   *)
(*    content.  The property's theorems are stated on provenance.          *)
(*  - CONTENT ("marker documents"): source document k is                   *)
(*        full : {d<k>: k, shared: k, lst: [k]}        (Hash-rooted)        *)
(*        bare : {d<k>: k, shared: k}                                       *)
(*        seq  : [0, k]     sequ : [k]                 (Array-rooted)       *)
(*        set  : !!set {0, k}   setu : !!set {k}       (Set-rooted)         *)
(*        empty: the empty document (None)                                  *)
(*    and PMerge is the C05 merge restricted to these families (disjoint   *)
(*    d-keys, one shared scalar, one list; root-level Arrays and Sets that *)
(*    share the element 0) under the sampled policies.  A stream mixes     *)
(*    documents of ONE family with empty ones (merging different root      *)
(*    types is a MergeException and outside C18).  The Array and Set       *)
(*    families are the ones where a pairwise step REPLACES the root object *)
(*    of the left document (arrays unique with a duplicate, arrays right,  *)
(*    sets right; hashes right does so for Hashes).                        *)
(*    Content(prov) - the fold of PMerge along a provenance - is what the  *)
(*    harness reads back from Merger.data / stdout.                        *)
(*                                                                         *)
(* A third, MIRRORED, layer (heap) follows what the pinned code does with  *)
(* object references: merge_with stores RHS nodes in LHS *by reference*    *)
(* (merger.py:838 self.data = rhs; :263 lhs[b_key] = b_val; :299 return    *)
(* rhs; :656 merged_data = rhs) and appends in place (:325/:327).  The     *)
(* state field `copy` selects the design: FALSE reproduces the pinned code,*)
(* TRUE is the repaired design (every pairwise step receives a private     *)
(* copy of the RHS data).                                                  *)
(***************************************************************************)
EXTENDS Naturals, Sequences, FiniteSets

Modes    == {"condense_all", "merge_across", "matrix_merge"}
Kinds    == {"full", "bare", "seq", "sequ", "set", "setu", "empty"}
HashPols == {"deep", "left", "right"}
ArrPols  == {"all", "unique", "left", "right"}
SetPols  == {"unique", "left", "right"}
Pol(h, a, sp) == [hashes |-> h, arrays |-> a, sets |-> sp]
DefaultPol == Pol("deep", "all", "unique")
RootOf(kind) == CASE kind \in {"full", "bare"} -> "map" [] kind \in {"seq", "sequ"} -> "seq"
                  [] kind \in {"set", "setu"} -> "set" [] OTHER -> "-"

Max(a, b) == IF a > b THEN a ELSE b
Min(a, b) == IF a < b THEN a ELSE b
Range(s)  == {s[p] : p \in DOMAIN s}
\* an explicit tuple instead of TLC's lazily evaluated function value (a long fold that applies
\* EXCEPT to a lazy function builds a chain as deep as the fold)
Tup(f)    == SubSeq(f, 1, Len(f))
RECURSIVE SortedSeq(_)
SortedSeq(S) == IF S = {} THEN <<>>
                ELSE LET m == CHOOSE x \in S : \A y \in S : x <= y IN <<m>> \o SortedSeq(S \ {m})

(***************************************************************************)
(* CONTENT: marker documents and their pairwise (C05) merge                *)
(***************************************************************************)
Null == [nul |-> TRUE, root |-> "-", keys |-> {}, shared |-> 0, lst |-> <<>>]
\* the list a source document carries (the lst key of a Hash, the elements of an Array, the
\* members of a Set in ascending order)
SrcList(k, kind) == CASE kind = "full" -> <<k>> [] kind \in {"seq", "set"} -> <<0, k>>
                      [] kind \in {"sequ", "setu"} -> <<k>> [] OTHER -> <<>>
Src(k, kind) ==
  IF kind = "empty" THEN Null
  ELSE IF RootOf(kind) = "map"
       THEN [nul |-> FALSE, root |-> "map", keys |-> {k}, shared |-> k, lst |-> SrcList(k, kind)]
       ELSE [nul |-> FALSE, root |-> RootOf(kind), keys |-> {}, shared |-> 0, lst |-> SrcList(k, kind)]

\* merger.py:271-328 _merge_simple_lists (both lists present, RHS non-empty)
ArrMerge(a, b, ap) ==
  CASE ap = "left"   -> a
    [] ap = "right"  -> b
    [] ap = "all"    -> a \o b
    [] ap = "unique" -> a \o SelectSeq(b, LAMBDA x : \A p \in DOMAIN a : a[p] # x)

\* merger.py:812-890 merge_with at the document root, 614-670 _insert_dict, 106-269 _merge_dicts
PMerge(a, b, pol) ==
  IF b.nul THEN a                                  \* :825 RHS empty: nothing happens
  ELSE IF a.nul THEN b                             \* :834 LHS empty: RHS is taken whole, whatever the policy
  ELSE IF a.root # b.root THEN [a EXCEPT !.root = "err"]   \* MergeException: outside the domain of C18
  ELSE IF a.root = "seq" THEN [a EXCEPT !.lst = ArrMerge(a.lst, b.lst, pol.arrays)]   \* :672-711 _insert_list
  ELSE IF a.root = "set" THEN                      \* :713-756 _insert_set, 451-511 _merge_sets
       CASE pol.sets = "left"   -> a
         [] pol.sets = "right"  -> b
         [] pol.sets = "unique" -> [a EXCEPT !.lst = SortedSeq(Range(a.lst) \cup Range(b.lst))]
  ELSE IF pol.hashes = "left" THEN a               \* :645
  ELSE IF pol.hashes = "right" THEN b              \* :651
  ELSE [nul |-> FALSE, root |-> "map", keys |-> a.keys \cup b.keys, shared |-> b.shared,
        lst |-> IF b.lst = <<>> THEN a.lst
                ELSE IF a.lst = <<>> THEN b.lst
                ELSE ArrMerge(a.lst, b.lst, pol.arrays)]

RECURSIVE ContentFrom(_, _, _, _, _)
ContentFrom(acc, prov, n, kinds, pol) ==
  IF n > Len(prov) THEN acc
  ELSE LET nx == PMerge(acc, Src(prov[n], kinds[prov[n]]), pol)
       IN IF nx.nul \in BOOLEAN             \* forces nx now (TLC passes arguments lazily)
          THEN ContentFrom(nx, prov, n + 1, kinds, pol) ELSE nx
\* the document a provenance denotes: source documents merged left to right
Content(prov, kinds, pol) == ContentFrom(Null, prov, 1, kinds, pol)

\* the sub-sequence of a provenance that leaves a trace in the data
Visible(prov, kinds)  == SelectSeq(prov, LAMBDA k : kinds[k] # "empty")
WithList(prov, kinds) == SelectSeq(prov, LAMBDA k : SrcList(k, kinds[k]) # <<>>)
RECURSIVE ListsOf(_, _)
ListsOf(prov, kinds) == IF prov = <<>> THEN <<>> ELSE SrcList(Head(prov), kinds[Head(prov)]) \o ListsOf(Tail(prov), kinds)
\* a pairwise merge of these two source kinds is defined (same root type, or one side empty)
SameFamily(kinds) == \A x \in Range(kinds), y \in Range(kinds) : x = "empty" \/ y = "empty" \/ RootOf(x) = RootOf(y)

(***************************************************************************)
(* MIRRORED heap: Merger objects point at document cells, document cells   *)
(* at list cells.  Merger k is the Merger built for source document k      *)
(* (get_doc_mergers:381); the accumulator at an LHS position is the Merger *)
(* of the first document of its provenance.                                *)
(***************************************************************************)
HInit(kinds) ==
  [dp |-> Tup([k \in 1..Len(kinds) |-> IF kinds[k] = "empty" THEN 0 ELSE k]),
   dc |-> Tup([k \in 1..Len(kinds) |-> IF RootOf(kinds[k]) \in {"seq", "set"}
                                          THEN [root |-> RootOf(kinds[k]), keys |-> {}, shared |-> 0, lp |-> k]
                                          ELSE [root |-> "map", keys |-> {k}, shared |-> k, lp |-> IF kinds[k] = "full" THEN k ELSE 0]]),
   lc |-> Tup([k \in 1..Len(kinds) |-> SrcList(k, kinds[k])]),
   div |-> FALSE]      \* TRUE once a step would never return (a list appended to itself, :302/:327)

HContentOfCell(h, c) ==
  IF c = 0 THEN Null
  ELSE [nul |-> FALSE, root |-> h.dc[c].root, keys |-> h.dc[c].keys, shared |-> h.dc[c].shared,
        lst |-> IF h.dc[c].lp = 0 THEN <<>>
                ELSE IF h.dc[c].root = "set" THEN SortedSeq(Range(h.lc[h.dc[c].lp])) ELSE h.lc[h.dc[c].lp]]
HContent(h, m) == HContentOfCell(h, h.dp[m])

\* a private copy of the document in cell c (the repaired design's deepcopy)
HCopy(h, c) ==
  LET nl == Len(h.lc) + 1 IN
  IF h.dc[c].lp = 0 THEN [h EXCEPT !.dc = Append(@, h.dc[c])]
  ELSE [h EXCEPT !.lc = Append(@, h.lc[h.dc[c].lp]), !.dc = Append(@, [h.dc[c] EXCEPT !.lp = nl])]

\* merger.py:308-326: ArrayMergeOpts.UNIQUE - tagless_lhs is computed once; an element already
\* present rebuilds the list as a NEW object, an absent one is appended in place.
RECURSIVE HUnique(_, _, _, _, _)
HUnique(h, cur, snapshot, b, n) ==
  IF n > Len(b) THEN [h |-> h, cur |-> cur]
  ELSE IF b[n] \in Range(snapshot)
       THEN HUnique([h EXCEPT !.lc = Append(@, h.lc[cur])], Len(h.lc) + 1, snapshot, b, n + 1)
       ELSE HUnique([h EXCEPT !.lc[cur] = Append(@, b[n])], cur, snapshot, b, n + 1)

\* accumulator Merger a .merge_with( data of cell rb )
HMergeCell(h, a, rb, pol) ==
  IF rb = 0 THEN h                                               \* :825
  ELSE IF h.dp[a] = 0 THEN [h EXCEPT !.dp[a] = rb]               \* :838 self.data = rhs (the same object)
  ELSE IF h.dc[h.dp[a]].root = "seq" THEN
       \* root-level Arrays (a document cell of root "seq" stands for the list object itself and is never
       \* modified; a step that builds a NEW list gives the Merger a new cell - self.data = merged_data :710)
       LET A == h.dc[h.dp[a]]  B == h.dc[rb] IN
       CASE pol.arrays = "left"  -> h
         [] pol.arrays = "right" -> [h EXCEPT !.dp[a] = rb]                                   \* :299 return rhs
         [] pol.arrays = "all"   -> IF A.lp = B.lp THEN [h EXCEPT !.div = TRUE]
                                    ELSE [h EXCEPT !.lc[A.lp] = @ \o h.lc[B.lp]]
         [] pol.arrays = "unique" ->
              LET u == HUnique(h, A.lp, h.lc[A.lp], h.lc[B.lp], 1) IN
              IF u.cur = A.lp THEN u.h
              ELSE [u.h EXCEPT !.dc = Append(@, [A EXCEPT !.lp = u.cur]), !.dp[a] = Len(u.h.dc) + 1]
  ELSE IF h.dc[h.dp[a]].root = "set" THEN
       LET A == h.dc[h.dp[a]]  B == h.dc[rb] IN
       CASE pol.sets = "left"   -> h
         [] pol.sets = "right"  -> [h EXCEPT !.dp[a] = rb]                                    \* :484 return rhs
         [] pol.sets = "unique" ->                                                            \* :510 lhs.add(ele)
              [h EXCEPT !.lc[A.lp] = @ \o SelectSeq(h.lc[B.lp], LAMBDA x : x \notin Range(h.lc[A.lp]))]
  ELSE IF pol.hashes = "left" THEN h
  ELSE IF pol.hashes = "right" THEN [h EXCEPT !.dp[a] = rb]      \* :656 merged_data = rhs
  ELSE LET ca == h.dp[a]  A == h.dc[ca]  B == h.dc[rb]
           h1 == [h EXCEPT !.dc[ca].keys = A.keys \cup B.keys, !.dc[ca].shared = B.shared]
       IN IF B.lp # 0 /\ A.lp = B.lp /\ pol.arrays = "all"
            THEN [h1 EXCEPT !.div = TRUE]    \* `for ele in rhs: lhs.append(ele)` with lhs is rhs: never ends
          ELSE IF B.lp = 0 THEN h1
          ELSE IF A.lp = 0 THEN [h1 EXCEPT !.dc[ca].lp = B.lp]   \* :263 lhs[b_key] = b_val (shared list object)
          ELSE CASE pol.arrays = "left"  -> h1
                 [] pol.arrays = "right" -> [h1 EXCEPT !.dc[ca].lp = B.lp]              \* :299 return rhs
                 [] pol.arrays = "all"   -> [h1 EXCEPT !.lc[A.lp] = @ \o h1.lc[B.lp]]  \* :327 lhs.append(ele)
                 [] pol.arrays = "unique" ->
                      LET u == HUnique(h1, A.lp, h1.lc[A.lp], h1.lc[B.lp], 1)
                      IN [u.h EXCEPT !.dc[ca].lp = u.cur]

\* accumulator Merger a .merge_with( Merger b .data )
HMerge(h, a, b, pol, copy) ==
  IF h.dp[b] = 0 THEN h
  ELSE IF copy THEN HMergeCell(HCopy(h, h.dp[b]), a, Len(h.dc) + 1, pol)
  ELSE HMergeCell(h, a, h.dp[b], pol)

(***************************************************************************)
(* The declarative definition of the three modes (the property statement)  *)
(***************************************************************************)
Singles(ids) == Tup([p \in 1..Len(ids) |-> <<ids[p]>>])
RECURSIVE Flat(_)
Flat(ss) == IF ss = <<>> THEN <<>> ELSE Head(ss) \o Flat(Tail(ss))

\* one more right-hand stream R (document ids) merged into the accumulated left-hand stream acc
Combine(mode, acc, R) ==
  CASE mode = "condense_all" -> << Flat(acc) \o R >>
    [] mode = "merge_across" ->
         [p \in 1..Max(Len(acc), Len(R)) |->
            (IF p <= Len(acc) THEN acc[p] ELSE <<>>) \o (IF p <= Len(R) THEN <<R[p]>> ELSE <<>>)]
    [] mode = "matrix_merge" -> [p \in 1..Len(acc) |-> acc[p] \o R]

RECURSIVE ExpectedUpTo(_, _, _)
ExpectedUpTo(mode, files, f) ==
  IF f = 1 THEN (IF mode = "condense_all" THEN << files[1] >> ELSE Singles(files[1]))
  ELSE Combine(mode, ExpectedUpTo(mode, files, f - 1), files[f])
\* files[1] is the left stream, files[2..] the right streams in command-line order
Expected(mode, files) == ExpectedUpTo(mode, files, Len(files))

\* number of output documents and of pairwise merges: functions of the mode and the LENGTHS only
RECURSIVE OutCountUpTo(_, _, _)
OutCountUpTo(mode, lens, f) ==
  IF mode = "condense_all" THEN 1
  ELSE IF f = 1 THEN lens[1]
  ELSE IF mode = "merge_across" THEN Max(OutCountUpTo(mode, lens, f - 1), lens[f])
  ELSE lens[1]
OutCount(mode, lens) == OutCountUpTo(mode, lens, Len(lens))

RECURSIVE SumTo(_, _)
SumTo(lens, f) == IF f = 0 THEN 0 ELSE lens[f] + SumTo(lens, f - 1)
RECURSIVE MergeCountUpTo(_, _, _)
MergeCountUpTo(mode, lens, f) ==
  IF f = 1 THEN 0
  ELSE MergeCountUpTo(mode, lens, f - 1)
       + (IF mode = "merge_across" THEN Min(OutCountUpTo(mode, lens, f - 1), lens[f]) ELSE lens[1] * lens[f])
MergeCount(mode, lens) ==
  IF mode = "condense_all" THEN SumTo(lens, Len(lens)) - 1 ELSE MergeCountUpTo(mode, lens, Len(lens))

(***************************************************************************)
(* The step machine.  State:                                               *)
(*   pc     "START" nothing loaded | "IDLE" between files | "RUN" inside a *)
(*          driver | "DONE" output written | "REJECT"                      *)
(*   files  the streams (sequences of document ids) in processing order    *)
(*   f      number of streams loaded so far                                *)
(*   lhs    main()'s `mergers`: provenance of each accumulator             *)
(*   rhs    the stream loaded by merge_docs (document ids)                 *)
(*   phase, i, j   loop position inside the driver                         *)
(*   nmerge main()'s merge_count; lone: the single-file condense was run   *)
(*   n      pairwise merges so far;  heap: the mirrored object graph       *)
(***************************************************************************)
Ev(kind, f, i, j, ids, pol) == [kind |-> kind, f |-> f, i |-> i, j |-> j, ids |-> ids, pol |-> pol]
Reject(s) == [s EXCEPT !.pc = "REJECT"]

\* control transitions that perform no pairwise merge (loop exits, list truncation, the
\* `merge_count == 0` branch of main():544-548)
RECURSIVE Settle(_)
Settle(s) ==
  IF s.pc = "RUN" THEN
    IF s.mode = "condense_all" /\ s.phase = "L" /\ s.i > Len(s.lhs)
      THEN Settle([s EXCEPT !.lhs = <<s.lhs[1]>>, !.phase = "R", !.j = 1])       \* :402-404 del lhs_docs[i]
    ELSE IF \/ s.mode = "condense_all" /\ s.phase = "R" /\ s.j > Len(s.rhs)
            \/ s.mode = "merge_across" /\ s.i > Len(s.rhs)                       \* :430 break / end of range
            \/ s.mode = "matrix_merge" /\ s.i > Len(s.lhs)
      THEN Settle([s EXCEPT !.pc = "IDLE", !.rhs = <<>>, !.phase = "-",
                            !.nmerge = IF s.lone THEN @ ELSE @ + 1])
    ELSE IF s.mode = "matrix_merge" /\ s.j > Len(s.rhs)
      THEN Settle([s EXCEPT !.i = @ + 1, !.j = 1])
    ELSE s
  ELSE IF s.pc = "IDLE" /\ s.f = Len(s.files) /\ s.mode = "condense_all" /\ s.nmerge = 0 /\ ~s.lone
    THEN Settle([s EXCEPT !.pc = "RUN", !.lone = TRUE, !.rhs = <<>>, !.phase = "L", !.i = 2, !.j = 1])  \* :548
  ELSE s

MInit(mode, pol, files, kinds, copy) ==
  [pc |-> "START", mode |-> mode, pol |-> pol, copy |-> copy, files |-> files, kinds |-> kinds, f |-> 0,
   lhs |-> <<>>, rhs |-> <<>>, phase |-> "-", i |-> 0, j |-> 0, nmerge |-> 0, lone |-> FALSE, n |-> 0,
   heap |-> HInit(kinds), out |-> <<>>]

\* get_doc_mergers:361-383 - what the recorder sees of a freshly loaded stream: the marker of
\* each document, 0 for an empty one
LoadMatches(s, f, ids) ==
  /\ Len(ids) = Len(s.files[f])
  /\ \A p \in 1..Len(ids) : \/ ids[p] = s.files[f][p] /\ s.kinds[ids[p]] # "empty"
                            \/ ids[p] = 0 /\ s.kinds[s.files[f][p]] = "empty"

Acc(s, p) == Head(s.lhs[p])     \* the Merger object that accumulates LHS position p

MStep(s, e) ==
  CASE e.kind = "Load" ->
         IF s.pc \in {"START", "IDLE"} /\ s.f < Len(s.files) /\ e.f = s.f + 1 /\ LoadMatches(s, e.f, e.ids)
         THEN IF s.f = 0
              THEN Settle([s EXCEPT !.pc = "IDLE", !.f = 1, !.lhs = Singles(s.files[1])])      \* main():520-522
              ELSE Settle([s EXCEPT !.pc = "RUN", !.f = e.f, !.rhs = s.files[e.f],             \* merge_docs:475
                                    !.phase = IF s.mode = "condense_all" THEN "L" ELSE "-",
                                    !.i = IF s.mode = "condense_all" THEN 2 ELSE 1, !.j = 1])
         ELSE Reject(s)
    [] e.kind = "CondenseLhs" ->                                                     \* :392-394
         IF s.pc = "RUN" /\ s.mode = "condense_all" /\ s.phase = "L" /\ e.i = s.i /\ e.pol = s.pol
         THEN Settle([s EXCEPT !.lhs[1] = @ \o s.lhs[e.i], !.i = @ + 1, !.n = @ + 1,
                               !.heap = HMerge(@, Acc(s, 1), Acc(s, e.i), s.pol, s.copy)])
         ELSE Reject(s)
    [] e.kind = "CondenseRhs" ->                                                     \* :407-409
         IF s.pc = "RUN" /\ s.mode = "condense_all" /\ s.phase = "R" /\ e.j = s.j /\ e.pol = s.pol
         THEN Settle([s EXCEPT !.lhs[1] = Append(@, s.rhs[e.j]), !.j = @ + 1, !.n = @ + 1,
                               !.heap = HMerge(@, Acc(s, 1), s.rhs[e.j], s.pol, s.copy)])
         ELSE Reject(s)
    [] e.kind = "Across" ->                                                          \* :436
         IF s.pc = "RUN" /\ s.mode = "merge_across" /\ e.i = s.i /\ e.j = s.i /\ s.i <= Len(s.lhs) /\ e.pol = s.pol
         THEN Settle([s EXCEPT !.lhs[e.i] = Append(@, s.rhs[e.i]), !.i = @ + 1, !.n = @ + 1,
                               !.heap = HMerge(@, Acc(s, e.i), s.rhs[e.i], s.pol, s.copy)])
         ELSE Reject(s)
    [] e.kind = "AcrossAppend" ->                                                    \* :432-434
         IF s.pc = "RUN" /\ s.mode = "merge_across" /\ e.i = s.i /\ s.i > Len(s.lhs) /\ e.j = Len(s.lhs) + 1
         THEN Settle([s EXCEPT !.lhs = Append(@, <<s.rhs[e.i]>>), !.i = @ + 1])
         ELSE Reject(s)
    [] e.kind = "Matrix" ->                                                          \* :453-456
         IF s.pc = "RUN" /\ s.mode = "matrix_merge" /\ e.i = s.i /\ e.j = s.j /\ e.pol = s.pol
         THEN Settle([s EXCEPT !.lhs[e.i] = Append(@, s.rhs[e.j]), !.j = @ + 1, !.n = @ + 1,
                               !.heap = HMerge(@, Acc(s, e.i), s.rhs[e.j], s.pol, s.copy)])
         ELSE Reject(s)
    [] e.kind = "Output" ->                                                          \* main():551-552
         IF s.pc = "IDLE" /\ s.f = Len(s.files)
         THEN [s EXCEPT !.pc = "DONE", !.out = s.lhs]
         ELSE Reject(s)
    [] OTHER -> Reject(s)

\* the one event the machine accepts in state s (it is deterministic); kind "-" when none
NextEvent(s) ==
  IF s.pc \in {"START", "IDLE"} /\ s.f < Len(s.files) THEN Ev("Load", s.f + 1, 0, 0, <<>>, s.pol)
  ELSE IF s.pc = "IDLE" THEN Ev("Output", 0, 0, 0, <<>>, s.pol)
  ELSE IF s.pc # "RUN" THEN Ev("-", 0, 0, 0, <<>>, s.pol)
  ELSE IF s.mode = "condense_all" THEN
         (IF s.phase = "L" THEN Ev("CondenseLhs", 0, s.i, 0, <<>>, s.pol) ELSE Ev("CondenseRhs", 0, 0, s.j, <<>>, s.pol))
  ELSE IF s.mode = "merge_across" THEN
         (IF s.i > Len(s.lhs) THEN Ev("AcrossAppend", 0, s.i, Len(s.lhs) + 1, <<>>, s.pol) ELSE Ev("Across", 0, s.i, s.i, <<>>, s.pol))
  ELSE Ev("Matrix", 0, s.i, s.j, <<>>, s.pol)

\* what the recorder sees when stream f is loaded
ObsIds(s, f) == [p \in 1..Len(s.files[f]) |-> IF s.kinds[s.files[f][p]] = "empty" THEN 0 ELSE s.files[f][p]]

(***************************************************************************)
(* State predicates (invariants) and theorems of the design                *)
(***************************************************************************)
Lens(s) == [f \in 1..Len(s.files) |-> Len(s.files[f])]
NDocs(s) == SumTo(Lens(s), Len(s.files))

TypeOK(s) ==
  /\ s.pc \in {"START", "IDLE", "RUN", "DONE"}
  /\ s.mode \in Modes /\ s.f \in 0..Len(s.files) /\ SameFamily(s.kinds)
  /\ \A p \in 1..Len(s.lhs) : s.lhs[p] # <<>> /\ Range(s.lhs[p]) \subseteq 1..NDocs(s)
  /\ s.pc = "RUN" => /\ s.mode = "condense_all" => (IF s.phase = "L" THEN s.i \in 2..Len(s.lhs) ELSE s.j \in 1..Len(s.rhs))
                     /\ s.mode = "merge_across" => s.i \in 1..Len(s.rhs)
                     /\ s.mode = "matrix_merge" => s.i \in 1..Len(s.lhs) /\ s.j \in 1..Len(s.rhs)

\* no source document is ever folded twice into the same accumulator, and between files the
\* left-hand list is exactly the declarative result for the streams seen so far
InvNoDup(s) == \A p \in 1..Len(s.lhs) : Cardinality(Range(s.lhs[p])) = Len(s.lhs[p])
InvBetweenFiles(s) ==
  s.pc = "IDLE" =>
    IF s.mode = "condense_all" /\ s.f = 1 /\ ~s.lone THEN s.lhs = Singles(s.files[1]) /\ Len(s.files) > 1
    ELSE s.lhs = ExpectedUpTo(s.mode, s.files, s.f)

\* C18 proper: at the end the outputs are what the mode defines ...
ThOutputs(s) == s.pc = "DONE" => s.out = Expected(s.mode, s.files)
\* ... spelt out per mode for two streams L, R (the wording of the statement)
ThTwoStreams(s) ==
  (s.pc = "DONE" /\ Len(s.files) = 2) =>
    LET L == s.files[1] R == s.files[2] IN
    CASE s.mode = "condense_all" -> s.out = << L \o R >>
      [] s.mode = "merge_across" ->
           /\ Len(s.out) = Max(Len(L), Len(R))
           /\ \A p \in 1..Len(s.out) :
                s.out[p] = IF p <= Len(L) /\ p <= Len(R) THEN <<L[p], R[p]>> ELSE IF p <= Len(L) THEN <<L[p]>> ELSE <<R[p]>>
      [] s.mode = "matrix_merge" -> /\ Len(s.out) = Len(L) /\ \A p \in 1..Len(L) : s.out[p] = <<L[p]>> \o R
\* ... and number/order of outputs and the number of pairwise merges depend on mode and lengths only
ThCounts(s) == s.pc = "DONE" => Len(s.out) = OutCount(s.mode, Lens(s)) /\ s.n = MergeCount(s.mode, Lens(s))

\* the provenance abstraction is faithful: under the default policies the data of an output
\* document reads back its provenance (list = documents in merge order with multiplicity,
\* d-keys = the set, shared = the last one)
ThReadBack(s) ==
  (s.pc = "DONE" /\ s.pol = DefaultPol) =>
    \A p \in 1..Len(s.out) :
      LET c == Content(s.out[p], s.kinds, s.pol) v == Visible(s.out[p], s.kinds) IN
      /\ c.nul = (v = <<>>)
      /\ c.root = "map" => /\ c.lst = WithList(s.out[p], s.kinds) /\ c.keys = Range(v)
                            /\ c.shared = v[Len(v)]
      /\ c.root = "seq" => c.lst = ListsOf(s.out[p], s.kinds)              \* arrays all: concatenation
      /\ c.root = "set" => c.lst = SortedSeq(Range(ListsOf(s.out[p], s.kinds)))
      /\ c.root # "err"
\* policy pass-through: with hashes=left|right (Hashes), arrays=left|right (root Arrays), sets=left|right
\* (root Sets) an output is a single source document; arrays=unique gives each element once, in the
\* order of first occurrence
RECURSIVE FirstOccR(_, _)
FirstOccR(seq, acc) == IF seq = <<>> THEN acc
                       ELSE FirstOccR(Tail(seq), IF Head(seq) \in Range(acc) THEN acc ELSE Append(acc, Head(seq)))
FirstOcc(seq) == FirstOccR(seq, <<>>)
ThPolicy(s) ==
  s.pc = "DONE" =>
    \A p \in 1..Len(s.out) :
      LET c == Content(s.out[p], s.kinds, s.pol) v == Visible(s.out[p], s.kinds)
          side == IF c.root = "map" THEN s.pol.hashes ELSE IF c.root = "seq" THEN s.pol.arrays ELSE s.pol.sets IN
      IF v = <<>> THEN c = Null
      ELSE /\ side = "left"  => c = Src(v[1], s.kinds[v[1]])
           /\ side = "right" => c = Src(v[Len(v)], s.kinds[v[Len(v)]])
           /\ (c.root = "seq" /\ side = "unique") => c.lst = FirstOcc(ListsOf(s.out[p], s.kinds))

\* the mirrored object graph agrees with the value semantics (FAILS for matrix_merge in the
\* pinned design copy = FALSE: an RHS document is modified through an alias before it is reused)
ThHeapAgrees(s) ==
  s.pc \in {"IDLE", "RUN", "DONE"} =>
    \A p \in 1..Len(s.lhs) : HContent(s.heap, Acc(s, p)) = Content(s.lhs[p], s.kinds, s.pol)
\* every pairwise step returns (FAILS for matrix_merge in the pinned design: a list that reached an
\* accumulator by reference is merged into it again and is then appended to itself for ever)
ThTerminates(s) == ~s.heap.div
\* every right-hand document is still pristine when it is about to be merged
StillNeeded(s, q) ==
  CASE s.mode = "condense_all" -> s.phase = "L" \/ q >= s.j
    [] s.mode = "merge_across" -> q >= s.i
    [] s.mode = "matrix_merge" -> s.i < Len(s.lhs) \/ q >= s.j
ThRhsPristine(s) ==
  s.pc = "RUN" =>
    \A q \in 1..Len(s.rhs) : StillNeeded(s, q) => HContent(s.heap, s.rhs[q]) = Src(s.rhs[q], s.kinds[s.rhs[q]])
=============================================================================
