---------------------------- MODULE YPathParser ----------------------------
(***************************************************************************)
(* The character state machine of yamlpath.YAMLPath._parse_path            *)
(* (yamlpath/yamlpath.py:330-816) as a pure step function, one IF arm per  *)
(* elif branch of the source, in source order; wildcard expansion          *)
(* (_expand_splats, 819-892); separator inference                          *)
(* (enums/pathseparators.py:101-121).                                      *)
(*                                                                         *)
(* PInit(text, sep, strip) / PStep(ps, c) / PFinish(ps) is the functional  *)
(* core: model checking (MC_Parser) feeds it every character sequence,     *)
(* trace validation (Trace_Parser) folds it along recorded per-character   *)
(* states of the real parser.                                              *)
(*                                                                         *)
(* ps.out: "run" while consuming; "err" = the code raises                  *)
(* YAMLPathException (or its TypeMismatch subclass); "crash" = the code    *)
(* would raise some other exception (an unguarded list operation).         *)
(* GuardedPop = TRUE models the repaired source (the fix: commit which     *)
(* raises YAMLPathException for an unmatched "]"); FALSE models the pinned *)
(* source, where line 762 pops an empty list.                              *)
(***************************************************************************)
EXTENDS YText

CONSTANT GuardedPop

Seg(ty, v) == [ty |-> ty, v |-> v, inv |-> FALSE, op |-> "", attr |-> "", term |-> "", kw |-> "", cop |-> ""]
SearchSeg(inv, op, attr, term) == [ty |-> "SEARCH", v |-> "", inv |-> inv, op |-> op, attr |-> attr, term |-> term, kw |-> "", cop |-> ""]
KeywordSeg(inv, kw, params) == [ty |-> "KEYWORD", v |-> params, inv |-> inv, op |-> "", attr |-> "", term |-> "", kw |-> kw, cop |-> ""]
CollectorSeg(expr, cop) == [ty |-> "COLLECTOR", v |-> expr, inv |-> FALSE, op |-> "", attr |-> "", term |-> "", kw |-> "", cop |-> cop]
ErrSeg == Seg("ERR", "")

Keywords == {"distinct", "has_child", "name", "max", "min", "parent", "unique"}
Quotes == {"'", "\""}

InferSep(text, sep) ==   \* separator actually used: "." or "/"
  IF sep = "auto" THEN (IF text # "" /\ Ch(text, 1) = "/" THEN "/" ELSE ".")
  ELSE IF sep = "fslash" THEN "/" ELSE "."

(* _expand_splats: returns a segment, or ErrSeg for "**" mixed with text *)
RECURSIVE MultiSplat(_, _, _)
MultiSplat(id, was, acc) ==   \* returns "" on error (acc always starts with "^")
  IF id = "" THEN acc \o "$"
  ELSE IF Ch(id, 1) = "*" THEN (IF was THEN "" ELSE MultiSplat(Tail(id), TRUE, acc \o ".*"))
  ELSE MultiSplat(Tail(id), FALSE, acc \o Ch(id, 1))

ExpandSplats(id, ty) ==
  IF ~HasChar(id, "*") THEN Seg(IF ty \in {"KEY", "ANCHOR"} THEN ty ELSE IF ty = "INDEX" THEN "SLICE" ELSE "RAW_" \o ty, id)
  ELSE LET n == CountChar(id, "*") pos == IndexFrom(id, "*", 1) len == Len(id) IN
    IF n = 1 THEN
      IF len = 1 THEN Seg("MATCH_ALL", "")
      ELSE IF pos = 1 THEN SearchSeg(FALSE, "$", ".", Tail(id))
      ELSE IF pos = len THEN SearchSeg(FALSE, "^", ".", SubSeq(id, 1, pos - 1))
      ELSE SearchSeg(FALSE, "=~", ".", "^" \o SubSeq(id, 1, pos - 1) \o ".*" \o SubSeq(id, pos + 1, len) \o "$")
    ELSE IF n = 2 /\ len = 2 THEN Seg("TRAVERSE", "")
    ELSE LET t == MultiSplat(id, FALSE, "^") IN
         IF t = "" THEN ErrSeg ELSE SearchSeg(FALSE, "=~", ".", t)

PInit(text, sep, strip) ==
  LET ps == InferSep(text, sep)
      fap == IF ps = "/" /\ Len(text) > 1 THEN 2 ELSE 1
  IN [segs |-> <<>>, id |-> "", ty |-> "", stack |-> <<>>, esc |-> FALSE, inv |-> FALSE,
      meth |-> "", attr |-> "", kw |-> "", seekRe |-> FALSE, capRe |-> FALSE, lvl |-> 0,
      cop |-> "", seekCop |-> FALSE, must |-> "",
      seekAnchor |-> (text # "" /\ Ch(text, fap) = "&"),
      sep |-> ps, strip |-> strip, out |-> "run"]

Push(ps, c) == [ps EXCEPT !.stack = Append(@, c)]
Pop(ps)     == [ps EXCEPT !.stack = SubSeq(@, 1, Len(@) - 1)]
Err(ps)     == [ps EXCEPT !.out = "err"]
Crash(ps)   == [ps EXCEPT !.out = "crash"]
KeyTy(ty)   == IF ty = "" THEN "KEY" ELSE ty
\* a (type, text) pair appended without a terms object: KEY and ANCHOR are the
\* normal forms, INDEX with text is a slice, the others are degenerate ("RAW_")
RawTy(ty)   == IF ty \in {"KEY", "ANCHOR"} THEN ty ELSE IF ty = "INDEX" THEN "SLICE" ELSE "RAW_" \o ty

\* record the pending segment id through _expand_splats (used at "(" "[" sep and at the end)
Flush(ps) ==
  IF ps.id = "" THEN ps
  ELSE LET sg == ExpandSplats(ps.id, KeyTy(ps.ty)) IN
       IF sg.ty = "ERR" THEN Err(ps)
       ELSE [ps EXCEPT !.segs = Append(@, sg), !.id = "", !.ty = KeyTy(ps.ty)]

PStep(ps0, c) ==
  LET ps  == IF ps0.must # "" /\ c = ps0.must THEN [ps0 EXCEPT !.must = ""] ELSE ps0
      dc  == Len(ps.stack)
      top == IF dc > 0 THEN ps.stack[dc] ELSE ""
      \* the statements after the if-chain (reached when no branch "continue"s)
      App(s) == [s EXCEPT !.id = @ \o c, !.seekAnchor = FALSE, !.seekCop = FALSE]
  IN
  IF ps.esc THEN App([ps EXCEPT !.esc = FALSE])                                   \* 385
  ELSE IF ps.capRe THEN                                                            \* 389
    (IF c = top THEN Pop([ps EXCEPT !.capRe = FALSE]) ELSE App(ps))
  ELSE IF c = "\\" THEN                                                            \* 405
    (IF ps.strip THEN [ps EXCEPT !.esc = TRUE] ELSE App([ps EXCEPT !.esc = TRUE]))
  ELSE IF c = " " /\ (dc < 1 \/ top \notin Quotes) THEN ps                         \* 411
  ELSE IF ps.seekRe THEN Push([ps EXCEPT !.seekRe = FALSE, !.capRe = TRUE], c)     \* 419
  ELSE IF ps.seekAnchor /\ c = "&" THEN [ps EXCEPT !.seekAnchor = FALSE, !.ty = "ANCHOR"]   \* 427
  ELSE IF ps.seekCop /\ c \in {"+", "-", "&"} THEN                                 \* 433
    [ps EXCEPT !.seekCop = FALSE, !.must = "(", !.cop = c]
  ELSE IF ps.must # "" /\ c # ps.must THEN Err(ps)                                 \* 444
  ELSE IF c \in Quotes THEN                                                        \* 450
    (IF dc > 0 THEN
       (IF c = top THEN
          (IF dc - 1 < 1 THEN
             [Pop(ps) EXCEPT !.segs = IF ps.id # "" THEN Append(@, Seg(RawTy(KeyTy(ps.ty)), ps.id)) ELSE @,
                             !.id = "", !.ty = ""]
           ELSE App(Pop(ps)))
        ELSE App(Push(ps, c)))
     ELSE Push(ps, c))
  ELSE IF c = "(" THEN                                                             \* 484
    (IF dc = 1 /\ top = "[" /\ ps.id # "" THEN
       (IF ps.id \in Keywords
        THEN [Push(ps, c) EXCEPT !.ty = "KEYWORD", !.kw = ps.id, !.id = ""]
        ELSE Err(ps))
     ELSE
       LET p1 == IF ps.lvl = 0 THEN Flush(ps) ELSE ps IN
       IF p1.out # "run" THEN p1
       ELSE LET p2 == [Push(p1, c) EXCEPT !.seekCop = FALSE, !.lvl = @ + 1, !.ty = "COLLECTOR"] IN
            IF p2.lvl = 1 THEN p2 ELSE App(p2))
  ELSE IF dc > 0 /\ c = ")" /\ ps.ty = "KEYWORD" THEN                              \* 525
    [Pop(ps) EXCEPT !.must = "]", !.seekCop = FALSE]
  ELSE IF dc > 0 /\ c = ")" /\ top = "(" /\ ps.lvl > 0 THEN                        \* 536
    (LET p1 == [Pop(ps) EXCEPT !.lvl = @ - 1] IN
     IF p1.lvl < 1
     THEN [p1 EXCEPT !.segs = Append(@, IF ps.ty = "COLLECTOR" THEN CollectorSeg(ps.id, ps.cop)
                                        \* 427 can retype an open collector as ANCHOR: (ANCHOR, CollectorTerms)
                                        ELSE Seg(ps.ty, ps.cop \o "(" \o ps.id \o ")")),
                     !.id = "", !.cop = "", !.seekCop = TRUE]
     ELSE App(p1))
  ELSE IF dc = 0 /\ c = "[" THEN                                                   \* 555
    (LET p1 == Flush(ps) IN
     IF p1.out # "run" THEN p1
     ELSE [Push(p1, c) EXCEPT !.ty = "INDEX", !.seekCop = FALSE, !.seekAnchor = TRUE,
                              !.inv = FALSE, !.meth = "", !.attr = ""])
  ELSE IF dc = 1 /\ top = "[" /\ c \in {"=", "^", "$", "%", "!", ">", "<", "~"} THEN   \* 576
    (IF c = "!" THEN (IF ps.inv THEN Err(ps) ELSE [ps EXCEPT !.inv = TRUE])
     ELSE IF c = "=" THEN
       (IF ps.meth = "<" THEN [ps EXCEPT !.ty = "SEARCH", !.meth = "<="]
        ELSE IF ps.meth = ">" THEN [ps EXCEPT !.ty = "SEARCH", !.meth = ">="]
        ELSE IF ps.meth = "=" THEN [ps EXCEPT !.ty = "SEARCH"]
        ELSE IF ps.meth = "" THEN
          (IF ps.id # "" THEN [ps EXCEPT !.ty = "SEARCH", !.meth = "=", !.attr = ps.id, !.id = ""]
           ELSE Err(ps))
        ELSE Err(ps))
     ELSE IF c = "~" THEN
       (IF ps.meth = "=" THEN [ps EXCEPT !.meth = "=~", !.seekRe = TRUE] ELSE Err(ps))
     ELSE IF ps.id = "" THEN Err(ps)
     ELSE [ps EXCEPT !.ty = "SEARCH", !.meth = c, !.attr = ps.id, !.id = ""])
  ELSE IF c = "[" THEN App(Push(ps, c))                                            \* 699
  ELSE IF dc = 1 /\ c = "]" /\ top = "[" THEN                                      \* 704
    (LET done(sg) == [Pop(ps) EXCEPT !.segs = Append(@, sg), !.id = "", !.ty = "",
                                     !.meth = "", !.inv = FALSE, !.kw = ""] IN
     IF ps.ty = "INDEX" /\ ~HasChar(ps.id, ":") THEN
       (IF IsPyInt(ps.id) THEN done(Seg("INDEX", IntStr(PyIntVal(ps.id)))) ELSE Err(ps))
     ELSE IF ps.ty = "SEARCH" /\ ps.meth # "" THEN
       (LET id == ps.id
            term == IF id # "" /\ Ch(id, 1) \in Quotes /\ Ch(id, Len(id)) = Ch(id, 1)
                    THEN (IF Len(id) < 3 THEN "" ELSE SubSeq(id, 2, Len(id) - 1)) ELSE id
        IN done(SearchSeg(ps.inv, ps.meth, ps.attr, term)))
     ELSE IF ps.ty = "KEYWORD" /\ ps.kw # "" THEN done(KeywordSeg(ps.inv, ps.kw, ps.id))
     ELSE done(Seg(RawTy(ps.ty), ps.id)))
  ELSE IF c = "]" THEN                                                             \* 760
    (IF dc = 0 THEN (IF GuardedPop THEN Err(ps) ELSE Crash(ps)) ELSE App(Pop(ps)))
  ELSE IF dc < 1 /\ c = ps.sep THEN                                                \* 765
    (LET p1 == Flush(ps) IN
     IF p1.out # "run" THEN p1 ELSE [p1 EXCEPT !.ty = "", !.seekAnchor = TRUE])
  ELSE App(ps)

PFinish(ps) ==   \* post-loop checks 784-816
  IF ps.out # "run" THEN ps
  ELSE IF ps.lvl > 0 \/ ps.capRe \/ Len(ps.stack) > 0 THEN Err(ps)
  ELSE LET p1 == Flush(ps) IN IF p1.out # "run" THEN p1 ELSE [p1 EXCEPT !.out = "done"]

RECURSIVE PRun(_, _)
PRun(ps, rest) == IF rest = "" \/ ps.out # "run" THEN ps ELSE PRun(PStep(ps, Ch(rest, 1)), Tail(rest))

\* The `original` setter blanks whitespace-only text (yamlpath.py:207); an empty path has no segments.
Parse(text, sep, strip) ==
  IF Strip(text) = "" THEN [PInit("", sep, strip) EXCEPT !.out = "done"]
  ELSE PFinish(PRun(PInit(text, sep, strip), text))

(***************************************************************************)
(* Forcing a separator on a YAMLPath object (the route Processor.get_nodes *)
(* takes, processor.py:136-137): the `separator` setter (yamlpath.py:232)  *)
(* first parses the unescaped form under the INFERRED separator in order   *)
(* to re-stringify; if that raises, the separator stays AUTO.  The escaped *)
(* parse that follows uses whichever separator is then in force.           *)
(***************************************************************************)
ForcedEscaped(text, sep) ==
  IF sep = "auto" \/ Strip(text) = "" THEN Parse(text, "auto", TRUE)
  ELSE IF Parse(text, "auto", FALSE).out = "done" THEN Parse(text, sep, TRUE)
  ELSE Parse(text, "auto", TRUE)

Outcome(ps) == IF ps.out = "done" THEN "ok" ELSE ps.out
=============================================================================
