---------------------------- MODULE YPathSyntax ----------------------------
(***************************************************************************)
(* Writing segments as text.                                               *)
(*   Str(segs, sep)      mirrors YAMLPath._stringify_yamlpath_segments     *)
(*                       (yamlpath.py:895-944), SearchTerms.__str__,       *)
(*                       SearchKeywordTerms.__str__, CollectorTerms.__str__*)
(*   EnsureEscaped       mirrors yamlpath.py:974-995                       *)
(*   EscapeSection       mirrors escape_path_section (998-1017)            *)
(*   Write(segs, sep)    the DOCUMENTED way a user writes segments: keys   *)
(*                       with every special character backslash-escaped,   *)
(*                       [n], [a:b], &anchor / [&anchor], [attr OP term]   *)
(*                       with the term escaped, [kw(params)], (expr).      *)
(***************************************************************************)
EXTENDS YPathParser

CONSTANT RegexFixed    \* TRUE: the repaired SearchTerms.__str__ (fix: commit); FALSE: the pinned one

\* value.replace(sym, "\"+sym) except where already preceded by a backslash
RECURSIVE EscOne(_, _)
EscOne(s, sym) ==
  LET esc == "\\" \o sym IN
  IF s = "" THEN ""
  ELSE IF StartsWith(s, esc) THEN esc \o EscOne(SubSeq(s, Len(esc) + 1, Len(s)), sym)
  ELSE IF StartsWith(s, sym) THEN esc \o EscOne(SubSeq(s, Len(sym) + 1, Len(s)), sym)
  ELSE Ch(s, 1) \o EscOne(Tail(s), sym)

RECURSIVE EnsureEscaped(_, _)
EnsureEscaped(s, syms) == IF Len(syms) = 0 THEN s ELSE EnsureEscaped(EscOne(s, syms[1]), Tail(syms))

StrSyms(sepc) == <<sepc, "(", ")", "[", "]", "^", "$", "%", " ", "'", "\"">>
SecSyms(sepc) == <<"\\", sepc, "(", ")", "[", "]", "^", "$", "%", " ", "'", "\"">>
EscapeSection(s, sepc) == EnsureEscaped(s, SecSyms(sepc))

\* SearchTerms.__str__; the RegEx delimiter is the first candidate the expression lacks
\* (fix: commit; the pinned source always used "/" and rewrote "/" as "\/")
RegexDelims == <<"/", "#", "|", "@", ";">>
RegexDelim(t) == LET C == {i \in 1..Len(RegexDelims) : ~HasChar(t, RegexDelims[i])} IN
                 IF C = {} THEN "/" ELSE RegexDelims[CHOOSE i \in C : \A j \in C : i <= j]
SearchStr(sg) ==
  LET safe == IF sg.op = "=~" THEN
                 (IF RegexFixed THEN RegexDelim(sg.term) \o sg.term \o RegexDelim(sg.term)
                  ELSE "/" \o Replace(sg.term, "/", "\\/") \o "/")
              ELSE EscOne(sg.term, " ")
  IN "[" \o sg.attr \o (IF sg.inv THEN "!" ELSE "") \o sg.op \o safe \o "]"
KeywordStr(sg) == "[" \o (IF sg.inv THEN "!" ELSE "") \o sg.kw \o "(" \o sg.v \o ")]"
CollectorStr(sg) == sg.cop \o "(" \o sg.v \o ")"

RECURSIVE StrAcc(_, _, _, _)
StrAcc(segs, sepc, addsep, acc) ==
  IF Len(segs) = 0 THEN acc
  ELSE LET sg == segs[1]
           piece ==
             IF sg.ty = "KEY" THEN (IF addsep THEN sepc ELSE "") \o EnsureEscaped(sg.v, StrSyms(sepc))
             ELSE IF sg.ty \in {"INDEX", "SLICE"} THEN "[" \o sg.v \o "]"
             ELSE IF sg.ty = "MATCH_ALL" THEN (IF addsep THEN sepc ELSE "") \o "*"
             ELSE IF sg.ty = "ANCHOR" THEN (IF addsep THEN "[&" \o sg.v \o "]" ELSE "&" \o sg.v)
             ELSE IF sg.ty = "KEYWORD" THEN KeywordStr(sg)
             ELSE IF sg.ty = "SEARCH" THEN SearchStr(sg)
             ELSE IF sg.ty = "COLLECTOR" THEN CollectorStr(sg)
             ELSE IF sg.ty = "TRAVERSE" THEN (IF addsep THEN sepc ELSE "") \o "**"
             ELSE IF sg.ty = "RAW_KEYWORD" THEN sg.v      \* str(str)
             ELSE IF sg.ty = "RAW_COLLECTOR" THEN sg.v
             ELSE ""                                       \* RAW_SEARCH: no arm in the source
       IN StrAcc(Tail(segs), sepc, TRUE, acc \o piece)
Str(segs, sepc) == StrAcc(segs, sepc, FALSE, IF sepc = "/" THEN "/" ELSE "")

(***************************************************************************)
(* Write: the documented notation.  A key is written with every character  *)
(* that has a meaning to the path syntax escaped by a backslash; search    *)
(* terms escape the characters that would end or alter the term.           *)
(***************************************************************************)
KeySpecials(sepc) == {sepc, "\\", "(", ")", "[", "]", "^", "$", "%", " ", "'", "\"", "&", "*", "!", "=", "<", ">", "~", "+", "-", ":", ","}
RECURSIVE EscAll(_, _)
EscAll(s, specials) == IF s = "" THEN "" ELSE
  (IF Ch(s, 1) \in specials THEN "\\" ELSE "") \o Ch(s, 1) \o EscAll(Tail(s), specials)
\* inside [...]: only these act: quotes, backslash, space, brackets, parentheses (after text), operators (before an operator is set)
TermSpecials == {"\\", " ", "'", "\"", "[", "]", "(", ")", "=", "^", "$", "%", "!", ">", "<", "~"}

\* Quoting a key protects the separator, blanks and "*" (README: demarcation for
\* dotted keys); every other significant character still needs its backslash.
QuoteSpecials(sepc) == KeySpecials(sepc) \ {sepc, " ", "*", ".", "/"}
WriteKey(k, sepc, style, first) ==
  IF style = "quote" \/ HasChar(k, "*") THEN "'" \o EscAll(k, QuoteSpecials(sepc)) \o "'"
  ELSE LET e == EscAll(k, KeySpecials(sepc)) IN
       \* a dot-notation path must not begin with "/" (that selects slash notation)
       IF first /\ sepc = "." /\ StartsWith(e, "/") THEN "\\" \o e ELSE e
WriteTerm(t) == EscAll(t, TermSpecials)

\* the text of one segment without its leading separator; `first`: it starts the path
Piece(sg, sepc, style, first) ==
  IF sg.ty = "KEY" THEN WriteKey(sg.v, sepc, style, first)
  ELSE IF sg.ty \in {"INDEX", "SLICE"} THEN "[" \o sg.v \o "]"
  ELSE IF sg.ty = "MATCH_ALL" THEN "*"
  ELSE IF sg.ty = "TRAVERSE" THEN "**"
  ELSE IF sg.ty = "ANCHOR" THEN (IF first THEN "&" \o sg.v ELSE "[&" \o sg.v \o "]")
  ELSE IF sg.ty = "SEARCH" THEN
     "[" \o EscAll(sg.attr, TermSpecials \cup {"&"}) \o (IF sg.inv THEN "!" ELSE "") \o sg.op
         \o (IF sg.op = "=~" THEN RegexDelim(sg.term) \o sg.term \o RegexDelim(sg.term) ELSE WriteTerm(sg.term)) \o "]"
  ELSE IF sg.ty = "KEYWORD" THEN KeywordStr(sg)
  ELSE CollectorStr(sg)
NeedsSep(sg) == sg.ty \in {"KEY", "MATCH_ALL", "TRAVERSE"}

RECURSIVE WriteAcc(_, _, _, _, _)
WriteAcc(segs, sepc, style, first, acc) ==
  IF Len(segs) = 0 THEN acc
  ELSE LET sg == segs[1] IN
       WriteAcc(Tail(segs), sepc, style, FALSE,
                acc \o (IF ~first /\ NeedsSep(sg) THEN sepc ELSE "") \o Piece(sg, sepc, style, first))
WriteStyled(segs, sepc, style) == WriteAcc(segs, sepc, style, TRUE, IF sepc = "/" THEN "/" ELSE "")
Write(segs, sepc) == WriteStyled(segs, sepc, "esc")
=============================================================================
