---------------------------- MODULE YPathsSearch ----------------------------
(***************************************************************************)
(* The search of the yaml-paths tool (property C07).                       *)
(*                                                                         *)
(* OPERATIONAL, one definition per code unit, the `seen_anchors` list      *)
(* threaded through the traversal exactly as the code threads it:          *)
(*   SearchAnchor   Searches.search_anchor        common/searches.py:126-176*)
(*   SeqLoop        search_for_paths, list arm    yaml_paths.py:403-487    *)
(*   MapLoop        search_for_paths, hash arm    523-680 (incl. the       *)
(*                  aliased-key guard and the merge-key tail)              *)
(*   RecordAnchors  _record_anchors                                        *)
(*   SetLoop        search_for_paths, set arm     651-689                  *)
(*   YSeqLoop /     yield_children                268-371                  *)
(*   YMapLoop                                                              *)
(*   ExprTerms      get_search_term               691-727                  *)
(*   Render         the build_path / tmp_path string building of both      *)
(*                  functions and escape_path_section (yamlpath.py:1017)   *)
(* Search(d, T, O) is the sequence of results in yield order, each         *)
(*   [id    the position the result designates (a value position; for a    *)
(*          key-name match the position held under that key),              *)
(*    steps the path as the code builds it: key / idx / anc steps,         *)
(*    kind  "value" | "key" | "ref" / "kref" (anchor-name match of the     *)
(*          value / of the key) | "leaf" (a child listed by the expansion  *)
(*          of a matched parent) | "ymk" (a `<<` reference named by its    *)
(*          anchor),                                                       *)
(*    of    the matched position the result stands for (= id unless        *)
(*          expanded)].                                                    *)
(*                                                                         *)
(* DECLARATIVE, from the tool's usage text (README "yaml-paths", CHANGES   *)
(* 2.1.1, 2.2.0) and property C07:                                         *)
(*   Matching(d, T, O)  the set of positions a search must report          *)
(*   Expected(d, T, O)  the same with --expand applied                     *)
(*   StepsTo / Printed / ReResolve  the path of a position, its printed    *)
(*                  text, and what that text selects (YQuery.Sel)          *)
(*                                                                         *)
(* T (terms)  = [inv, op, term]                                            *)
(* O (options)= [vals, keys, refs, ka, va, expand]:                        *)
(*   vals/keys  search_values / search_keys   (-i: T/F, -k: T/T, -K: F/T)  *)
(*   refs       --refnames (search_anchors)                                *)
(*   ka / va    include_key_aliases / include_value_aliases                *)
(*              (-A: F/F, -Y default: T/F, -y: F/T, -l: T/T)               *)
(*   expand     --expand                                                   *)
(*                                                                         *)
(* SIDE STRUCTURE.  The YData node table carries anchors on value          *)
(* positions only.  Anchored / aliased KEYS and MERGE KEYS are described   *)
(* by a record sx next to the table (the table's fields are unchanged):    *)
(*   kanchor[i]  anchor name carried by the KEY under which position i is  *)
(*               held ("" = none); the same name at the definition and at  *)
(*               every alias of that key (it is one object)                *)
(*   kalias      the positions whose key is an ALIAS (`*k :`) of an        *)
(*               earlier anchored key (`&k key:`)                          *)
(*   merges[u]   for a hash u: the anchored hashes it merges (`<<: *m`),   *)
(*               in order                                                  *)
(*   merged      the positions that are merged-in pairs: they ARE nodes of *)
(*               the table (children of u after its own pairs, copies of   *)
(*               the merged hash's pairs that u's own keys do not shadow - *)
(*               what `items()` adds to `non_merged_items()`), so paths    *)
(*               through them are ordinary key steps                       *)
(* A `<<` reference itself is no node; the result that names it            *)
(* (`u[&m]`) gets the position id YmkId(d, sx, u, r) > Len(d).             *)
(* NoSide(d) is the empty side structure of a plain YData document.        *)
(***************************************************************************)
EXTENDS YQuery

\* Design variants.  The default (PinnedDefects = {}) is the repaired source (fix: commits dcbc53b, 989f2f4,
\* 5669cab, e476893); a member of PinnedDefects restores the pinned behaviour of that place, so that both the defective
\* and the repaired design can be model-checked:
\*   "set-in-seq"                 a Set held by a list is not descended into but compared as if it were a scalar
\*   "expand-set"                 yield_children has no Set arm: a Set below an expanded parent is listed as one leaf
\*   "alias-after-covered-anchor" the children of a parent matched by name (no --expand) are skipped without
\*                                recording their anchors
\*   "aliased-key"                the key's anchor is classified after the value's and only when key names are
\*                                searched, and an aliased key is never discarded (before e476893)
CONSTANT PinnedDefects
Pinned(c) == c \in PinnedDefects

Opts(vals, keys, refs, ka, va, expand) ==
  [vals |-> vals, keys |-> keys, refs |-> refs, ka |-> ka, va |-> va, expand |-> expand]
Terms(inv, op, term) == [inv |-> inv, op |-> op, term |-> term]

(***************************************************************************)
(* Expression -> terms (get_search_term): the expression goes through the  *)
(* path parser as the search segment "[*EXPR]" and the terms are read from *)
(* the ESCAPED parse (YPathParser.Parse with escapes stripped): the term   *)
(* is the text after the operator with every backslash escape resolved.    *)
(* Result [ok, inv, op, term].                                             *)
(* So one term has two spellings: Expr(T), the text itself (only when it   *)
(* holds nothing the parser treats specially), and ExprEsc(T), with every  *)
(* character other than a letter or digit backslash-escaped.  Inside the   *)
(* delimiters of a RegEx a backslash belongs to the expression, so "=~"    *)
(* has the first spelling only.                                            *)
(***************************************************************************)
OpStart == {"=", "^", "$", "%", ">", "<", "~"}      \* PathSearchMethods.is_operator on the first symbol, or "!"
ExprTerms(expr) ==
  LET bad == [ok |-> FALSE, inv |-> FALSE, op |-> "", term |-> ""] IN
  IF expr = "" \/ Ch(expr, 1) \notin (OpStart \cup {"!"}) THEN bad
  ELSE IF Len(expr) <= 1 THEN bad
  ELSE LET p == Parse("[*" \o expr \o "]", "auto", TRUE) IN
       IF p.out # "done" \/ Len(p.segs) = 0 \/ p.segs[1].ty # "SEARCH" THEN bad
       ELSE [ok |-> TRUE, inv |-> p.segs[1].inv, op |-> p.segs[1].op, term |-> p.segs[1].term]
AlNum == Digits \cup Uppers \cup {LowerOf[c] : c \in Uppers}
RECURSIVE EscTerm(_)
EscTerm(t) == IF t = "" THEN "" ELSE (IF Ch(t, 1) \in AlNum THEN "" ELSE "\\") \o Ch(t, 1) \o EscTerm(Tail(t))
HasPunct(t) == \E i \in 1..Len(t) : Ch(t, i) \notin AlNum
ExprEsc(T) == (IF T.inv THEN "!" ELSE "") \o T.op \o EscTerm(T.term)          \* defined for T.op # "=~"
\* how a user writes terms as an expression (a RegEx term between delimiters)
Expr(T) == (IF T.inv THEN "!" ELSE "") \o T.op \o (IF T.op = "=~" THEN "/" \o T.term \o "/" ELSE T.term)

(***************************************************************************)
(* The match table of a document under given terms: every comparison the   *)
(* search can make (Searches.search_matches with the inversion applied),   *)
(* computed once.                                                          *)
(*   val[i]  scalar position i against the expression                      *)
(*   key[i]  the key under which position i is held (parent is a hash)     *)
(*   ref[a]  anchor name a                                                 *)
(*   ival / ikey / iref: some comparison of that family lies in a corner   *)
(*   the documentation leaves open (YCompare.Silent)                       *)
(***************************************************************************)
NoSide(d) == [kanchor |-> [i \in 1..Len(d) |-> ""], kalias |-> {}, merges |-> [i \in 1..Len(d) |-> <<>>], merged |-> {}]
KAnchorNames(sx) == {sx.kanchor[i] : i \in DOMAIN sx.kanchor} \ {""}
RECURSIVE MergesBefore(_, _)
MergesBefore(sx, u) == IF u <= 1 THEN 0 ELSE Len(sx.merges[u - 1]) + MergesBefore(sx, u - 1)
YmkId(d, sx, u, r) == Len(d) + MergesBefore(sx, u) + r                  \* position id of the r-th `<<` reference of hash u
YmkIds(d, sx) == UNION {{YmkId(d, sx, u, r) : r \in 1..Len(sx.merges[u])} : u \in 1..Len(d)}
HasMerges(d, sx) == \E u \in 1..Len(d) : Len(sx.merges[u]) > 0

ScalarIds(d) == {i \in 1..Len(d) : d[i].k = "s"}
KeyedIds(d)  == {i \in 2..Len(d) : d[d[i].par].k = "map"}
AnchorNames(d) == {d[i].anchor : i \in {x \in 1..Len(d) : d[x].anchor # ""}}
KeyOf(d, i) == d[d[i].par].keys[ChildPos(d, i)]
KeyHay(d, i) == Hay(KeyOf(d, i).t, KeyOf(d, i).v)
Hit(T, hay) == Cond(Matches(T.op, T.term, hay), T.inv)

\* H(T, hay) / Sl(T, hay): the comparison and its "documentation is silent" flag (a model may pass memoised versions)
TabWith(d, sx, T, H(_, _), Sl(_, _)) ==
  [val  |-> [i \in ScalarIds(d) |-> H(T, ScalarHay(d, i))],
   key  |-> [i \in KeyedIds(d) |-> H(T, KeyHay(d, i))],
   ref  |-> [a \in AnchorNames(d) \cup KAnchorNames(sx) |-> H(T, Hay("str", a))],
   \* pinned "set-in-seq" only: a Set met as a list element is compared as if it were a scalar (its Python
   \* text): never equal to a term of the vocabulary, so only the inversion decides
   setv |-> T.inv,
   ival |-> \E i \in ScalarIds(d) : Sl(T, ScalarHay(d, i)),
   ikey |-> \E i \in KeyedIds(d) : Sl(T, KeyHay(d, i)),
   iref |-> \E a \in AnchorNames(d) \cup KAnchorNames(sx) : Sl(T, Hay("str", a))]
SilentT(T, hay) == Silent(T.op, T.term, hay)
TabX(d, sx, T) == TabWith(d, sx, T, Hit, SilentT)
Tab(d, T) == TabX(d, NoSide(d), T)

HasSet(d) == \E s \in 1..Len(d) : d[s].k = "set"
InSet(d, i) == i # Root /\ d[d[i].par].k = "set"
\* Which entries a search under options O can consult: val[i] when values are searched or i is a Set member,
\* key[i] with -k/-K, ref[a] with --refnames, setv when values are searched.  Two terms whose tables agree on
\* those entries give the same search (MC_PathsSearch groups the vocabulary by them).

(***************************************************************************)
(* Paths                                                                   *)
(***************************************************************************)
Step(ty, v) == [ty |-> ty, v |-> v]
\* escape_path_section incl. the leading-slash rule for dot notation
EscSection(s, sepc) == LET e == EscapeSection(s, sepc) IN IF sepc # "/" /\ StartsWith(e, "/") THEN "\\" \o e ELSE e

RECURSIVE RenderAcc(_, _, _)
RenderAcc(steps, sepc, acc) ==
  IF Len(steps) = 0 THEN acc
  ELSE LET s == steps[1]
           txt == IF s.ty \in {"key", "ymk"}        \* ymk: the hash's prefix (with its separator) then "[&name]" (662-666)
                  THEN (IF acc # "" THEN acc \o sepc ELSE IF sepc = "/" THEN "/" ELSE "")
                       \o (IF s.ty = "key" THEN EscSection(s.v, sepc) ELSE "[&" \o EscSection(s.v, sepc) \o "]")
                  ELSE (IF acc = "" /\ sepc = "/" THEN "/" ELSE acc) \o "["
                       \o (IF s.ty = "idx" THEN s.v ELSE "&" \o EscSection(s.v, sepc)) \o "]"
       IN RenderAcc(Tail(steps), sepc, txt)
Render(steps, sepc) == RenderAcc(steps, sepc, "")          \* the text handed to YAMLPath(...)

\* str(YAMLPath(text)): the unescaped parse re-stringified under the inferred separator
Printed(steps, sepc) ==
  LET raw == Render(steps, sepc)  p == Parse(raw, "auto", FALSE) IN
  IF p.out = "done" THEN Str(p.segs, p.sep) ELSE raw

\* the step under which position i hangs from its parent, and the whole path of i
StepOf(d, i) ==
  LET p == d[d[i].par] pos == ChildPos(d, i) IN
  IF p.k = "map" THEN Step("key", p.keys[pos].v)
  ELSE IF p.k = "set" THEN Step("key", d[i].v)
  ELSE IF d[i].anchor # "" THEN Step("anc", d[i].anchor) ELSE Step("idx", NatStr(pos - 1))
RECURSIVE StepsTo(_, _)
StepsTo(d, i) == IF i = Root THEN <<>> ELSE Append(StepsTo(d, d[i].par), StepOf(d, i))

\* the places a printed path may designate: the position itself, or - named by its anchor inside
\* a list - every place of that list holding the same anchored node
Places(d, i) ==
  IF i # Root /\ d[d[i].par].k = "seq" /\ d[i].anchor # ""
  THEN SortIds({j \in {d[d[i].par].kids[x] : x \in 1..Len(d[d[i].par].kids)} : d[j].anchor = d[i].anchor})
  ELSE <<i>>

ReResolve(d, steps, sepc) ==
  LET txt == Printed(steps, sepc)  q == Parse(txt, "auto", TRUE) IN
  IF q.out # "done" THEN [txt |-> txt, err |-> "parse", ids |-> <<>>]
  ELSE LET r == Sel(d, q.segs) IN [txt |-> txt, err |-> r.err, ids |-> FlatIds(r.res)]
Resolves(d, i, sepc) == LET r == ReResolve(d, StepsTo(d, i), sepc) IN r.err = "" /\ r.ids = Places(d, i)

(***************************************************************************)
(* Searches.search_anchor.  Traversal state st = [seen, out, log]:         *)
(*   seen  anchor names met so far (seen_anchors)                          *)
(*   out   results yielded so far                                          *)
(*   log   the classification of every anchored node or key met, in call   *)
(*         order (the observable trace of the threaded state; bound by the *)
(*         harness to the recorded calls of the real function)             *)
(***************************************************************************)
St0 == [seen |-> {}, out |-> <<>>, log |-> <<>>]
Yield(st, id, steps, kind, of) == [st EXCEPT !.out = Append(@, [id |-> id, steps |-> steps, kind |-> kind, of |-> of])]
Excluders == {"UNSEARCHABLE_ALIAS", "ALIAS_EXCLUDED"}
Matched == {"MATCH", "ALIAS_INCLUDED"}

SearchAnchor(name, m, st, refs, incl) ==
  IF name = "" THEN [r |-> "NO_ANCHOR", st |-> st]                                       \* 147-149
  ELSE LET isAlias == name \in st.seen                                                   \* 151-154
           r == IF ~refs THEN (IF isAlias THEN "UNSEARCHABLE_ALIAS" ELSE "UNSEARCHABLE_ANCHOR")   \* 156-161
                ELSE IF isAlias /\ ~incl THEN "ALIAS_EXCLUDED"                           \* 163-165
                ELSE IF m.ref[name] THEN (IF isAlias THEN "ALIAS_INCLUDED" ELSE "MATCH") \* 167-175
                ELSE "NO_MATCH"
       IN [r |-> r, st |-> [st EXCEPT !.seen = @ \cup {name}, !.log = Append(@, <<name, r>>)]]

\* pool = data.items() when key or value aliases are included, else data.non_merged_items() (332-334, 530-532)
InPool(sx, O, v) == v \notin sx.merged \/ O.ka \/ O.va

(***************************************************************************)
(* yield_children                                                          *)
(***************************************************************************)
RECURSIVE YieldChildren(_, _, _, _, _, _, _, _)
RECURSIVE YSeqLoop(_, _, _, _, _, _, _, _, _)
RECURSIVE YMapLoop(_, _, _, _, _, _, _, _, _)
RECURSIVE YSetLoop(_, _, _, _, _, _, _, _, _)
YConts == IF Pinned("expand-set") THEN {"map", "seq"} ELSE {"map", "seq", "set"}     \* 316, 358

YSeqLoop(d, sx, x, j, steps, st, m, O, of) ==                                            \* 288-324
  IF j > Len(d[x].kids) THEN st
  ELSE LET e == d[x].kids[j]
           sa == SearchAnchor(d[e].anchor, m, st, O.refs, O.va)
           tp == Append(steps, IF sa.r = "NO_ANCHOR" THEN Step("idx", NatStr(j - 1)) ELSE Step("anc", d[e].anchor))
           st2 == IF ~O.va /\ sa.r \in Excluders THEN sa.st                              \* 312-314
                  ELSE IF d[e].k \in YConts THEN YieldChildren(d, sx, e, tp, sa.st, m, O, of)
                  ELSE Yield(sa.st, e, tp, "leaf", of)
       IN YSeqLoop(d, sx, x, j + 1, steps, st2, m, O, of)

YMapLoop(d, sx, x, j, steps, st, m, O, of) ==                                            \* 326-366
  IF j > Len(d[x].kids) THEN st
  ELSE LET v == d[x].kids[j]
           tp == Append(steps, Step("key", d[x].keys[j].v))
           sk == SearchAnchor(sx.kanchor[v], m, st, O.refs, O.ka)                        \* 339-341: the key first
           sv == SearchAnchor(d[v].anchor, m, sk.st, O.refs, O.va)                       \* 342-344
           st2 == IF ~InPool(sx, O, v) THEN st                                           \* not among the pairs iterated
                  ELSE IF (~O.ka /\ sk.r \in Excluders) \/ (~O.va /\ sv.r \in Excluders) THEN sv.st   \* 350-356
                  ELSE IF d[v].k \in YConts THEN YieldChildren(d, sx, v, tp, sv.st, m, O, of)
                  ELSE Yield(sv.st, v, tp, "leaf", of)                                   \* (pinned: a Set is listed as itself)
       IN YMapLoop(d, sx, x, j + 1, steps, st2, m, O, of)

YSetLoop(d, sx, x, j, steps, st, m, O, of) ==                                            \* the Set arm (repaired source)
  IF j > Len(d[x].kids) THEN st
  ELSE LET e == d[x].kids[j]
           sa == SearchAnchor(d[e].anchor, m, st, O.refs, O.ka)
           st2 == IF ~O.ka /\ sa.r \in Excluders THEN sa.st
                  ELSE Yield(sa.st, e, Append(steps, Step("key", d[e].v)), "leaf", of)
       IN YSetLoop(d, sx, x, j + 1, steps, st2, m, O, of)

YieldChildren(d, sx, x, steps, st, m, O, of) ==
  IF d[x].k = "seq" THEN YSeqLoop(d, sx, x, 1, steps, st, m, O, of)
  ELSE IF d[x].k = "map" THEN YMapLoop(d, sx, x, 1, steps, st, m, O, of)                 \* (no merge-key tail here)
  ELSE IF d[x].k = "set" /\ ~Pinned("expand-set") THEN YSetLoop(d, sx, x, 1, steps, st, m, O, of)
  ELSE Yield(st, x, steps, "leaf", of)                                                   \* the last arm: a scalar

(***************************************************************************)
(* search_for_paths                                                        *)
(***************************************************************************)
RECURSIVE SearchAt(_, _, _, _, _, _, _)
RECURSIVE SeqLoop(_, _, _, _, _, _, _, _)
RECURSIVE MapLoop(_, _, _, _, _, _, _, _)
RECURSIVE SetLoop(_, _, _, _, _, _, _, _)
RECURSIVE MergeTail(_, _, _, _, _, _, _, _)

\* _record_anchors (repaired source): the anchors beneath a node whose children will not be searched are put on
\* record - search_anchor with its default arguments (no --refnames) over non_merged_items(), key before value,
\* value before its children
RECURSIVE RecordAnchors(_, _, _, _, _)
RECURSIVE RecordLoop(_, _, _, _, _, _)
RecordLoop(d, sx, x, j, st, m) ==
  IF j > Len(d[x].kids) THEN st
  ELSE LET e == d[x].kids[j]
           sk == IF d[x].k = "map" THEN SearchAnchor(sx.kanchor[e], m, st, FALSE, FALSE).st ELSE st
       IN RecordLoop(d, sx, x, j + 1,
                     IF e \in sx.merged THEN st
                     ELSE RecordAnchors(d, sx, e, SearchAnchor(d[e].anchor, m, sk, FALSE, FALSE).st, m), m)
RecordAnchors(d, sx, x, st, m) == IF d[x].k = "s" THEN st ELSE RecordLoop(d, sx, x, 1, st, m)

\* a match by name: the node itself, or (expansion) its children
MatchedParent(d, sx, v, tp, st, m, O, kind) ==
  IF O.expand THEN YieldChildren(d, sx, v, tp, st, m, O, v)
  ELSE Yield(IF Pinned("alias-after-covered-anchor") THEN st ELSE RecordAnchors(d, sx, v, st, m), v, tp, kind, v)

SeqLoop(d, sx, x, j, steps, st, m, O) ==                                                 \* 432-510
  IF j > Len(d[x].kids) THEN st
  ELSE LET e == d[x].kids[j]
           sa == SearchAnchor(d[e].anchor, m, st, O.refs, O.va)
           tp == Append(steps, IF sa.r = "NO_ANCHOR" THEN Step("idx", NatStr(j - 1)) ELSE Step("anc", d[e].anchor))
           st2 == IF sa.r = "ALIAS_EXCLUDED" THEN sa.st
                  ELSE IF sa.r \in Matched THEN MatchedParent(d, sx, e, tp, sa.st, m, O, "ref")
                  ELSE IF d[e].k \in (IF Pinned("set-in-seq") THEN {"seq", "map"} ELSE {"seq", "map", "set"})
                       THEN SearchAt(d, sx, e, tp, sa.st, m, O)
                  ELSE IF O.vals THEN                                                    \* (pinned: a Set lands here)
                    (IF sa.r = "UNSEARCHABLE_ALIAS" /\ ~O.va THEN sa.st
                     ELSE IF (IF d[e].k = "s" THEN m.val[e] ELSE m.setv) THEN Yield(sa.st, e, tp, "value", e)
                     ELSE sa.st)
                  ELSE sa.st
       IN SeqLoop(d, sx, x, j + 1, steps, st2, m, O)

MapLoop(d, sx, x, j, steps, st, m, O) ==                                                 \* 534-653
  IF j > Len(d[x].kids) THEN st
  ELSE LET v == d[x].kids[j]
           tp == Append(steps, Step("key", d[x].keys[j].v))
           old == Pinned("aliased-key")
           \* repaired: the key's anchor first, always, then the value's (540-557); pinned: the value's first, the
           \* key's only when key names are searched
           k1 == SearchAnchor(sx.kanchor[v], m, st, O.refs, O.ka)
           v1 == SearchAnchor(d[v].anchor, m, IF old THEN st ELSE k1.st, O.refs, O.va)
           k2 == IF O.keys THEN SearchAnchor(sx.kanchor[v], m, v1.st, O.refs, O.ka) ELSE [r |-> "NO_ANCHOR", st |-> v1.st]
           sk == IF old THEN k2 ELSE k1
           sv == v1
           s0 == IF old THEN k2.st ELSE v1.st           \* the state once both are on record
           st2 == IF ~InPool(sx, O, v) THEN st                                           \* not among the pairs iterated
                  ELSE IF ~old /\ ~O.ka /\ sk.r \in Excluders THEN RecordAnchors(d, sx, v, s0, m)      \* 559-564: the aliased-key guard
                  ELSE IF O.keys /\ sk.r \in Matched THEN MatchedParent(d, sx, v, tp, s0, m, O, "kref")  \* 567-584
                  ELSE IF O.keys /\ m.key[v] THEN MatchedParent(d, sx, v, tp, s0, m, O, "key")           \* 586-608
                  ELSE IF sv.r = "ALIAS_EXCLUDED" THEN s0                                \* 611-612
                  ELSE IF sv.r \in Matched THEN MatchedParent(d, sx, v, tp, s0, m, O, "ref")          \* 614-631
                  ELSE IF d[v].k \in {"seq", "map", "set"} THEN SearchAt(d, sx, v, tp, s0, m, O)      \* 633-653
                  ELSE IF O.vals THEN                                                    \* 654-670
                    (IF sv.r = "UNSEARCHABLE_ALIAS" /\ ~O.va THEN s0
                     ELSE IF m.val[v] THEN Yield(s0, v, tp, "value", v) ELSE s0)
                  ELSE s0
       IN MapLoop(d, sx, x, j + 1, steps, st2, m, O)

\* "Include YAML Merge Keys when include_value_aliases is enabled" (655-680): every `<<` reference whose anchor
\* name satisfies the expression is reported as [&name] under the hash (neither -a nor -i/-k/-K is consulted)
\* all_anchors comes from Anchors.scan_for_anchors (anchors.py:17-45), which records the anchors of keys and of
\* values of hashes and of scalar list elements - not the anchor of a hash or list that is itself a list element
Scanned(d, t) == t # Root /\ (d[d[t].par].k = "map" \/ d[t].k = "s")
MergeTail(d, sx, x, r, steps, st, m, O) ==
  IF r > Len(sx.merges[x]) THEN st
  ELSE LET name == d[sx.merges[x][r]].anchor
           st2 == IF Scanned(d, sx.merges[x][r]) /\ m.ref[name] THEN Yield(st, YmkId(d, sx, x, r), Append(steps, Step("ymk", name)), "ymk", YmkId(d, sx, x, r)) ELSE st
       IN MergeTail(d, sx, x, r + 1, steps, st2, m, O)

SetLoop(d, sx, x, j, steps, st, m, O) ==                                                 \* neither -K nor -i is consulted
  IF j > Len(d[x].kids) THEN st
  ELSE LET e == d[x].kids[j]
           tp == Append(steps, Step("key", d[e].v))
           sa == SearchAnchor(d[e].anchor, m, st, O.refs, O.ka)
           st2 == IF sa.r \in Matched THEN Yield(sa.st, e, tp, "ref", e)
                  ELSE IF m.val[e] THEN Yield(sa.st, e, tp, "value", e) ELSE sa.st
       IN SetLoop(d, sx, x, j + 1, steps, st2, m, O)

SearchAt(d, sx, x, steps, st, m, O) ==
  IF d[x].k = "seq" THEN SeqLoop(d, sx, x, 1, steps, st, m, O)
  ELSE IF d[x].k = "map" THEN
    LET s1 == MapLoop(d, sx, x, 1, steps, st, m, O) IN
    IF O.va THEN MergeTail(d, sx, x, 1, steps, s1, m, O) ELSE s1
  ELSE IF d[x].k = "set" THEN SetLoop(d, sx, x, 1, steps, st, m, O)
  ELSE st                                                  \* a scalar document: no arm, nothing is yielded

SearchRunX(d, sx, m, O) == SearchAt(d, sx, Root, <<>>, St0, m, O)   \* final traversal state
SearchRun(d, m, O) == SearchRunX(d, NoSide(d), m, O)
SearchM(d, m, O) == SearchRun(d, m, O).out
Search(d, T, O) == SearchM(d, Tab(d, T), O)
Ids(rs) == [j \in 1..Len(rs) |-> rs[j].id]

(***************************************************************************)
(* Several documents (process_yaml_file, print_results).  A stream is      *)
(* searched document by document and NOTHING is carried from one document  *)
(* to the next: seen_anchors starts empty for each (anchors do not cross   *)
(* documents), all_anchors is rescanned, and the "record only unique       *)
(* results" list is per document.  What is printed for a file or STDIN     *)
(* stream: per document, in stream order, the paths of that document's     *)
(* search, each text once (first occurrence), every line prefixed          *)
(* "<name>/<index>: " (index from 0, counted over every document of the    *)
(* stream incl. empty ones; the prefix is omitted with --nofile); a        *)
(* document without results prints nothing; several files follow one       *)
(* another, each counted from 0.                                           *)
(***************************************************************************)
SearchStreamX(ds, T, O) == [i \in 1..Len(ds) |-> SearchRunX(ds[i].d, ds[i].sx, TabX(ds[i].d, ds[i].sx, T), O).out]   \* ds[i] = [d, sx]
SearchStream(docs, T, O) == [i \in 1..Len(docs) |-> Search(docs[i], T, O)]
RECURSIVE DedupAcc(_, _)
DedupAcc(xs, acc) == IF Len(xs) = 0 THEN acc
                     ELSE DedupAcc(Tail(xs), IF \E j \in 1..Len(acc) : acc[j] = xs[1] THEN acc ELSE Append(acc, xs[1]))
DocLines(name, idx, rs, sepc) ==         \* rs: the results of one document's search
  LET ps == DedupAcc([j \in 1..Len(rs) |-> Printed(rs[j].steps, sepc)], <<>>) IN
  [j \in 1..Len(ps) |-> name \o "/" \o NatStr(idx) \o ": " \o ps[j]]
StreamLines(name, docs, T, O, sepc) ==
  LET rss == SearchStream(docs, T, O) IN Flatten([i \in 1..Len(docs) |-> DocLines(name, i - 1, rss[i], sepc)])
\* Several --search expressions and --except expressions (process_yaml_file): every expression is searched with the
\* same options; the document's report is the paths of the --search expressions in order, each text once (attributed,
\* in the "[EXPR]" decorator printed when more than one --search is given, to the first expression that yields it),
\* minus every text an --except expression yields.  (The usage text says "except results matching this search
\* expression"; that "matching" is equality of the printed path is the code's reading.)
\* pss[k] / ess[k]: the printed paths of the k-th --search / --except expression's search of the document
KeptPaths(pss, ess) ==
  SelectSeq(DedupAcc(Flatten(pss), <<>>), LAMBDA p : \A k \in 1..Len(ess) : \A j \in 1..Len(ess[k]) : ess[k][j] # p)
FirstYielding(pss, p) == CHOOSE k \in 1..Len(pss) : (\E j \in 1..Len(pss[k]) : pss[k][j] = p) /\ \A h \in 1..(k - 1) : \A j \in 1..Len(pss[h]) : pss[h][j] # p
DocReport(name, idx, exprs, pss, ess) ==            \* exprs[k]: the text of the k-th --search expression
  LET ps == KeptPaths(pss, ess) IN
  [j \in 1..Len(ps) |-> name \o "/" \o NatStr(idx) \o (IF Len(exprs) > 1 THEN "[" \o exprs[FirstYielding(pss, ps[j])] \o "]" ELSE "") \o ": " \o ps[j]]
PathsOf(rs, sepc) == [j \in 1..Len(rs) |-> Printed(rs[j].steps, sepc)]
StreamReport(name, docs, Ts, Xs, O, sepc) ==        \* Ts / Xs: the terms of the --search / --except expressions
  Flatten([i \in 1..Len(docs) |->
             DocReport(name, i - 1, [k \in 1..Len(Ts) |-> Expr(Ts[k])],
                       [k \in 1..Len(Ts) |-> PathsOf(Search(docs[i], Ts[k], O), sepc)],
                       [k \in 1..Len(Xs) |-> PathsOf(Search(docs[i], Xs[k], O), sepc)])])
EmptyDocument == <<Node("s", "null", "", 0)>>       \* "---" with nothing after it: no arm of the search applies

(***************************************************************************)
(* Declarative: which positions a search must report.                      *)
(*   "-k search key names in addition to values and array elements",       *)
(*   "-K only search key names", "-a also search the names of &anchor and  *)
(*   *alias references"; "-A include only original matching key and value  *)
(*   anchors, discarding all aliased keys and values (including child      *)
(*   nodes)"; "-Y include matching key aliases, permitting search          *)
(*   traversal into their child nodes"; "-y include matching value aliases *)
(*   (does not permit search traversal into aliased keys)"; CHANGES 2.1.1: *)
(*   "when a node is matched by name, any children are ignored because     *)
(*   they will have already been yielded as the parent node's value".      *)
(*   Members of a Set are searched in every mode.                          *)
(* Keys and merge keys:                                                    *)
(*   - an aliased key, with everything below it, counts only when key      *)
(*     aliases are included;                                               *)
(*   - a merged-in pair counts only through the pool rule (key or value    *)
(*     aliases included);                                                  *)
(*   - the name of a key's anchor is searched with --refnames where key    *)
(*     names are searched;                                                 *)
(*   - a `<<` reference is reported (as [&name]) when its anchor's name    *)
(*     satisfies the expression and value aliases are included (the usage  *)
(*     text does not mention merge keys: without --refnames, in key-names- *)
(*     only mode, and for a merged hash that is a list element - which the *)
(*     code's anchor scan does not record - the case is informational).    *)
(***************************************************************************)
Excl(sx, O, i) == (i \in sx.kalias /\ ~O.ka) \/ ~InPool(sx, O, i)
KeyHit(d, m, O, i) == O.keys /\ i \in KeyedIds(d) /\ m.key[i]
KRefHit(sx, m, O, i) == O.keys /\ O.refs /\ sx.kanchor[i] # "" /\ m.ref[sx.kanchor[i]]
RefHit(d, m, O, i) == O.refs /\ d[i].anchor # "" /\ m.ref[d[i].anchor]
ValHit(d, m, O, i) == d[i].k = "s" /\ m.val[i] /\ (O.vals \/ d[d[i].par].k = "set")
AliasOK(d, O, i) == d[i].alias = 0 \/ O.va            \* an aliased repeat counts only when value aliases are asked for
ByName(d, sx, m, O, a) == KeyHit(d, m, O, a) \/ KRefHit(sx, m, O, a) \/ (RefHit(d, m, O, a) /\ AliasOK(d, O, a))
Own(d, sx, m, O, i) == ~Excl(sx, O, i) /\ (ByName(d, sx, m, O, i) \/ (ValHit(d, m, O, i) /\ AliasOK(d, O, i)))
\* the search does not go below a: it was matched by name, or it is discarded
Closed(d, sx, m, O, a) == Excl(sx, O, a) \/ ByName(d, sx, m, O, a)
Covered(d, sx, m, O, i) == \E a \in 2..(i - 1) : IsUnder(d, i, a) /\ Closed(d, sx, m, O, a)
Reached(d, sx, m, O, u) == u = Root \/ (~Closed(d, sx, m, O, u) /\ ~Covered(d, sx, m, O, u))      \* the hash u is searched
YmkHits(d, sx, m, O) ==
  {YmkId(d, sx, p[1], p[2]) : p \in {q \in UNION {{<<u, r>> : r \in 1..Len(sx.merges[u])} : u \in 1..Len(d)} :
                                       /\ O.va /\ m.ref[d[sx.merges[q[1]][q[2]]].anchor] /\ Reached(d, sx, m, O, q[1])
                                       \* (mirror, informational: the merged hash must be one scan_for_anchors records)
                                       /\ Scanned(d, sx.merges[q[1]][q[2]])}}

MatchingX(d, sx, m, O) == {i \in 2..Len(d) : Own(d, sx, m, O, i) /\ ~Covered(d, sx, m, O, i)} \cup YmkHits(d, sx, m, O)
MatchingM(d, m, O) == MatchingX(d, NoSide(d), m, O)
Matching(d, T, O) == MatchingM(d, Tab(d, T), O)

\* --expand: "expand matching parent nodes to list all permissible child leaf nodes": the leaves below the
\* parent with no discarded key, value alias or merged pair on the way
RECURSIVE SetOfSeq(_)
SetOfSeq(s) == IF Len(s) = 0 THEN {} ELSE {s[1]} \cup SetOfSeq(Tail(s))
Permitted(d, sx, O, i, l) == \A a \in (i + 1)..l : IsUnder(d, l, a) => (~Excl(sx, O, a) /\ AliasOK(d, O, a))
ExpandOfX(d, sx, O, i) == IF i > Len(d) \/ d[i].k = "s" THEN {i} ELSE {l \in SetOfSeq(LeavesOf(d, i)) : Permitted(d, sx, O, i, l)}
ExpectedOfX(d, sx, O, mt) == IF O.expand THEN UNION {ExpandOfX(d, sx, O, i) : i \in mt} ELSE mt      \* mt = MatchingX(d, sx, m, O)
ExpandOf(d, O, i) == ExpandOfX(d, NoSide(d), O, i)
ExpectedOf(d, O, mt) == ExpectedOfX(d, NoSide(d), O, mt)
ExpectedM(d, m, O) == ExpectedOf(d, O, MatchingM(d, m, O))
Expected(d, T, O) == ExpectedM(d, Tab(d, T), O)

(***************************************************************************)
(* Well-formedness of a side structure                                     *)
(***************************************************************************)
WellFormedSide(d, sx) ==
  LET own(u) == {c \in SetOfSeq(d[u].kids) : c \notin sx.merged} IN
  /\ DOMAIN sx.kanchor = 1..Len(d) /\ DOMAIN sx.merges = 1..Len(d)
  /\ \A i \in 1..Len(d) : sx.kanchor[i] # "" => i \in KeyedIds(d)
  /\ KAnchorNames(sx) \cap AnchorNames(d) = {}
  /\ sx.kalias \subseteq {i \in 1..Len(d) : sx.kanchor[i] # ""}
  \* every name is defined on exactly one key, and an alias repeats that key (same text) later in the document
  /\ \A p, q \in (1..Len(d)) \ sx.kalias : (sx.kanchor[p] # "" /\ sx.kanchor[p] = sx.kanchor[q]) => p = q
  /\ \A q \in sx.kalias : \E p \in 2..(q - 1) : p \notin sx.kalias /\ sx.kanchor[p] = sx.kanchor[q] /\ KeyOf(d, p) = KeyOf(d, q)
  \* merged hashes are anchored hashes that are complete before the merging hash begins
  /\ \A u \in 1..Len(d) : \A r \in 1..Len(sx.merges[u]) :
       LET t == sx.merges[u][r] IN d[u].k = "map" /\ t \in 2..(u - 1) /\ d[t].k = "map" /\ d[t].anchor # "" /\ d[t].alias = 0 /\ ~IsUnder(d, u, t)
  \* a merged-in pair is a copy of a pair of a merged hash (same key object, same value object) and follows the own pairs
  /\ \A n \in sx.merged : LET u == d[n].par IN
       /\ n \in KeyedIds(d) /\ \A c \in own(u) : c < n
       /\ \E r \in 1..Len(sx.merges[u]) : \E c \in SetOfSeq(d[sx.merges[u][r]].kids) :
            /\ KeyOf(d, c) = KeyOf(d, n) /\ d[c].k = d[n].k /\ d[c].t = d[n].t /\ d[c].v = d[n].v /\ d[c].anchor = d[n].anchor
            /\ sx.kanchor[c] = sx.kanchor[n] /\ (sx.kanchor[c] # "" => n \in sx.kalias)
            /\ (d[n].anchor # "" => d[n].alias # 0)
  \* local keys shadow merged ones; every pair of a merged hash is seen through the merging hash exactly once
  /\ \A u \in 1..Len(d) : \A r \in 1..Len(sx.merges[u]) : \A c \in SetOfSeq(d[sx.merges[u][r]].kids) :
       Cardinality({k \in SetOfSeq(d[u].kids) : KeyOf(d, k) = KeyOf(d, c)}) = 1

(***************************************************************************)
(* Design theorems, per (document, match table, options)                   *)
(***************************************************************************)
\* rs = the results of the search and mt = the matching set, passed in so that a model evaluates each once
NoRepeats(rs) == \A a, b \in 1..Len(rs) : a # b => rs[a].id # rs[b].id
SoundCompleteX(d, sx, O, rs, mt) == NoRepeats(rs) /\ SetOfSeq(Ids(rs)) = ExpectedOfX(d, sx, O, mt)
StepsOfId(d, sx, id) ==
  IF id <= Len(d) THEN StepsTo(d, id)
  ELSE LET p == CHOOSE q \in UNION {{<<u, r>> : r \in 1..Len(sx.merges[u])} : u \in 1..Len(d)} : YmkId(d, sx, q[1], q[2]) = id
       IN Append(StepsTo(d, p[1]), Step("ymk", d[sx.merges[p[1]][p[2]]].anchor))
PathsCanonicalX(d, sx, rs) == \A j \in 1..Len(rs) : rs[j].steps = StepsOfId(d, sx, rs[j].id)
ExpandsExactlyX(d, sx, O, rs, mt) ==
  /\ {rs[j].of : j \in 1..Len(rs)} \subseteq mt
  /\ \A i \in mt : {rs[j].id : j \in {x \in 1..Len(rs) : rs[x].of = i}} = (IF O.expand THEN ExpandOfX(d, sx, O, i) ELSE {i})
SoundCompleteR(d, O, rs, mt) == SoundCompleteX(d, NoSide(d), O, rs, mt)
PathsCanonicalR(d, rs) == PathsCanonicalX(d, NoSide(d), rs)
ExpandsExactlyR(d, O, rs, mt) == ExpandsExactlyX(d, NoSide(d), O, rs, mt)
SoundComplete(d, m, O) == SoundCompleteR(d, O, SearchM(d, m, O), MatchingM(d, m, O))
PathsCanonical(d, m, O) == PathsCanonicalR(d, SearchM(d, m, O))
ExpandsExactly(d, m, O) == ExpandsExactlyR(d, O, SearchM(d, m, O), MatchingM(d, m, O))

(***************************************************************************)
(* Where the PINNED designs leave the declarative definition (each was     *)
(* confirmed on the pinned code and repaired).  Defined on the document,   *)
(* the table and the options - never on Search's outcome.  With            *)
(* PinnedDefects = {} no class applies and T2/T4 must hold everywhere.     *)
(***************************************************************************)
\* a Set held in a list is not descended into
SetInSeq(d) == \E s \in 2..Len(d) : d[s].k = "set" /\ d[d[s].par].k = "seq"
\* the expansion of a matched parent lists a Set below it as one leaf (yield_children had no Set arm)
ExpandSetR(d, O, mt) == O.expand /\ \E i \in mt : i <= Len(d) /\ d[i].k # "s" /\ \E s \in SubtreeIds(d, i) : d[s].k = "set"
\* the children of a parent matched by name are skipped without recording their anchors, so an alias of an
\* anchor defined below that parent is taken for the original
AliasAfterCovered(d, sx, m, O) ==
  ~O.expand /\ \/ (~O.va /\ \E i \in 2..Len(d) : d[i].alias # 0 /\ Covered(d, sx, m, O, d[i].alias))
               \/ (~O.ka /\ \E q \in sx.kalias : \E p \in 2..(q - 1) : sx.kanchor[p] = sx.kanchor[q] /\ Covered(d, sx, m, O, p))
\* an aliased key is reported / descended into although key aliases are not included
AliasedKey(sx, O) == ~O.ka /\ sx.kalias # {}
DevClassX(d, sx, m, O, mt) ==
  IF Pinned("set-in-seq") /\ SetInSeq(d) THEN "set-in-seq"
  ELSE IF Pinned("expand-set") /\ ExpandSetR(d, O, mt) THEN "expand-set"
  ELSE IF Pinned("alias-after-covered-anchor") /\ AliasAfterCovered(d, sx, m, O) THEN "alias-after-covered-anchor"
  ELSE IF Pinned("aliased-key") /\ AliasedKey(sx, O) THEN "aliased-key"
  ELSE ""
DevClassR(d, m, O, mt) == DevClassX(d, NoSide(d), m, O, mt)
DevClass(d, m, O) == DevClassR(d, m, O, MatchingM(d, m, O))

\* corners the usage text leaves open: comparisons YCompare calls Silent; --onlykeynames together with
\* --refnames or with Set members (are those "key names"?); the name of a key's anchor when key names are not
\* searched; a `<<` reference reported without --refnames or in key-names-only mode
InfoCaseX(d, sx, m, O, mt) ==
  \/ ((O.vals \/ \E s \in 1..Len(d) : d[s].k = "set") /\ m.ival)
  \/ (O.keys /\ m.ikey)
  \/ ((O.refs \/ (O.va /\ HasMerges(d, sx))) /\ m.iref)
  \/ (~O.vals /\ O.refs /\ AnchorNames(d) # {})
  \/ (~O.vals /\ \E s \in 1..Len(d) : d[s].k = "set" /\ Len(d[s].kids) > 0)
  \/ (~O.keys /\ O.refs /\ \E a \in KAnchorNames(sx) : m.ref[a])
  \/ ((~O.refs \/ ~O.vals) /\ \E i \in mt : i > Len(d))
  \/ (O.va /\ \E u \in 1..Len(d) : \E r \in 1..Len(sx.merges[u]) : ~Scanned(d, sx.merges[u][r]) /\ m.ref[d[sx.merges[u][r]].anchor])
InfoCase(d, m, O) == InfoCaseX(d, NoSide(d), m, O, MatchingM(d, m, O))
=============================================================================
